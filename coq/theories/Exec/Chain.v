(** C17: the specification evaluator instrumented with the *executing
    chain* of a failing evaluation — the elements whose formulas were running
    when the exception escaped, outermost first, each with the line of its
    formula where the next call or the error occurred. *)
From Coq Require Import List ZArith Bool Arith Lia.
From MX Require Import Exec.Model Exec.Spec Exec.SpecMono.
Import ListNotations.

Definition chain := list (item * nat).

(** expressions and argument lists return the chain of the frames *below*
    the current one (empty when the error arises in the current formula) *)
Fixpoint ch_expr (fuel : nat) (D : defs) (inp : list (item * val)) (args : key) (locs : list val) (line : nat)
  (e : expr) {struct fuel} : res val * chain :=
  match fuel with
  | O => (OutOfFuel, [])
  | S f =>
      match e with
      | EConst v => (Val v, [])
      | EPar i => (match nth_error args i with Some v => Val v | None => Err KName end, [])
      | ELoc i => (match nth_error locs i with Some v => Val v | None => Err KName end, [])
      | EBin o a b =>
          match ch_expr f D inp args locs line a with
          | (Val va, _) => match ch_expr f D inp args locs line b with
                           | (Val vb, _) => (arith o va vb, [])
                           | r => r
                           end
          | r => r
          end
      | EIfPos c t e' =>
          match ch_expr f D inp args locs line c with
          | (Val (VInt z), _) => if Z.ltb 0 z then ch_expr f D inp args locs line t
                                 else ch_expr f D inp args locs line e'
          | (Val VNone, _) => (Err KType, [])
          | r => r
          end
      | ECall c es =>
          match ch_args f D inp args locs line es with
          | (Val vs, _) =>
              match lookup_cell (fst D) c with
              | None => (Err KName, [])
              | Some cl => match bind_pos cl vs with
                           | None => (Err KType, [])
                           | Some k => ch_node f D inp (c, k)
                           end
              end
          | (Err k, ch) => (Err k, ch)
          | (OutOfFuel, ch) => (OutOfFuel, ch)
          end
      | ERefN r | ERefA r =>
          (match lookup_ref (snd D) r with Some (_, v) => Val v | None => Err KName end, [])
      | ERaise k => (Err k, [])
      end
  end
with ch_args (fuel : nat) (D : defs) (inp : list (item * val)) (args : key) (locs : list val) (line : nat)
  (es : list expr) {struct fuel} : res (list val) * chain :=
  match fuel with
  | O => (OutOfFuel, [])
  | S f =>
      match es with
      | [] => (Val [], [])
      | e :: rest =>
          match ch_expr f D inp args locs line e with
          | (Val v, _) => match ch_args f D inp args locs line rest with
                          | (Val vs, _) => (Val (v :: vs), [])
                          | r => r
                          end
          | (Err k, ch) => (Err k, ch)
          | (OutOfFuel, ch) => (OutOfFuel, ch)
          end
      end
  end
(** an element: on failure the chain starts with the element itself *)
with ch_node (fuel : nat) (D : defs) (inp : list (item * val)) (i : item) {struct fuel} : res val * chain :=
  match fuel with
  | O => (OutOfFuel, [])
  | S f =>
      match lookup_cell (fst D) (fst i) with
      | None => (Err KName, [])
      | Some cl =>
          match (if cl_cached cl then lookup_data inp i else None) with
          | Some v => (Val v, [])
          | None =>
              match ch_body f D inp (snd i) [] (cl_body cl) (cl_body cl) 0 with
              | (Val v, _, _) =>
                  match none_check cl v with
                  | Err k => (Err k, [(i, 0)])
                  | r => (r, [])
                  end
              | (Err k, ch, ln) => (Err k, (i, ln) :: ch)
              | (OutOfFuel, _, _) => (OutOfFuel, [])
              end
          end
      end
  end
with ch_body (fuel : nat) (D : defs) (inp : list (item * val)) (args : key) (locs : list val)
  (whole rest : list stmt) (idx : nat) {struct fuel} : res val * chain * nat :=
  match fuel with
  | O => (OutOfFuel, [], 0)
  | S f =>
      match rest with
      | [] => (Val (last locs VNone), [], 0)
      | SAssign e :: more =>
          let ln := stmt_line whole idx in
          match ch_expr f D inp args locs ln e with
          | (Val v, _) => ch_body f D inp args (locs ++ [v]) whole more (S idx)
          | (Err k, ch) => (Err k, ch, ln)
          | (OutOfFuel, _) => (OutOfFuel, [], 0)
          end
      | STry e h :: more =>
          let ln := stmt_line whole idx in
          match ch_expr f D inp args locs (ln + 1) e with
          | (Val v, _) => ch_body f D inp args (locs ++ [v]) whole more (S idx)
          | (Err k, ch) =>
              if catchable k then
                match ch_expr f D inp args locs (ln + 3) h with
                | (Val v, _) => ch_body f D inp args (locs ++ [v]) whole more (S idx)
                | (Err k2, ch2) => (Err k2, ch2, ln + 3)
                | (OutOfFuel, _) => (OutOfFuel, [], 0)
                end
              else (Err k, ch, ln + 1)
          | (OutOfFuel, _) => (OutOfFuel, [], 0)
          end
      | SFin e c :: more =>
          let ln := stmt_line whole idx in
          match ch_expr f D inp args locs (ln + 1) e with
          | (Val v, _) =>
              match ch_expr f D inp args locs (ln + 3) c with
              | (Val _, _) => ch_body f D inp args (locs ++ [v]) whole more (S idx)
              | (Err k2, ch2) => (Err k2, ch2, ln + 3)
              | (OutOfFuel, _) => (OutOfFuel, [], 0)
              end
          | (Err k, ch) =>
              match ch_expr f D inp args locs (ln + 3) c with
              | (Val _, _) => (Err k, ch, ln + 1)
              | (Err k2, ch2) => (Err k2, ch2, ln + 3)
              | (OutOfFuel, _) => (OutOfFuel, [], 0)
              end
          | (OutOfFuel, _) => (OutOfFuel, [], 0)
          end
      end
  end.

(** the executing chain of a failing top-level request for element [i] *)
Definition spec_chain (fuel : nat) (D : defs) (inp : list (item * val)) (i : item) : res val * chain :=
  ch_node fuel D inp i.

(** * The result component is the specification evaluator *)
Lemma ch_fst_all : forall f,
  (forall D inp args locs ln e, fst (ch_expr f D inp args locs ln e) = sp_expr f D inp args locs e) /\
  (forall D inp args locs ln es, fst (ch_args f D inp args locs ln es) = sp_args f D inp args locs es) /\
  (forall D inp i, fst (ch_node f D inp i) = sp_node f D inp i) /\
  (forall D inp args locs whole rest idx,
     fst (fst (ch_body f D inp args locs whole rest idx)) = sp_body f D inp args locs rest).
Proof.
  induction f as [|f (IHe & IHa & IHn & IHb)]; [repeat split; reflexivity|].
  repeat split.
  - intros D inp args locs ln e. destruct e; simpl; try reflexivity.
    + rewrite <- (IHe D inp args locs ln e1). destruct (ch_expr f D inp args locs ln e1) as [[va|k|] c1]; simpl; try reflexivity.
      rewrite <- (IHe D inp args locs ln e2). destruct (ch_expr f D inp args locs ln e2) as [[vb|k|] c2]; reflexivity.
    + rewrite <- (IHe D inp args locs ln e1). destruct (ch_expr f D inp args locs ln e1) as [[[z|]|k|] c1]; simpl; try reflexivity.
      destruct (Z.ltb 0 z); [apply IHe|apply IHe].
    + rewrite <- (IHa D inp args locs ln args0). destruct (ch_args f D inp args locs ln args0) as [[vs|k|] c1]; simpl; try reflexivity.
      destruct (lookup_cell (fst D) c) as [cl|]; [|reflexivity].
      destruct (bind_pos cl vs) as [k|]; [|reflexivity]. apply IHn.
  - intros D inp args locs ln es. destruct es as [|e rest]; simpl; [reflexivity|].
    rewrite <- (IHe D inp args locs ln e). destruct (ch_expr f D inp args locs ln e) as [[v|k|] c1]; simpl; try reflexivity.
    rewrite <- (IHa D inp args locs ln rest). destruct (ch_args f D inp args locs ln rest) as [[vs|k|] c2]; reflexivity.
  - intros D inp i. simpl. destruct (lookup_cell (fst D) (fst i)) as [cl|]; [|reflexivity].
    destruct (if cl_cached cl then lookup_data inp i else None); [reflexivity|].
    rewrite <- (IHb D inp (snd i) [] (cl_body cl) (cl_body cl) 0).
    destruct (ch_body f D inp (snd i) [] (cl_body cl) (cl_body cl) 0) as [[[v|k|] c] ln]; simpl; try reflexivity.
    destruct (none_check cl v); reflexivity.
  - intros D inp args locs whole rest idx. destruct rest as [|s more]; simpl; [reflexivity|].
    destruct s as [e|e h|e c].
    + rewrite <- (IHe D inp args locs (stmt_line whole idx) e).
      destruct (ch_expr f D inp args locs (stmt_line whole idx) e) as [[v|k|] c1]; simpl; try reflexivity. apply IHb.
    + rewrite <- (IHe D inp args locs (stmt_line whole idx + 1) e).
      destruct (ch_expr f D inp args locs (stmt_line whole idx + 1) e) as [[v|k|] c1]; simpl; try reflexivity; [apply IHb|].
      destruct (catchable k); [|reflexivity].
      rewrite <- (IHe D inp args locs (stmt_line whole idx + 3) h).
      destruct (ch_expr f D inp args locs (stmt_line whole idx + 3) h) as [[v|k2|] c2]; simpl; try reflexivity. apply IHb.
    + rewrite <- (IHe D inp args locs (stmt_line whole idx + 1) e).
      rewrite <- (IHe D inp args locs (stmt_line whole idx + 3) c).
      destruct (ch_expr f D inp args locs (stmt_line whole idx + 1) e) as [[v|k|] c1]; simpl; try reflexivity;
        destruct (ch_expr f D inp args locs (stmt_line whole idx + 3) c) as [[w|k2|] c2]; simpl; try reflexivity.
      apply IHb.
Qed.

(** * Every element on a chain fails with the chain's error *)
Definition node_fails (D : defs) (inp : list (item * val)) (j : item) (k : ekind) : Prop :=
  exists g cl, lookup_cell (fst D) (fst j) = Some cl /\
               (if cl_cached cl then lookup_data inp j else None) = None /\
               sp_node g D inp j = Err k.

Lemma chain_fail_all : forall f,
  (forall D inp args locs ln e k cc, ch_expr f D inp args locs ln e = (Err k, cc) ->
     forall j l, In (j, l) cc -> node_fails D inp j k) /\
  (forall D inp args locs ln es k cc, ch_args f D inp args locs ln es = (Err k, cc) ->
     forall j l, In (j, l) cc -> node_fails D inp j k) /\
  (forall D inp i k cc, ch_node f D inp i = (Err k, cc) ->
     forall j l, In (j, l) cc -> node_fails D inp j k) /\
  (forall D inp args locs whole rest idx k cc ln, ch_body f D inp args locs whole rest idx = (Err k, cc, ln) ->
     forall j l, In (j, l) cc -> node_fails D inp j k).
Proof.
  induction f as [|f (IHe & IHa & IHn & IHb)].
  { repeat split; intros; simpl in *; discriminate. }
  repeat split.
  - intros D inp args locs ln e k cc H j l Hin. destruct e; simpl in H;
      try (inversion H; subst; contradiction).
    + destruct (ch_expr f D inp args locs ln e1) as [[va|k1|] c1] eqn:E1.
      * destruct (ch_expr f D inp args locs ln e2) as [[vb|k2|] c2] eqn:E2.
        -- inversion H; subst. contradiction.
        -- inversion H; subst. eapply IHe; eauto.
        -- discriminate.
      * inversion H; subst. eapply IHe; eauto.
      * discriminate.
    + destruct (ch_expr f D inp args locs ln e1) as [[[z|]|k1|] c1] eqn:E1.
      * destruct (Z.ltb 0 z); eapply IHe; eauto.
      * inversion H; subst. contradiction.
      * inversion H; subst. eapply IHe; eauto.
      * discriminate.
    + destruct (ch_args f D inp args locs ln args0) as [[vs|k1|] c1] eqn:E1.
      * destruct (lookup_cell (fst D) c) as [cl|]; [|inversion H; subst; contradiction].
        destruct (bind_pos cl vs) as [kk|]; [|inversion H; subst; contradiction].
        eapply IHn; eauto.
      * inversion H; subst. eapply IHa; eauto.
      * discriminate.
  - intros D inp args locs ln es k cc H j l Hin. destruct es as [|e rest]; simpl in H; [discriminate|].
    destruct (ch_expr f D inp args locs ln e) as [[v|k1|] c1] eqn:E1.
    + destruct (ch_args f D inp args locs ln rest) as [[vs|k2|] c2] eqn:E2.
      * discriminate.
      * inversion H; subst. eapply IHa; eauto.
      * discriminate.
    + inversion H; subst. eapply IHe; eauto.
    + discriminate.
  - intros D inp i k cc H j l Hin.
    pose proof (proj1 (proj2 (proj2 (ch_fst_all (S f)))) D inp i) as F. rewrite H in F. simpl fst in F.
    simpl in H. destruct (lookup_cell (fst D) (fst i)) as [cl|] eqn:El; [|inversion H; subst; contradiction].
    destruct (if cl_cached cl then lookup_data inp i else None) eqn:Eh; [discriminate|].
    assert (Hself : node_fails D inp i k).
    { exists (S f), cl. repeat split; auto. }
    destruct (ch_body f D inp (snd i) [] (cl_body cl) (cl_body cl) 0) as [[[v|k1|] cb] ln0] eqn:Eb.
    + destruct (none_check cl v); inversion H; subst; try contradiction.
      destruct Hin as [E|[]]. inversion E; subst. exact Hself.
    + inversion H; subst. destruct Hin as [E|Hin]; [inversion E; subst; exact Hself|].
      eapply IHb; eauto.
    + discriminate.
  - intros D inp args locs whole rest idx k cc ln H j l Hin. destruct rest as [|s more]; simpl in H; [discriminate|].
    destruct s as [e|e h|e c].
    + destruct (ch_expr f D inp args locs (stmt_line whole idx) e) as [[v|k1|] c1] eqn:E1.
      * eapply IHb; eauto.
      * inversion H; subst. eapply IHe; eauto.
      * discriminate.
    + destruct (ch_expr f D inp args locs (stmt_line whole idx + 1) e) as [[v|k1|] c1] eqn:E1.
      * eapply IHb; eauto.
      * destruct (catchable k1).
        -- destruct (ch_expr f D inp args locs (stmt_line whole idx + 3) h) as [[v|k2|] c2] eqn:E2.
           ++ eapply IHb; eauto.
           ++ inversion H; subst. eapply IHe; eauto.
           ++ discriminate.
        -- inversion H; subst. eapply IHe; eauto.
      * discriminate.
    + destruct (ch_expr f D inp args locs (stmt_line whole idx + 1) e) as [[v|k1|] c1] eqn:E1.
      * destruct (ch_expr f D inp args locs (stmt_line whole idx + 3) c) as [[w|k2|] c2] eqn:E2.
        -- eapply IHb; eauto.
        -- inversion H; subst. eapply IHe; eauto.
        -- discriminate.
      * destruct (ch_expr f D inp args locs (stmt_line whole idx + 3) c) as [[w|k2|] c2] eqn:E2.
        -- inversion H; subst. eapply IHe; eauto.
        -- inversion H; subst. eapply IHe; eauto.
        -- discriminate.
      * discriminate.
Qed.

(** * A value has no chain *)
Lemma chain_val_nil : forall f,
  (forall D inp args locs ln e v cc, ch_expr f D inp args locs ln e = (Val v, cc) -> cc = []) /\
  (forall D inp args locs ln es v cc, ch_args f D inp args locs ln es = (Val v, cc) -> cc = []) /\
  (forall D inp i v cc, ch_node f D inp i = (Val v, cc) -> cc = []) /\
  (forall D inp args locs whole rest idx v cc ln, ch_body f D inp args locs whole rest idx = (Val v, cc, ln) -> cc = []).
Proof.
  induction f as [|f (IHe & IHa & IHn & IHb)].
  { repeat split; intros; simpl in *; discriminate. }
  repeat split.
  - intros D inp args locs ln e v cc H. destruct e; simpl in H; try (inversion H; reflexivity).
    + destruct (ch_expr f D inp args locs ln e1) as [[va|k1|] c1] eqn:E1; try discriminate.
      destruct (ch_expr f D inp args locs ln e2) as [[vb|k2|] c2] eqn:E2; try discriminate.
      inversion H; reflexivity.
    + destruct (ch_expr f D inp args locs ln e1) as [[[z|]|k1|] c1] eqn:E1; try discriminate.
      destruct (Z.ltb 0 z); eapply IHe; eauto.
    + destruct (ch_args f D inp args locs ln args0) as [[vs|k1|] c1] eqn:E1; try discriminate.
      destruct (lookup_cell (fst D) c) as [cl|]; [|discriminate].
      destruct (bind_pos cl vs) as [kk|]; [|discriminate]. eapply IHn; eauto.
  - intros D inp args locs ln es v cc H. destruct es as [|e rest]; simpl in H; [inversion H; reflexivity|].
    destruct (ch_expr f D inp args locs ln e) as [[w|k1|] c1] eqn:E1; try discriminate.
    destruct (ch_args f D inp args locs ln rest) as [[vs|k2|] c2] eqn:E2; try discriminate.
    inversion H; reflexivity.
  - intros D inp i v cc H. simpl in H.
    destruct (lookup_cell (fst D) (fst i)) as [cl|]; [|discriminate].
    destruct (if cl_cached cl then lookup_data inp i else None); [inversion H; reflexivity|].
    destruct (ch_body f D inp (snd i) [] (cl_body cl) (cl_body cl) 0) as [[[w|k1|] cb] ln0]; try discriminate.
    destruct (none_check cl w); inversion H; reflexivity.
  - intros D inp args locs whole rest idx v cc ln H. destruct rest as [|s more]; simpl in H; [inversion H; reflexivity|].
    destruct s as [e|e h|e c].
    + destruct (ch_expr f D inp args locs (stmt_line whole idx) e) as [[w|k1|] c1] eqn:E1; try discriminate.
      eapply IHb; eauto.
    + destruct (ch_expr f D inp args locs (stmt_line whole idx + 1) e) as [[w|k1|] c1] eqn:E1; try discriminate.
      * eapply IHb; eauto.
      * destruct (catchable k1); [|discriminate].
        destruct (ch_expr f D inp args locs (stmt_line whole idx + 3) h) as [[w|k2|] c2] eqn:E2; try discriminate.
        eapply IHb; eauto.
    + destruct (ch_expr f D inp args locs (stmt_line whole idx + 1) e) as [[w|k1|] c1] eqn:E1; try discriminate;
        destruct (ch_expr f D inp args locs (stmt_line whole idx + 3) c) as [[w2|k2|] c2] eqn:E2; try discriminate.
      eapply IHb; eauto.
Qed.
