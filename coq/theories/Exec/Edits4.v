(** K4, part 9: changing the value of a reference. *)
From Coq Require Import List ZArith Bool Arith Lia.
From MX Require Import Exec.Model Exec.Spec Exec.Basics Exec.SpecMono Exec.Sim Exec.Reads Exec.Graph
  Exec.Cover Exec.Cover2 Exec.Sim2 Exec.Quiet Exec.Local Exec.Edits Exec.Edits2 Exec.Edits3 Exec.Top.
Import ListNotations.

(** * Which references a formula reads by name *)
Fixpoint refn_in (e : expr) (r : rid) : bool :=
  match e with
  | ERefN r' => Nat.eqb r r'
  | EBin _ a b => refn_in a r || refn_in b r
  | EIfPos c t e' => refn_in c r || refn_in t r || refn_in e' r
  | ECall _ es => (fix go (l : list expr) : bool :=
                     match l with [] => false | x :: t => refn_in x r || go t end) es
  | _ => false
  end.
Definition refn_args (es : list expr) (r : rid) : bool := existsb (fun x => refn_in x r) es.
Definition refn_stmt (s : stmt) (r : rid) : bool :=
  match s with SAssign e => refn_in e r | STry e h => refn_in e r || refn_in h r | SFin e c => refn_in e r || refn_in c r end.
Definition refn_body (b : list stmt) (r : rid) : bool := existsb (fun s => refn_stmt s r) b.

Lemma refn_in_call c es r : refn_in (ECall c es) r = refn_args es r.
Proof. unfold refn_args. simpl. induction es as [|x t IH]; simpl; [reflexivity|]. now rewrite IH. Qed.

(** a space-level reference is read by name only by formulas of its space *)
Definition refn_ok (st : state) : Prop :=
  forall c cl r sp v, lookup_cell (s_cells st) c = Some cl -> refn_body (cl_body cl) r = true ->
    lookup_ref (s_refs st) r = Some (Some sp, v) -> cl_space cl = sp.

Definition from_body (D : defs) (c : cid) (x : rid) : Prop :=
  exists cl, lookup_cell (fst D) c = Some cl /\ refn_body (cl_body cl) x = true.

Lemma rname_src : forall g,
  (forall D inp me args locs e r ds, dr_expr g D inp me args locs e = (r, ds) ->
     forall c x, In (RName c x) ds -> (c = me /\ refn_in e x = true) \/ from_body D c x) /\
  (forall D inp me args locs es r ds, dr_args g D inp me args locs es = (r, ds) ->
     forall c x, In (RName c x) ds -> (c = me /\ refn_args es x = true) \/ from_body D c x) /\
  (forall D inp i r ds, dr_node g D inp i = (r, ds) ->
     forall c x, In (RName c x) ds -> from_body D c x) /\
  (forall D inp me args locs rest r ds, dr_body g D inp me args locs rest = (r, ds) ->
     forall c x, In (RName c x) ds -> (c = me /\ refn_body rest x = true) \/ from_body D c x).
Proof.
  induction g as [|g (IHe & IHa & IHn & IHb)].
  { repeat split; intros; simpl in *;
      match goal with H : (_, _) = (_, _) |- _ => inversion H; subst end;
      match goal with H : In _ [] |- _ => destruct H end. }
  split; [|split; [|split]].
  - intros D inp me args locs e r ds H c x Hin. destruct e; simpl in H;
      try (inversion H; subst; destruct Hin; fail).
    + destruct (dr_expr g D inp me args locs e1) as [[va|k|] d1] eqn:Da.
      * destruct (dr_expr g D inp me args locs e2) as [rb d2] eqn:Db.
        assert (ds = d1 ++ d2) by (destruct rb; inversion H; reflexivity). subst ds.
        apply in_app_or in Hin as [Hin|Hin].
        -- destruct (IHe _ _ _ _ _ _ _ _ Da c x Hin) as [(A & B)|A]; [left; split; [exact A|]|now right].
           simpl. now rewrite B.
        -- destruct (IHe _ _ _ _ _ _ _ _ Db c x Hin) as [(A & B)|A]; [left; split; [exact A|]|now right].
           simpl. rewrite B. apply orb_true_r.
      * inversion H; subst.
        destruct (IHe _ _ _ _ _ _ _ _ Da c x Hin) as [(A & B)|A]; [left; split; [exact A|]|now right].
        simpl. now rewrite B.
      * inversion H; subst.
        destruct (IHe _ _ _ _ _ _ _ _ Da c x Hin) as [(A & B)|A]; [left; split; [exact A|]|now right].
        simpl. now rewrite B.
    + destruct (dr_expr g D inp me args locs e1) as [[[z|]|k|] d1] eqn:Da.
      * destruct (if Z.ltb 0 z then dr_expr g D inp me args locs e2 else dr_expr g D inp me args locs e3)
          as [rb d2] eqn:Db.
        inversion H; subst. apply in_app_or in Hin as [Hin|Hin].
        -- destruct (IHe _ _ _ _ _ _ _ _ Da c x Hin) as [(A & B)|A]; [left; split; [exact A|]|now right].
           simpl. now rewrite B.
        -- destruct (Z.ltb 0 z).
           ++ destruct (IHe _ _ _ _ _ _ _ _ Db c x Hin) as [(A & B)|A]; [left; split; [exact A|]|now right].
              simpl. rewrite B. rewrite orb_true_r. reflexivity.
           ++ destruct (IHe _ _ _ _ _ _ _ _ Db c x Hin) as [(A & B)|A]; [left; split; [exact A|]|now right].
              simpl. rewrite B. apply orb_true_r.
      * inversion H; subst.
        destruct (IHe _ _ _ _ _ _ _ _ Da c x Hin) as [(A & B)|A]; [left; split; [exact A|]|now right].
        simpl. now rewrite B.
      * inversion H; subst.
        destruct (IHe _ _ _ _ _ _ _ _ Da c x Hin) as [(A & B)|A]; [left; split; [exact A|]|now right].
        simpl. now rewrite B.
      * inversion H; subst.
        destruct (IHe _ _ _ _ _ _ _ _ Da c x Hin) as [(A & B)|A]; [left; split; [exact A|]|now right].
        simpl. now rewrite B.
    + rewrite refn_in_call.
      destruct (dr_args g D inp me args locs args0) as [[vs|k|] d1] eqn:Da.
      * destruct (lookup_cell (fst D) c0) as [cl|];
          [|inversion H; subst; exact (IHa _ _ _ _ _ _ _ _ Da c x Hin)].
        destruct (bind_pos cl vs) as [kk|];
          [|inversion H; subst; exact (IHa _ _ _ _ _ _ _ _ Da c x Hin)].
        destruct (dr_node g D inp (c0, kk)) as [rb d2] eqn:Db. inversion H; subst.
        apply in_app_or in Hin as [Hin|Hin]; [exact (IHa _ _ _ _ _ _ _ _ Da c x Hin)|].
        right. exact (IHn _ _ _ _ _ Db c x Hin).
      * inversion H; subst. exact (IHa _ _ _ _ _ _ _ _ Da c x Hin).
      * inversion H; subst. exact (IHa _ _ _ _ _ _ _ _ Da c x Hin).
    + inversion H; subst. destruct Hin as [Hin|[]]. inversion Hin; subst. left. split; [reflexivity|].
      simpl. apply Nat.eqb_refl.
    + destruct (lookup_ref (snd D) r0) as [[sp v]|]; inversion H; subst; [|destruct Hin].
      destruct Hin as [Hin|[]]. discriminate.
  - intros D inp me args locs es r ds H c x Hin. destruct es as [|e rest]; simpl in H.
    + inversion H; subst. destruct Hin.
    + destruct (dr_expr g D inp me args locs e) as [[v|k|] d1] eqn:Da.
      * destruct (dr_args g D inp me args locs rest) as [rb d2] eqn:Db.
        assert (ds = d1 ++ d2) by (destruct rb; inversion H; reflexivity). subst ds.
        apply in_app_or in Hin as [Hin|Hin].
        -- destruct (IHe _ _ _ _ _ _ _ _ Da c x Hin) as [(A & B)|A]; [left; split; [exact A|]|now right].
           unfold refn_args; simpl. now rewrite B.
        -- destruct (IHa _ _ _ _ _ _ _ _ Db c x Hin) as [(A & B)|A]; [left; split; [exact A|]|now right].
           unfold refn_args in *; simpl. rewrite B. apply orb_true_r.
      * inversion H; subst.
        destruct (IHe _ _ _ _ _ _ _ _ Da c x Hin) as [(A & B)|A]; [left; split; [exact A|]|now right].
        unfold refn_args; simpl. now rewrite B.
      * inversion H; subst.
        destruct (IHe _ _ _ _ _ _ _ _ Da c x Hin) as [(A & B)|A]; [left; split; [exact A|]|now right].
        unfold refn_args; simpl. now rewrite B.
  - intros D inp i r ds H c x Hin. simpl in H.
    destruct (lookup_cell (fst D) (fst i)) as [cl|] eqn:El; [|inversion H; subst; destruct Hin].
    destruct (cl_cached cl).
    + assert (ds = [RItem i]).
      { destruct (lookup_data inp i); [inversion H; reflexivity|].
        destruct (dr_body g D inp (fst i) (snd i) [] (cl_body cl)) as [[w|k|] dd]; inversion H; reflexivity. }
      subst ds. destruct Hin as [Hin|[]]. discriminate.
    + destruct (dr_body g D inp (fst i) (snd i) [] (cl_body cl)) as [rb dd] eqn:Db.
      assert (ds = RObj (fst i) :: dd) by (destruct rb; inversion H; reflexivity). subst ds.
      destruct Hin as [Hin|Hin]; [discriminate|].
      destruct (IHb _ _ _ _ _ _ _ _ Db c x Hin) as [(A & B)|A]; [|exact A].
      subst c. exists cl. split; assumption.
  - intros D inp me args locs rest r ds H c x Hin. destruct rest as [|s more]; simpl in H.
    + inversion H; subst. destruct Hin.
    + destruct s as [e|e h|e fc].
      * destruct (dr_expr g D inp me args locs e) as [[v|k|] d1] eqn:Da.
        -- destruct (dr_body g D inp me args (locs ++ [v]) more) as [rb d2] eqn:Db. inversion H; subst.
           apply in_app_or in Hin as [Hin|Hin].
           ++ destruct (IHe _ _ _ _ _ _ _ _ Da c x Hin) as [(A & B)|A]; [left; split; [exact A|]|now right].
              unfold refn_body; simpl. now rewrite B.
           ++ destruct (IHb _ _ _ _ _ _ _ _ Db c x Hin) as [(A & B)|A]; [left; split; [exact A|]|now right].
              unfold refn_body in *; simpl. rewrite B. apply orb_true_r.
        -- inversion H; subst.
           destruct (IHe _ _ _ _ _ _ _ _ Da c x Hin) as [(A & B)|A]; [left; split; [exact A|]|now right].
           unfold refn_body; simpl. now rewrite B.
        -- inversion H; subst.
           destruct (IHe _ _ _ _ _ _ _ _ Da c x Hin) as [(A & B)|A]; [left; split; [exact A|]|now right].
           unfold refn_body; simpl. now rewrite B.
      * destruct (dr_expr g D inp me args locs e) as [[v|k|] d1] eqn:Da.
        -- destruct (dr_body g D inp me args (locs ++ [v]) more) as [rb d2] eqn:Db. inversion H; subst.
           apply in_app_or in Hin as [Hin|Hin].
           ++ destruct (IHe _ _ _ _ _ _ _ _ Da c x Hin) as [(A & B)|A]; [left; split; [exact A|]|now right].
              unfold refn_body; simpl. now rewrite B.
           ++ destruct (IHb _ _ _ _ _ _ _ _ Db c x Hin) as [(A & B)|A]; [left; split; [exact A|]|now right].
              unfold refn_body in *; simpl. rewrite B. apply orb_true_r.
        -- assert (He : forall y, In (RName c y) d1 -> (c = me /\ refn_body (STry e h :: more) y = true) \/ from_body D c y).
           { intros y Hy. destruct (IHe _ _ _ _ _ _ _ _ Da c y Hy) as [(A & B)|A]; [left; split; [exact A|]|now right].
             unfold refn_body; simpl. now rewrite B. }
           destruct (catchable k); [|inversion H; subst; now apply He].
           destruct (dr_expr g D inp me args locs h) as [[v|k2|] d2] eqn:Dh.
           ++ destruct (dr_body g D inp me args (locs ++ [v]) more) as [rb d3] eqn:Db. inversion H; subst.
              apply in_app_or in Hin as [Hin|Hin]; [now apply He|].
              apply in_app_or in Hin as [Hin|Hin].
              ** destruct (IHe _ _ _ _ _ _ _ _ Dh c x Hin) as [(A & B)|A]; [left; split; [exact A|]|now right].
                 unfold refn_body; simpl. rewrite B. rewrite orb_true_r. reflexivity.
              ** destruct (IHb _ _ _ _ _ _ _ _ Db c x Hin) as [(A & B)|A]; [left; split; [exact A|]|now right].
                 unfold refn_body in *; simpl. rewrite B. apply orb_true_r.
           ++ inversion H; subst. apply in_app_or in Hin as [Hin|Hin]; [now apply He|].
              destruct (IHe _ _ _ _ _ _ _ _ Dh c x Hin) as [(A & B)|A]; [left; split; [exact A|]|now right].
              unfold refn_body; simpl. rewrite B. rewrite orb_true_r. reflexivity.
           ++ inversion H; subst. apply in_app_or in Hin as [Hin|Hin]; [now apply He|].
              destruct (IHe _ _ _ _ _ _ _ _ Dh c x Hin) as [(A & B)|A]; [left; split; [exact A|]|now right].
              unfold refn_body; simpl. rewrite B. rewrite orb_true_r. reflexivity.
        -- inversion H; subst.
           destruct (IHe _ _ _ _ _ _ _ _ Da c x Hin) as [(A & B)|A]; [left; split; [exact A|]|now right].
           unfold refn_body; simpl. now rewrite B.
      * destruct (dr_expr g D inp me args locs e) as [re d1] eqn:Da.
        assert (He : forall y, In (RName c y) d1 -> (c = me /\ refn_body (SFin e fc :: more) y = true) \/ from_body D c y).
        { intros y Hy. destruct (IHe _ _ _ _ _ _ _ _ Da c y Hy) as [(A & B)|A]; [left; split; [exact A|]|now right].
          unfold refn_body; simpl. now rewrite B. }
        destruct (dr_expr g D inp me args locs fc) as [rc d2] eqn:Dc.
        assert (Hc : forall y, In (RName c y) d2 -> (c = me /\ refn_body (SFin e fc :: more) y = true) \/ from_body D c y).
        { intros y Hy. destruct (IHe _ _ _ _ _ _ _ _ Dc c y Hy) as [(A & B)|A]; [left; split; [exact A|]|now right].
          unfold refn_body; simpl. rewrite B. rewrite orb_true_r. reflexivity. }
        assert (Hm : In (RName c x) (RMask :: d1 ++ d2) -> (c = me /\ refn_body (SFin e fc :: more) x = true) \/ from_body D c x).
        { intros [Hi|Hi]; [discriminate|]. apply in_app_or in Hi as [Hi|Hi]; [now apply He|now apply Hc]. }
        destruct re as [v|k|].
        -- destruct rc as [w|k2|].
           ++ destruct (dr_body g D inp me args (locs ++ [v]) more) as [rb d3] eqn:Db. inversion H; subst.
              apply in_app_or in Hin as [Hin|Hin]; [now apply He|].
              apply in_app_or in Hin as [Hin|Hin]; [now apply Hc|].
              destruct (IHb _ _ _ _ _ _ _ _ Db c x Hin) as [(A & B)|A]; [left; split; [exact A|]|now right].
              unfold refn_body in *; simpl. rewrite B. apply orb_true_r.
           ++ inversion H; subst. now apply Hm.
           ++ inversion H; subst. now apply Hm.
        -- destruct rc as [w|k2|]; inversion H; subst; now apply Hm.
        -- inversion H; subst. now apply He.
Qed.

Lemma rname_own f D inp j v ds c x :
  dr_own f D inp j = (Val v, ds) -> In (RName c x) ds -> from_body D c x.
Proof.
  unfold dr_own. destruct (lookup_cell (fst D) (fst j)) as [cl|] eqn:El; [|discriminate].
  destruct (dr_body f D inp (fst j) (snd j) [] (cl_body cl)) as [rb d] eqn:Db. intros H Hin.
  assert (d = ds) by (destruct rb; inversion H; reflexivity). subst d.
  destruct (proj2 (proj2 (proj2 (rname_src f))) _ _ _ _ _ _ _ _ Db c x Hin) as [(A & B)|A]; [|exact A].
  subst c. exists cl. split; assumption.
Qed.

(** * Clearing steps only remove *)
Record Shrinks (st st' : state) : Prop := mkShrinks {
  sh_cells : s_cells st' = s_cells st;
  sh_refs : s_refs st' = s_refs st;
  sh_has : forall i, has st' i -> has st i;
  sh_inp : forall i, has st' i -> mem_item i (s_inputs st') = mem_item i (s_inputs st);
  sh_nodes : forall n, In n (s_nodes st') -> In n (s_nodes st);
  sh_redges : forall e, In e (s_redges st') -> In e (s_redges st) }.

Lemma Shrinks_refl st : Shrinks st st.
Proof. constructor; auto. Qed.
Lemma Shrinks_trans a b c : Shrinks a b -> Shrinks b c -> Shrinks a c.
Proof.
  intros A B. constructor.
  - rewrite (sh_cells _ _ B). apply (sh_cells _ _ A).
  - rewrite (sh_refs _ _ B). apply (sh_refs _ _ A).
  - intros i H. apply (sh_has _ _ A), (sh_has _ _ B), H.
  - intros i H. rewrite (sh_inp _ _ B i H). apply (sh_inp _ _ A). apply (sh_has _ _ B), H.
  - intros n H. apply (sh_nodes _ _ A), (sh_nodes _ _ B), H.
  - intros e H. apply (sh_redges _ _ A), (sh_redges _ _ B), H.
Qed.

Lemma clear_with_descs_Shrinks st n : Shrinks st (clear_with_descs st n).
Proof.
  destruct (mem_node n (s_nodes st)) eqn:Hm.
  - pose proof (clear_with_descs_Cleared st n Hm) as CL. constructor.
    + exact (cl_cells _ _ _ CL).
    + exact (cl_refs _ _ _ CL).
    + intros i H. unfold has in *. rewrite (cl_data _ _ _ CL) in H.
      destruct (mem_node (node_of i) (descs_with st n)); [now elim H|exact H].
    + intros i H. unfold has in H. rewrite (cl_data _ _ _ CL) in H. rewrite (cl_inputs _ _ _ CL).
      destruct (mem_node (node_of i) (descs_with st n)); [now elim H|]. simpl. apply andb_true_r.
    + intros x H. apply (cl_nodes _ _ _ CL) in H. tauto.
    + intros e H. unfold clear_with_descs in H. rewrite Hm in H.
      set (removed := descs_with st n) in *.
      destruct (fold_clear_trace_fields removed (rg_remove_with_referred (g_remove_nodes st removed) removed))
        as (_ & _ & _ & _ & _ & _ & A7 & _).
      rewrite A7 in H. unfold rg_remove_with_referred, rg_remove_items in H; simpl in H.
      apply filter_In in H. tauto.
  - unfold clear_with_descs. rewrite Hm. apply Shrinks_refl.
Qed.

Lemma clear_reader_Shrinks st i : Shrinks st (clear_reader st i).
Proof. unfold clear_reader. apply clear_with_descs_Shrinks. Qed.

Lemma Shrinks_fold {A} (f : state -> A -> state) l :
  (forall s a, Shrinks s (f s a)) -> forall st, Shrinks st (fold_left f l st).
Proof.
  intros Hf. induction l as [|a l IH]; intros st; simpl; [apply Shrinks_refl|].
  eapply Shrinks_trans; [apply Hf|apply IH].
Qed.

Lemma clear_value_at_Shrinks st i b : Shrinks st (clear_value_at st i b).
Proof.
  unfold clear_value_at. destruct (has_data st i); [|apply Shrinks_refl].
  destruct (b || negb (mem_item i (s_inputs st))); [apply clear_with_descs_Shrinks|apply Shrinks_refl].
Qed.
Lemma clear_all_values_Shrinks st c b : Shrinks st (clear_all_values st c b).
Proof. unfold clear_all_values. apply Shrinks_fold. intros; apply clear_value_at_Shrinks. Qed.
Lemma clear_obj_Shrinks st c : Shrinks st (clear_obj st c).
Proof. unfold clear_obj. apply Shrinks_fold. intros; apply clear_with_descs_Shrinks. Qed.
Lemma on_namespace_change_Shrinks st c : Shrinks st (on_namespace_change st c).
Proof.
  unfold on_namespace_change. destruct (lookup_cell (s_cells st) c) as [cl|]; [|apply Shrinks_refl].
  destruct (cl_cached cl); [apply clear_all_values_Shrinks|apply clear_obj_Shrinks].
Qed.

(** * After clear(), a cached cells holds inputs only *)
Lemma clear_value_at_false_gone st i :
  Quiet st -> has (clear_value_at st i false) i -> mem_item i (s_inputs st) = true.
Proof.
  intros ((_ & C & _) & _) H. unfold clear_value_at in H.
  destruct (has_data st i) eqn:Hd.
  - destruct (mem_item i (s_inputs st)) eqn:Hm; [reflexivity|]. simpl in H. exfalso.
    assert (Hn : mem_node (node_of i) (s_nodes st) = true).
    { apply mem_node_In. apply (cv_node _ C). unfold has, has_data in *.
      destruct (lookup_data (s_data st) i); [discriminate|discriminate Hd]. }
    unfold has in H. rewrite (cl_data _ _ _ (clear_with_descs_Cleared st (node_of i) Hn)) in H.
    assert (mem_node (node_of i) (descs_with st (node_of i)) = true) as E
        by (apply mem_node_In, descs_with_self). rewrite E in H. now apply H.
  - exfalso. unfold has, has_data in *. destruct (lookup_data (s_data st) i); [discriminate|now apply H].
Qed.

Lemma clear_all_false_inputs_only st c i :
  Quiet st -> fst i = c -> has (clear_all_values st c false) i ->
  mem_item i (s_inputs (clear_all_values st c false)) = true.
Proof.
  intros Q Hc. unfold clear_all_values.
  assert (Hsnap : has st i -> In i (keys_of st c)).
  { intros H. unfold keys_of. apply filter_In. split.
    - unfold has in H. clear - H. induction (s_data st) as [|[x w] d IH]; simpl in *; [now elim H|].
      destruct (item_eqb i x) eqn:E; [apply item_eqb_eq in E; subst; now left|right; now apply IH].
    - now apply Nat.eqb_eq. }
  revert Hsnap. generalize (keys_of st c). intros l. revert st Q.
  induction l as [|k l IH]; intros st Q Hsnap H; simpl in *.
  - exfalso. exact (Hsnap H).
  - set (st1 := clear_value_at st k false) in *.
    pose proof (clear_value_at_Shrinks st k false) as S1. fold st1 in S1.
    pose proof (Shrinks_fold (fun s i0 => clear_value_at s i0 false) l
                  (fun s a => clear_value_at_Shrinks s a false) st1) as S2.
    assert (H1 : has st1 i) by (apply (sh_has _ _ S2); exact H).
    destruct (item_eqb i k) eqn:Eik.
    + apply item_eqb_eq in Eik; subst k.
      pose proof (clear_value_at_false_gone st i Q H1) as Hin.
      rewrite (sh_inp _ _ S2 i H), (sh_inp _ _ S1 i H1). exact Hin.
    + apply item_eqb_neq in Eik.
      apply (IH st1 (Quiet_clear_value_at _ _ _ Q)); [|exact H].
      intros H1'. destruct (Hsnap (sh_has _ _ S1 i H1')) as [E|E]; [congruence|exact E].
Qed.

(** * set_ref on lists *)
Lemma lookup_set_ref l r x r' :
  lookup_ref l r <> None ->
  lookup_ref (set_ref l r x) r' = if Nat.eqb r' r then Some x else lookup_ref l r'.
Proof.
  intros Hs. unfold set_ref. destruct (lookup_ref l r) eqn:E; [|congruence]. clear Hs.
  revert E. induction l as [|[d y] l IH]; simpl; intros E; [discriminate|].
  destruct (Nat.eqb r d) eqn:Erd; simpl.
  - apply Nat.eqb_eq in Erd; subst d. destruct (Nat.eqb r' r) eqn:Er'; [reflexivity|].
    clear IH E. induction l as [|[d2 y2] l IH2]; simpl; [reflexivity|].
    destruct (Nat.eqb r d2) eqn:E2; simpl.
    + apply Nat.eqb_eq in E2; subst d2. rewrite Er'. exact IH2.
    + destruct (Nat.eqb r' d2); [reflexivity|exact IH2].
  - destruct (Nat.eqb r' d) eqn:Er'd.
    + apply Nat.eqb_eq in Er'd; subst d. rewrite Nat.eqb_sym in Erd. now rewrite Erd.
    + now apply IH.
Qed.
