(** K4, part 3: evaluation preserves the coverage invariant ([Good]) and
    records every direct read of the specification evaluation in the graphs. *)
From Coq Require Import List ZArith Bool Arith Lia.
From MX Require Import Exec.Model Exec.Spec Exec.Basics Exec.SpecMono Exec.Sim Exec.Reads Exec.Cover Exec.Cover2.
Import ListNotations.

Definition Ctx (st : state) (me : cid) (d : nat) : Prop :=
  exists key rest, s_stack st = (me, key) :: rest /\ d = List.length rest.

Definition is_val {A} (r : res A) : bool := match r with Val _ => true | _ => false end.

Definition Post (st st' : state) (isval : bool) (cov : Prop) : Prop :=
  s_reent st' = true \/
  (Good st' /\ (isval = true -> Grow st st' /\ incl (s_refstack st) (s_refstack st') /\ cov)).

Definition sim2_expr (f : nat) : Prop :=
  forall st args locs line e r st' me d,
    eval_expr f st args locs line e = (r, st') -> r <> OutOfFuel ->
    Good st -> defs_ok (s_cells st) -> s_reent st = false -> Ctx st me d ->
    Post st st' (is_val r)
      (forall g r' ds, dr_expr g (defs_of st) (input_data st) me args locs e = (r', ds) -> r' <> OutOfFuel ->
                       Forall (cov_pending st' (nearest_cached st (s_stack st)) me d) ds).
Definition sim2_args (f : nat) : Prop :=
  forall st args locs line es r st' me d,
    eval_args f st args locs line es = (r, st') -> r <> OutOfFuel ->
    Good st -> defs_ok (s_cells st) -> s_reent st = false -> Ctx st me d ->
    Post st st' (is_val r)
      (forall g r' ds, dr_args g (defs_of st) (input_data st) me args locs es = (r', ds) -> r' <> OutOfFuel ->
                       Forall (cov_pending st' (nearest_cached st (s_stack st)) me d) ds).
Definition sim2_node (f : nat) : Prop :=
  forall st line i r st' me d,
    eval_node f st line i = (r, st') -> r <> OutOfFuel ->
    Good st -> defs_ok (s_cells st) -> s_reent st = false -> d = List.length (s_stack st) - 1 ->
    Post st st' (is_val r)
      (forall g r' ds, dr_node g (defs_of st) (input_data st) i = (r', ds) -> r' <> OutOfFuel ->
                       Forall (cov_pending st' (nearest_cached st (s_stack st)) me d) ds).
Definition sim2_formula (f : nat) : Prop :=
  forall st cl i r st' me d,
    eval_formula f st cl i = (r, st') -> r <> OutOfFuel ->
    Good st -> defs_ok (s_cells st) -> s_reent st = false -> d = List.length (s_stack st) - 1 ->
    lookup_cell (s_cells st) (fst i) = Some cl ->
    (if cl_cached cl then lookup_data (s_data st) i else None) = None ->
    Post st st' (is_val r)
      (forall g r' ds, dr_node g (defs_of st) (input_data st) i = (r', ds) -> r' <> OutOfFuel ->
                       Forall (cov_pending st' (nearest_cached st (s_stack st)) me d) ds).
Definition sim2_body (f : nat) : Prop :=
  forall st args locs whole rest idx r st' ln me d,
    exec_body f st args locs whole rest idx = (r, st', ln) -> r <> OutOfFuel ->
    Good st -> defs_ok (s_cells st) -> s_reent st = false -> Ctx st me d ->
    body_ok rest = true ->
    Post st st' (is_val r)
      (forall g r' ds, dr_body g (defs_of st) (input_data st) me args locs rest = (r', ds) -> r' <> OutOfFuel ->
                       Forall (cov_pending st' (nearest_cached st (s_stack st)) me d) ds).

(** * Helpers *)
Lemma cov_pending_grow st st' nc me d x :
  Grow st st' -> incl (s_refstack st) (s_refstack st') ->
  cov_pending st nc me d x -> cov_pending st' nc me d x.
Proof.
  intros (A1 & A2 & A3 & A4) R. unfold cov_pending. destruct nc as [j|]; [|auto].
  destruct x as [m|c|r|c r]; simpl.
  - intros (E & H). split; [now apply A1|now apply A4].
  - intros E. now apply A1.
  - intros [E|E]; [left; now apply A3|right; now apply R].
  - intros [E|E]; [now left|right; now apply A1].
Qed.

Lemma Forall_cov_grow st st' nc me d ds :
  Grow st st' -> incl (s_refstack st) (s_refstack st') ->
  Forall (cov_pending st nc me d) ds -> Forall (cov_pending st' nc me d) ds.
Proof. intros G R H. eapply Forall_impl; [|exact H]. intros x. now apply cov_pending_grow. Qed.

Lemma Ctx_frame st st' me d : frame st st' -> Ctx st me d -> Ctx st' me d.
Proof. intros (_ & K & _) (key & rest & E & D). exists key, rest. split; [congruence|assumption]. Qed.

Lemma Ctx_depth st me d : Ctx st me d -> d = List.length (s_stack st) - 1.
Proof. intros (key & rest & E & D). rewrite E, D. simpl. now rewrite Nat.sub_0_r. Qed.

Lemma nc_frame st st' : frame st st' ->
  nearest_cached st' (s_stack st') = nearest_cached st (s_stack st).
Proof.
  intros (S & K & _). rewrite K. apply nearest_cached_cells. now apply static_cells.
Qed.

Lemma defs_ok_frame st st' : frame st st' -> defs_ok (s_cells st) -> defs_ok (s_cells st').
Proof. intros (S & _) H. now rewrite (static_cells _ _ S). Qed.

Lemma sp_expr_det g1 g2 D inp args locs e r1 r2 :
  sp_expr g1 D inp args locs e = r1 -> r1 <> OutOfFuel ->
  sp_expr g2 D inp args locs e = r2 -> r2 <> OutOfFuel -> r1 = r2.
Proof.
  intros H1 N1 H2 N2.
  pose proof (sp_expr_mono _ (Nat.max g1 g2) _ _ _ _ _ _ H1 N1 ltac:(lia)) as A.
  pose proof (sp_expr_mono _ (Nat.max g1 g2) _ _ _ _ _ _ H2 N2 ltac:(lia)) as B. congruence.
Qed.
Lemma sp_args_det g1 g2 D inp args locs es r1 r2 :
  sp_args g1 D inp args locs es = r1 -> r1 <> OutOfFuel ->
  sp_args g2 D inp args locs es = r2 -> r2 <> OutOfFuel -> r1 = r2.
Proof.
  intros H1 N1 H2 N2.
  pose proof (sp_args_mono _ (Nat.max g1 g2) _ _ _ _ _ _ H1 N1 ltac:(lia)) as A.
  pose proof (sp_args_mono _ (Nat.max g1 g2) _ _ _ _ _ _ H2 N2 ltac:(lia)) as B. congruence.
Qed.

Lemma dr_expr_fst g D inp me args locs e r ds :
  dr_expr g D inp me args locs e = (r, ds) -> sp_expr g D inp args locs e = r.
Proof. intros H. rewrite <- (proj1 (dr_fst_all g) D inp me args locs e). now rewrite H. Qed.
Lemma dr_args_fst g D inp me args locs es r ds :
  dr_args g D inp me args locs es = (r, ds) -> sp_args g D inp args locs es = r.
Proof. intros H. rewrite <- (proj1 (proj2 (dr_fst_all g)) D inp me args locs es). now rewrite H. Qed.
Lemma dr_body_fst g D inp me args locs rest r ds :
  dr_body g D inp me args locs rest = (r, ds) -> sp_body g D inp args locs rest = r.
Proof. intros H. rewrite <- (proj2 (proj2 (proj2 (dr_fst_all g))) D inp me args locs rest). now rewrite H. Qed.

(** chaining: a later evaluation from a state whose flag is up keeps it up *)
Ltac flag_up IH :=
  left; eapply IH; eauto.

Lemma Post_weaken st st' b (P Q : Prop) : (P -> Q) -> Post st st' b P -> Post st st' b Q.
Proof. intros PQ [H|(G & H)]; [now left|right]. split; [exact G|]. intros Hb. destruct (H Hb) as (A & B & C). auto. Qed.

Lemma rs_ok_app_same n new rs :
  rs_ok (S n) rs -> Forall (fun p : nat * rid => fst p = n) new -> rs_ok (S n) (new ++ rs).
Proof.
  intros R H. induction new as [|[dn rn] new IH]; simpl; [exact R|].
  apply Forall_cons_iff in H as (Hd & Ht). simpl in Hd. subst dn. split; [lia|]. now apply IH.
Qed.

Lemma Post_false st0 st st' (P Q : Prop) : Post st0 st' false P -> Post st st' false Q.
Proof. intros [H|(G & H)]; [now left|right]. split; [exact G|]. intros Hb; discriminate. Qed.

(** * The main induction *)
Lemma sim2_all : forall f, sim2_expr f /\ sim2_args f /\ sim2_node f /\ sim2_formula f /\ sim2_body f.
Proof.
  induction f as [|f (IHe & IHa & IHn & IHf & IHb)].
  { split; [|split; [|split; [|split]]];
      unfold sim2_expr, sim2_args, sim2_node, sim2_formula, sim2_body; intros;
      match goal with H : _ = (_, _) |- _ => simpl in H; inversion H; subst; congruence end. }
  assert (SE := proj1 (sim_all f)).
  assert (SA := proj1 (proj2 (sim_all f))).
  assert (SN := proj1 (proj2 (proj2 (sim_all f)))).
  assert (SF := proj1 (proj2 (proj2 (proj2 (sim_all f))))).
  assert (SB := proj2 (proj2 (proj2 (proj2 (sim_all f))))).
  assert (ME := proj1 (reent_mono_all f)).
  assert (MA := proj1 (proj2 (reent_mono_all f))).
  assert (MN := proj1 (proj2 (proj2 (reent_mono_all f)))).
  assert (MF := proj1 (proj2 (proj2 (proj2 (reent_mono_all f))))).
  assert (MB := proj2 (proj2 (proj2 (proj2 (reent_mono_all f))))).
  split; [|split; [|split; [|split]]].
  - (* ---------------- expressions ---------------- *)
    intros st args locs line e r st' me d H Hr HG Hok Hre HC.
    destruct e; simpl in H.
    + (* EConst *) inversion H; subst. right. split; [exact HG|]. intros _.
      split; [apply Grow_refl|]. split; [apply incl_refl|].
      intros g r' ds Hd _. destruct g; simpl in Hd; inversion Hd; constructor.
    + inversion H; subst. right. split; [exact HG|]. intros _.
      split; [apply Grow_refl|]. split; [apply incl_refl|].
      intros g r' ds Hd _. destruct g; simpl in Hd; inversion Hd; constructor.
    + inversion H; subst. right. split; [exact HG|]. intros _.
      split; [apply Grow_refl|]. split; [apply incl_refl|].
      intros g r' ds Hd _. destruct g; simpl in Hd; inversion Hd; constructor.
    + (* EBin *)
      destruct (eval_expr f st args locs line e1) as [r1 st1] eqn:E1.
      assert (Hr1 : r1 <> OutOfFuel) by (intros ->; inversion H; subst; congruence).
      destruct (SE _ _ _ _ _ _ _ E1 Hr1 (proj1 HG)) as (I1 & F1 & A1).
      pose proof (IHe _ _ _ _ _ _ _ me d E1 Hr1 HG Hok Hre HC) as P1.
      destruct r1 as [va|k|]; [|inversion H; subst; exact (Post_false _ _ _ _ _ P1)|congruence].
      destruct (eval_expr f st1 args locs line e2) as [r2 st2] eqn:E2.
      assert (Hr2 : r2 <> OutOfFuel) by (intros ->; inversion H; subst; congruence).
      assert (Hst : st' = st2) by (destruct r2; inversion H; reflexivity). subst st2.
      destruct (s_reent st1) eqn:R1; [left; eapply ME; eauto|].
      destruct P1 as [P1|(G1 & P1)]; [congruence|].
      destruct (P1 eq_refl) as (W1 & S1 & C1).
      pose proof (IHe _ _ _ _ _ _ _ me d E2 Hr2 G1 (defs_ok_frame _ _ F1 Hok) R1 (Ctx_frame _ _ _ _ F1 HC)) as P2.
      destruct P2 as [P2|(G2 & P2)]; [now left|right]. split; [exact G2|].
      intros Hv. assert (Hv2 : is_val r2 = true).
      { destruct r2; [reflexivity|inversion H; subst; discriminate|congruence]. }
      destruct (P2 Hv2) as (W2 & S2 & C2).
      split; [eapply Grow_trans; eauto|]. split; [eapply incl_tran; eauto|].
      destruct (frame_defs _ _ F1) as (D1 & Q1). rewrite D1, Q1, (nc_frame _ _ F1) in C2.
      intros g r' ds Hd Hr'. destruct g; [simpl in Hd; inversion Hd; congruence|]. simpl in Hd.
      destruct (dr_expr g (defs_of st) (input_data st) me args locs e1) as [ra d1] eqn:Da.
      assert (Hra : ra <> OutOfFuel) by (intros ->; inversion Hd; congruence).
      pose proof (C1 _ _ _ Da Hra) as K1.
      pose proof (Forall_cov_grow _ _ _ _ _ _ W2 S2 K1) as K1'.
      destruct ra as [va'|k'|]; [|inversion Hd; subst; exact K1'|congruence].
      destruct (dr_expr g (defs_of st) (input_data st) me args locs e2) as [rb d2] eqn:Db.
      assert (Hrb : rb <> OutOfFuel) by (intros ->; inversion Hd; congruence).
      pose proof (C2 _ _ _ Db Hrb) as K2.
      assert (ds = d1 ++ d2) by (destruct rb; inversion Hd; reflexivity). subst ds.
      apply Forall_app. split; assumption.
    + (* EIfPos *)
      destruct (eval_expr f st args locs line e1) as [r1 st1] eqn:E1.
      assert (Hr1 : r1 <> OutOfFuel) by (intros ->; inversion H; subst; congruence).
      destruct (SE _ _ _ _ _ _ _ E1 Hr1 (proj1 HG)) as (I1 & F1 & A1).
      pose proof (IHe _ _ _ _ _ _ _ me d E1 Hr1 HG Hok Hre HC) as P1.
      destruct r1 as [[z|]|k|]; [| |inversion H; subst; exact (Post_false _ _ _ _ _ P1)|congruence].
      * assert (Hb : exists eb, eval_expr f st1 args locs line eb = (r, st') /\
                                eb = (if Z.ltb 0 z then e2 else e3)).
        { destruct (Z.ltb 0 z); eexists; split; eauto. }
        destruct Hb as (eb & E2 & Heb).
        destruct (s_reent st1) eqn:R1; [left; eapply ME; eauto|].
        destruct P1 as [P1|(G1 & P1)]; [congruence|].
        destruct (P1 eq_refl) as (W1 & S1 & C1).
        pose proof (IHe _ _ _ _ _ _ _ me d E2 Hr G1 (defs_ok_frame _ _ F1 Hok) R1 (Ctx_frame _ _ _ _ F1 HC)) as P2.
        destruct P2 as [P2|(G2 & P2)]; [now left|right]. split; [exact G2|].
        intros Hv. destruct (P2 Hv) as (W2 & S2 & C2).
        split; [eapply Grow_trans; eauto|]. split; [eapply incl_tran; eauto|].
        destruct (frame_defs _ _ F1) as (D1 & Q1). rewrite D1, Q1, (nc_frame _ _ F1) in C2.
        intros g r' ds Hd Hr'. destruct g; [simpl in Hd; inversion Hd; congruence|]. simpl in Hd.
        destruct (dr_expr g (defs_of st) (input_data st) me args locs e1) as [ra d1] eqn:Da.
        assert (Hra : ra <> OutOfFuel) by (intros ->; inversion Hd; congruence).
        pose proof (C1 _ _ _ Da Hra) as K1.
        pose proof (Forall_cov_grow _ _ _ _ _ _ W2 S2 K1) as K1'.
        (* the condition has the value the executor saw *)
        destruct A1 as (g1 & A1).
        pose proof (sp_expr_det _ _ _ _ _ _ _ _ _ A1 ltac:(discriminate) (dr_expr_fst _ _ _ _ _ _ _ _ _ Da) Hra) as Eq.
        subst ra.
        destruct (dr_expr g (defs_of st) (input_data st) me args locs eb) as [rb d2] eqn:Db.
        assert (Hd' : (rb, d1 ++ d2) = (r', ds)).
        { subst eb. destruct (Z.ltb 0 z); rewrite Db in Hd; exact Hd. }
        inversion Hd'; subst.
        apply Forall_app. split; [exact K1'|]. eapply C2; eauto.
      * inversion H; subst. destruct P1 as [P1|(G1 & P1)]; [now left|right].
        split; [exact G1|]. intros Hv. discriminate.
    + (* ECall *)
      destruct (eval_args f st args locs line args0) as [r1 st1] eqn:E1.
      assert (Hr1 : r1 <> OutOfFuel) by (intros ->; inversion H; subst; congruence).
      destruct (SA _ _ _ _ _ _ _ E1 Hr1 (proj1 HG)) as (I1 & F1 & A1).
      pose proof (IHa _ _ _ _ _ _ _ me d E1 Hr1 HG Hok Hre HC) as P1.
      destruct r1 as [vs|k|]; [|inversion H; subst; exact (Post_false _ _ _ _ _ P1)|congruence].
      assert (Hc : s_cells st1 = s_cells st) by (apply static_cells, F1). rewrite Hc in H.
      destruct (lookup_cell (s_cells st) c) as [cl|] eqn:El.
      2:{ inversion H; subst. destruct P1 as [P1|(G1 & P1)]; [now left|right].
          split; [exact G1|]. intros Hv; discriminate. }
      destruct (bind_pos cl vs) as [k|] eqn:Eb.
      2:{ inversion H; subst. destruct P1 as [P1|(G1 & P1)]; [now left|right].
          split; [exact G1|]. intros Hv; discriminate. }
      destruct (s_reent st1) eqn:R1; [left; eapply MN; eauto|].
      destruct P1 as [P1|(G1 & P1)]; [congruence|].
      destruct (P1 eq_refl) as (W1 & S1 & C1).
      pose proof (IHn _ _ _ _ _ me d H Hr G1 (defs_ok_frame _ _ F1 Hok) R1 (Ctx_depth _ _ _ (Ctx_frame _ _ _ _ F1 HC))) as P2.
      destruct P2 as [P2|(G2 & P2)]; [now left|right]. split; [exact G2|].
      intros Hv. destruct (P2 Hv) as (W2 & S2 & C2).
      split; [eapply Grow_trans; eauto|]. split; [eapply incl_tran; eauto|].
      destruct (frame_defs _ _ F1) as (D1 & Q1). rewrite D1, Q1, (nc_frame _ _ F1) in C2.
      intros g r' ds Hd Hr'. destruct g; [simpl in Hd; inversion Hd; congruence|]. simpl in Hd.
      destruct (dr_args g (defs_of st) (input_data st) me args locs args0) as [ra d1] eqn:Da.
      assert (Hra : ra <> OutOfFuel) by (intros ->; inversion Hd; congruence).
      pose proof (C1 _ _ _ Da Hra) as K1.
      pose proof (Forall_cov_grow _ _ _ _ _ _ W2 S2 K1) as K1'.
      destruct A1 as (g1 & A1).
      pose proof (sp_args_det _ _ _ _ _ _ _ _ _ A1 ltac:(discriminate) (dr_args_fst _ _ _ _ _ _ _ _ _ Da) Hra) as Eq.
      subst ra. unfold defs_of in Hd; simpl in Hd. rewrite El, Eb in Hd.
      destruct (dr_node g (s_cells st, s_refs st) (input_data st) (c, k)) as [rb d2] eqn:Db.
      inversion Hd; subst.
      apply Forall_app. split; [exact K1'|]. eapply C2; eauto.
    + (* ERefN *)
      inversion H; subst. right. split; [exact HG|]. intros _.
      split; [apply Grow_refl|]. split; [apply incl_refl|].
      intros g r' ds Hd _. destruct g; simpl in Hd; inversion Hd; [constructor|].
      constructor; [|constructor]. unfold cov_pending.
      destruct (nearest_cached st' (s_stack st')); [now left|exact I].
    + (* ERefA *)
      destruct HC as (key & rest & Es & Hd0).
      destruct (lookup_ref (s_refs st) r0) as [[sp v]|] eqn:El; inversion H; subst.
      * right. destruct HG as (HI & C & SO).
        set (st' := upd_refstack st ((List.length (s_stack st) - 1, r0) :: s_refstack st)).
        split.
        -- split; [exact HI|]. split; [|exact SO].
           constructor; try (apply C).
           simpl. rewrite Es. simpl. rewrite Nat.sub_0_r. split; [lia|].
           pose proof (cv_refs _ C) as R. rewrite Es in R. exact R.
        -- intros _. split; [repeat split; try apply incl_refl; auto|].
           split; [intros p Hp; now right|].
           intros g r' ds Hd _. destruct g; simpl in Hd; [inversion Hd; constructor|].
           unfold defs_of in Hd; simpl in Hd. rewrite El in Hd. inversion Hd; subst.
           constructor; [|constructor]. unfold cov_pending.
           destruct (nearest_cached st (s_stack st)); [|exact I].
           right. simpl. left. rewrite Es. simpl. now rewrite Nat.sub_0_r.
      * right. split; [exact HG|]. intros Hv; discriminate.
    + (* ERaise *)
      inversion H; subst. right. split; [exact HG|]. intros Hv; discriminate.
  - (* ---------------- argument lists ---------------- *)
    intros st args locs line es r st' me d H Hr HG Hok Hre HC.
    destruct es as [|e rest]; simpl in H.
    + inversion H; subst. right. split; [exact HG|]. intros _.
      split; [apply Grow_refl|]. split; [apply incl_refl|].
      intros g r' ds Hd _. destruct g; simpl in Hd; inversion Hd; constructor.
    + destruct (eval_expr f st args locs line e) as [r1 st1] eqn:E1.
      assert (Hr1 : r1 <> OutOfFuel) by (intros ->; inversion H; subst; congruence).
      destruct (SE _ _ _ _ _ _ _ E1 Hr1 (proj1 HG)) as (I1 & F1 & A1).
      pose proof (IHe _ _ _ _ _ _ _ me d E1 Hr1 HG Hok Hre HC) as P1.
      destruct r1 as [v|k|]; [|inversion H; subst; exact (Post_false _ _ _ _ _ P1)|congruence].
      destruct (eval_args f st1 args locs line rest) as [r2 st2] eqn:E2.
      assert (Hr2 : r2 <> OutOfFuel) by (intros ->; inversion H; subst; congruence).
      assert (Hst : st' = st2) by (destruct r2; inversion H; reflexivity). subst st2.
      destruct (s_reent st1) eqn:R1; [left; eapply MA; eauto|].
      destruct P1 as [P1|(G1 & P1)]; [congruence|].
      destruct (P1 eq_refl) as (W1 & S1 & C1).
      pose proof (IHa _ _ _ _ _ _ _ me d E2 Hr2 G1 (defs_ok_frame _ _ F1 Hok) R1 (Ctx_frame _ _ _ _ F1 HC)) as P2.
      destruct P2 as [P2|(G2 & P2)]; [now left|right]. split; [exact G2|].
      intros Hv. assert (Hv2 : is_val r2 = true).
      { destruct r2; [reflexivity|inversion H; subst; discriminate|congruence]. }
      destruct (P2 Hv2) as (W2 & S2 & C2).
      split; [eapply Grow_trans; eauto|]. split; [eapply incl_tran; eauto|].
      destruct (frame_defs _ _ F1) as (D1 & Q1). rewrite D1, Q1, (nc_frame _ _ F1) in C2.
      intros g r' ds Hd Hr'. destruct g; [simpl in Hd; inversion Hd; congruence|]. simpl in Hd.
      destruct (dr_expr g (defs_of st) (input_data st) me args locs e) as [ra d1] eqn:Da.
      assert (Hra : ra <> OutOfFuel) by (intros ->; inversion Hd; congruence).
      pose proof (C1 _ _ _ Da Hra) as K1.
      pose proof (Forall_cov_grow _ _ _ _ _ _ W2 S2 K1) as K1'.
      destruct ra as [va'|k'|]; [|inversion Hd; subst; exact K1'|congruence].
      destruct (dr_args g (defs_of st) (input_data st) me args locs rest) as [rb d2] eqn:Db.
      assert (Hrb : rb <> OutOfFuel) by (intros ->; inversion Hd; congruence).
      pose proof (C2 _ _ _ Db Hrb) as K2.
      assert (ds = d1 ++ d2) by (destruct rb; inversion Hd; reflexivity). subst ds.
      apply Forall_app. split; assumption.
  - (* ---------------- element requested from a formula ---------------- *)
    intros st line i r st' me d H Hr HG Hok Hre Hdd. simpl in H.
    destruct (lookup_cell (s_cells st) (fst i)) as [cl|] eqn:El.
    2:{ inversion H; subst. right. split; [exact HG|]. intros Hv; discriminate. }
    destruct (if cl_cached cl then lookup_data (s_data st) i else None) as [v|] eqn:Eh.
    + (* hit *)
      destruct (cl_cached cl) eqn:Ec; [|discriminate].
      assert (Hhas : has st i) by (unfold has; congruence).
      destruct HG as (HI & C & SO).
      destruct (nearest_cached st (s_stack st)) as [jc|] eqn:En; inversion H; subst.
      * right. pose proof (Cov_hit _ _ _ HI C SO Hhas En) as C'.
        split; [split; [exact HI|split; [exact C'|exact SO]]|].
        intros _.
        assert (G : Grow st (g_add_edge st (node_of i) (node_of jc))).
        { repeat split; try apply incl_refl; auto.
          - intros e He. apply g_add_edge_edges. now right.
          - intros n Hn. apply g_add_edge_nodes. auto. }
        split; [exact G|]. split; [apply incl_refl|].
        intros g r' ds Hd Hr'. destruct g; [simpl in Hd; inversion Hd; congruence|]. simpl in Hd.
        unfold defs_of in Hd; simpl in Hd. rewrite El, Ec in Hd.
        assert (ds = [RItem i]).
        { destruct (lookup_data (input_data st) i); [inversion Hd; reflexivity|].
          destruct (dr_body g (s_cells st, s_refs st) (input_data st) (fst i) (snd i) [] (cl_body cl)) as [[w|k|] dd];
            inversion Hd; reflexivity. }
        subst ds. constructor; [|constructor]. simpl. split.
        -- apply g_add_edge_edges. now left.
        -- exact Hhas.
      * right. split; [split; [exact HI|split; [exact C|exact SO]]|]. intros _.
        split; [apply Grow_refl|]. split; [apply incl_refl|].
        intros g r' ds Hd Hr'. eapply Forall_impl; [|apply Forall_forall; intros x _; exact I].
        intros x _. exact I.
    + eapply IHf; eauto.
  - (* ---------------- formula execution ---------------- *)
    intros st cl i r st' me d H Hr HG Hok Hre Hdd El Em. pose proof H as H0. simpl in H.
    destruct (Nat.ltb (s_maxdepth st) (List.length (s_stack st))).
    { inversion H; subst. right. split; [exact HG|]. intros Hv; discriminate. }
    set (st1 := upd_reent (upd_log (upd_stack st (i :: s_stack st)) (i :: s_log st))
                          (s_reent st || mem_item i (s_stack st))) in *.
    destruct (exec_body f st1 (snd i) [] (cl_body cl) (cl_body cl) 0) as [[rb st2] ln] eqn:Eb.
    assert (Hrb : rb <> OutOfFuel) by (intros ->; inversion H; subst; congruence).
    assert (Hflag2 : s_reent st2 = true -> s_reent st' = true).
    { intros F2. destruct rb as [v|k|]; [|inversion H; subst; now rewrite rollback_frame_reent|congruence].
      destruct (cl_cached cl).
      - unfold store_value in H.
        destruct v as [z|]; [|destruct (cl_allow_none cl)]; inversion H; subst;
          rewrite ?pop_frame_reent, ?rollback_frame_reent; exact F2.
      - destruct v as [z|]; [|destruct (cl_allow_none cl)]; inversion H; subst;
          rewrite ?pop_frame_reent, ?rollback_frame_reent; exact F2. }
    pose proof (Good_push st i cl HG El Em) as G1. fold st1 in G1.
    destruct (mem_item i (s_stack st)) eqn:Ein.
    { left. apply Hflag2. eapply MB; [exact Eb|]. unfold st1; simpl; try rewrite Ein; apply orb_true_r. }
    assert (R1 : s_reent st1 = false) by (unfold st1; simpl; rewrite Hre; try rewrite Ein; reflexivity).
    assert (Hnin : ~ In i (s_stack st)) by (intros Hc; apply mem_item_In in Hc; congruence).
    assert (HC1 : Ctx st1 (fst i) (List.length (s_stack st))).
    { exists (snd i), (s_stack st). split; [destruct i; reflexivity|reflexivity]. }
    assert (Hbok : body_ok (cl_body cl) = true) by (eapply Hok; eauto).
    pose proof (IHb _ _ _ _ _ _ _ _ _ (fst i) (List.length (s_stack st)) Eb Hrb G1 Hok R1 HC1 Hbok) as PB.
    destruct (s_reent st2) eqn:R2; [left; now apply Hflag2|].
    destruct PB as [PB|(G2 & PB)]; [congruence|].
    (* facts from the first simulation *)
    destruct (proj1 (proj2 (proj2 (proj2 (sim_all (S f))))) _ _ _ _ _ H0 Hr (proj1 HG) El Em) as (I' & F' & A').
    destruct (SB _ _ _ _ _ _ _ _ _ Eb Hrb (proj1 G1)) as (I2 & F2 & A2).
    destruct F2 as (S2 & K2 & M2 & Q2).
    change (static st1) with (static st) in S2. change (s_stack st1) with (i :: s_stack st) in K2.
    change (s_data st1) with (s_data st) in M2. change (input_data st1) with (input_data st) in Q2.
    change (defs_of st1) with (defs_of st) in A2. change (input_data st1) with (input_data st) in A2.
    assert (Hcells2 : s_cells st2 = s_cells st) by (now apply static_cells).
    assert (Hrsst : forall p, In p (s_refstack st) -> fst p <> List.length (s_stack st)).
    { intros p Hp. pose proof (rs_ok_bound _ _ _ (cv_refs _ (proj1 (proj2 HG))) Hp). lia. }
    assert (Hnc1 : nearest_cached st1 (s_stack st1) =
                   if cl_cached cl then Some i else nearest_cached st (s_stack st)).
    { change (s_stack st1) with (i :: s_stack st). simpl.
      change (is_cached st1 (fst i)) with (is_cached st (fst i)).
      unfold is_cached. rewrite El.
      destruct (cl_cached cl); [reflexivity|]. apply nearest_cached_cells. reflexivity. }
    assert (Rollback : forall ln0, Inv (rollback_frame st2 ln0) ->
              Post st (rollback_frame st2 ln0) false
                (forall g r' ds, dr_node g (defs_of st) (input_data st) i = (r', ds) -> r' <> OutOfFuel ->
                   Forall (cov_pending (rollback_frame st2 ln0) (nearest_cached st (s_stack st)) me d) ds)).
    { intros ln0 HI0. right. split; [eapply Good_rollback; eauto|]. intros Hv; discriminate. }
    destruct rb as [v|k|]; [|inversion H; subst; apply Rollback; exact I'|congruence].
    destruct (PB eq_refl) as (W2 & RS2 & CB).
    rewrite Hnc1 in CB. change (defs_of st1) with (defs_of st) in CB.
    change (input_data st1) with (input_data st) in CB.
    destruct A2 as (gb & A2).
    destruct (dr_body gb (defs_of st) (input_data st) (fst i) (snd i) [] (cl_body cl)) as [rbb dsb] eqn:Dbb.
    pose proof (dr_body_fst _ _ _ _ _ _ _ _ _ Dbb) as Hfst. rewrite A2 in Hfst. subst rbb.
    pose proof (CB _ _ _ Dbb ltac:(discriminate)) as CovB.
    destruct (cl_cached cl) eqn:Ec.
    + (* cached *)
      destruct (miss_not_input st cl i (proj1 HG) Ec ltac:(now rewrite Ec)) as (Hni & Hli).
      assert (Hcase : (v = VNone /\ cl_allow_none cl = false) \/
                      (store_value st2 cl i v = (Val v, upd_data st2 (set_data (s_data st2) i v)) /\
                       none_check cl v = Val v)).
      { unfold store_value, none_check. destruct v; [now right|].
        destruct (cl_allow_none cl); [now right|now left]. }
      destruct Hcase as [(-> & Ea)|(Hs & Hnc)].
      * unfold store_value in H. rewrite Ea in H. inversion H; subst. apply Rollback. exact I'.
      * rewrite Hs in H. inversion H; subst r st'. clear H.
        assert (Hc2 : is_cached st2 (fst i) = true).
        { unfold is_cached. rewrite Hcells2, El. exact Ec. }
        assert (Hnone2 : lookup_data (s_data st2) i = None).
        { destruct G2 as (_ & _ & SO2). apply SO2; [rewrite K2; now left|exact Hc2]. }
        assert (Hni2 : mem_item i (s_inputs st2) = false) by (now rewrite (static_inputs _ _ S2)).
        assert (Hown : dr_own gb (defs_of st2) (input_data st2) i = (Val v, dsb)).
        { unfold dr_own. rewrite (static_defs _ _ S2), Q2. unfold defs_of; simpl. rewrite El.
          unfold defs_of in Dbb; simpl in Dbb. rewrite Dbb. now rewrite Hnc. }
        destruct (Good_pop_cached st2 i (s_stack st) v gb dsb G2 K2 Hnin Hc2 Hnone2 Hni2 Hown CovB I')
          as (G' & W' & Hhas' & Hedge).
        right. split; [exact G'|]. intros _.
        split; [eapply Grow_trans; [exact W2|exact W']|].
        split.
        { intros p Hp. apply (pop_frame_refstack_keep _ i (s_stack st)); [exact K2| |now apply Hrsst].
          simpl. apply RS2. exact Hp. }
        intros g r' ds Hd Hr'. destruct g; [simpl in Hd; inversion Hd; congruence|]. simpl in Hd.
        unfold defs_of in Hd; simpl in Hd. rewrite El, Ec, Hli in Hd.
        assert (ds = [RItem i]).
        { destruct (dr_body g (s_cells st, s_refs st) (input_data st) (fst i) (snd i) [] (cl_body cl)) as [[w|k|] dd];
            inversion Hd; reflexivity. }
        subst ds. constructor; [|constructor]. unfold cov_pending.
        destruct (nearest_cached st (s_stack st)) as [jc|] eqn:En; [|exact I].
        simpl. split; [|exact Hhas'].
        apply Hedge. transitivity (nearest_cached st (s_stack st)); [|exact En].
        apply nearest_cached_cells. exact Hcells2.
    + (* uncached *)
      assert (Hcase : (v = VNone /\ cl_allow_none cl = false /\ (r, st') = (Err KNone, rollback_frame st2 0)) \/
                      (r, st') = (Val v, pop_frame st2)).
      { destruct v; [right; now rewrite <- H|].
        destruct (cl_allow_none cl); [right; now rewrite <- H|left; repeat split; now rewrite <- H]. }
      destruct Hcase as [(-> & Ea & H')|H']; inversion H'; subst r st'; clear H' H.
      { apply Rollback. exact I'. }
      assert (Hc2 : is_cached st2 (fst i) = false).
      { unfold is_cached. rewrite Hcells2, El. exact Ec. }
      destruct (Good_pop_uncached st2 i (s_stack st) G2 K2 Hc2 I') as (G' & W' & Hcall).
      right. split; [exact G'|]. intros _.
      split; [eapply Grow_trans; [exact W2|exact W']|].
      split.
      { intros p Hp. apply (pop_frame_refstack_keep _ i (s_stack st)); [exact K2| |now apply Hrsst].
        apply RS2. exact Hp. }
      intros g r' ds Hd Hr'. destruct g; [simpl in Hd; inversion Hd; congruence|]. simpl in Hd.
      unfold defs_of in Hd; simpl in Hd. rewrite El, Ec in Hd.
      destruct (dr_body g (s_cells st, s_refs st) (input_data st) (fst i) (snd i) [] (cl_body cl)) as [rg dg] eqn:Dg.
      assert (Hdg : ds = RObj (fst i) :: dg /\ rg <> OutOfFuel).
      { destruct rg; inversion Hd; subst; split; auto; try discriminate. }
      destruct Hdg as (-> & Hrg). clear Hd.
      (* the reads of the body are the ones covered above *)
      assert (dg = dsb).
      { pose proof (dr_body_det _ _ _ _ _ _ _ _ _ _ _ _ Dg Hrg Dbb ltac:(discriminate)) as (_ & E). exact E. }
      subst dg.
      assert (Hnc2 : nearest_cached st2 (s_stack st) = nearest_cached st (s_stack st))
        by (apply nearest_cached_cells; exact Hcells2).
      constructor.
      * unfold cov_pending. destruct (nearest_cached st (s_stack st)) as [jc|] eqn:En; [|exact I].
        simpl. apply (Hcall jc). now rewrite Hnc2.
      * eapply Forall_impl; [|exact CovB]. intros x Hx.
        apply (cov_pending_after_uncached st2 (pop_frame st2) (nearest_cached st (s_stack st)) i (s_stack st) me d x K2 Hdd).
        -- apply W'.
        -- apply W'.
        -- apply W'.
        -- intros jc r En Hr0. apply (Hcall jc); [now rewrite Hnc2|exact Hr0].
        -- intros jc En. apply (Hcall jc). now rewrite Hnc2.
        -- exact Hx.
  - (* ---------------- statements ---------------- *)
    intros st args locs whole rest idx r st' ln me d H Hr HG Hok Hre HC Hbok.
    destruct rest as [|s more]; simpl in H.
    + inversion H; subst. right. split; [exact HG|]. intros _.
      split; [apply Grow_refl|]. split; [apply incl_refl|].
      intros g r' ds Hd _. destruct g; simpl in Hd; inversion Hd; constructor.
    + simpl in Hbok. apply andb_true_iff in Hbok as (Hsok & Hmore).
      destruct s as [e|e h].
      * (* SAssign *)
        destruct (eval_expr f st args locs (stmt_line whole idx) e) as [r1 st1] eqn:E1.
        assert (Hr1 : r1 <> OutOfFuel) by (intros ->; inversion H; subst; congruence).
        destruct (SE _ _ _ _ _ _ _ E1 Hr1 (proj1 HG)) as (I1 & F1 & A1).
        pose proof (IHe _ _ _ _ _ _ _ me d E1 Hr1 HG Hok Hre HC) as P1.
        destruct r1 as [v|k|]; [|inversion H; subst; exact (Post_false _ _ _ _ _ P1)|congruence].
        destruct (s_reent st1) eqn:R1; [left; eapply MB; eauto|].
        destruct P1 as [P1|(G1 & P1)]; [congruence|].
        destruct (P1 eq_refl) as (W1 & S1 & C1).
        pose proof (IHb _ _ _ _ _ _ _ _ _ me d H Hr G1 (defs_ok_frame _ _ F1 Hok) R1 (Ctx_frame _ _ _ _ F1 HC) Hmore) as P2.
        destruct P2 as [P2|(G2 & P2)]; [now left|right]. split; [exact G2|].
        intros Hv. destruct (P2 Hv) as (W2 & S2 & C2).
        split; [eapply Grow_trans; eauto|]. split; [eapply incl_tran; eauto|].
        destruct (frame_defs _ _ F1) as (D1 & Q1). rewrite D1, Q1, (nc_frame _ _ F1) in C2.
        intros g r' ds Hd Hr'. destruct g; [simpl in Hd; inversion Hd; congruence|]. simpl in Hd.
        destruct (dr_expr g (defs_of st) (input_data st) me args locs e) as [ra d1] eqn:Da.
        assert (Hra : ra <> OutOfFuel) by (intros ->; inversion Hd; congruence).
        pose proof (C1 _ _ _ Da Hra) as K1.
        pose proof (Forall_cov_grow _ _ _ _ _ _ W2 S2 K1) as K1'.
        destruct A1 as (g1 & A1).
        pose proof (sp_expr_det _ _ _ _ _ _ _ _ _ A1 ltac:(discriminate) (dr_expr_fst _ _ _ _ _ _ _ _ _ Da) Hra) as Eq.
        subst ra.
        destruct (dr_body g (defs_of st) (input_data st) me args (locs ++ [v]) more) as [rb d2] eqn:Db.
        inversion Hd; subst.
        apply Forall_app. split; [exact K1'|]. eapply C2; eauto.
      * (* STry: the tried expression makes no call *)
        simpl in Hsok.
        destruct (eval_expr f st args locs (stmt_line whole idx + 1) e) as [r1 st1] eqn:E1.
        assert (Hr1 : r1 <> OutOfFuel) by (intros ->; inversion H; subst; congruence).
        destruct (SE _ _ _ _ _ _ _ E1 Hr1 (proj1 HG)) as (I1 & F1 & A1).
        destruct (callfree_eval _ _ _ _ _ _ _ _ me Hsok E1) as ((new & Hst1 & Hnew) & CF).
        destruct HC as (key & restk & Es & Hd0).
        assert (Hdm : List.length (s_stack st) - 1 = d).
        { rewrite Es, Hd0. simpl. apply Nat.sub_0_r. }
        rewrite Hdm in *.
        (* state after the tried expression: only the reference stack grew, by entries of this frame *)
        assert (G1 : Good st1).
        { destruct HG as (HI & C & SO). subst st1. split; [exact HI|]. split; [|exact SO].
          constructor; try (apply C). simpl.
          pose proof (cv_refs _ C) as R. rewrite Es in R |- *. simpl in R |- *.
          assert (Hnew' := Hnew). rewrite Hd0 in Hnew'. now apply rs_ok_app_same. }
        assert (W1 : Grow st st1) by (subst st1; repeat split; try apply incl_refl; auto).
        assert (S1 : incl (s_refstack st) (s_refstack st1)).
        { subst st1. simpl. intros p Hp. apply in_or_app. now right. }
        assert (R1 : s_reent st1 = false) by (subst st1; exact Hre).
        assert (HC1 : Ctx st1 me d).
        { exists key, restk. subst st1. split; [exact Es|exact Hd0]. }
        assert (Hok1 : defs_ok (s_cells st1)) by (subst st1; exact Hok).
        assert (Hnc1 : nearest_cached st1 (s_stack st1) = nearest_cached st (s_stack st)).
        { subst st1. simpl. apply nearest_cached_cells. reflexivity. }
        assert (Hdf1 : defs_of st1 = defs_of st /\ input_data st1 = input_data st).
        { subst st1. split; reflexivity. }
        destruct Hdf1 as (D1 & Q1).
        (* reads of the tried expression, at any fuel *)
        assert (C1 : forall g ra d1, dr_expr g (defs_of st) (input_data st) me args locs e = (ra, d1) ->
                       ra <> OutOfFuel ->
                       Forall (cov_pending st1 (nearest_cached st (s_stack st)) me d) d1).
        { intros g ra d1 Da Hra.
          destruct (CF (defs_of st) (input_data st) eq_refl) as (Cr & Cd).
          destruct (dr_expr f (defs_of st) (input_data st) me args locs e) as [rf df] eqn:Df.
          simpl in Cr, Cd. subst rf.
          destruct (dr_expr_det _ _ _ _ _ _ _ _ _ _ _ _ Df Hr1 Da Hra) as (_ & <-).
          eapply Forall_impl; [|exact Cd]. intros x Hx. unfold cov_pending.
          destruct (nearest_cached st (s_stack st)); [|exact I].
          destruct Hx as [(rr & ->)|(rr & -> & Hin)]; [now left|now right]. }
        destruct r1 as [v|k|]; [| |congruence].
        -- pose proof (IHb _ _ _ _ _ _ _ _ _ me d H Hr G1 Hok1 R1 HC1 Hmore) as P2.
           destruct P2 as [P2|(G2 & P2)]; [now left|right]. split; [exact G2|].
           intros Hv. destruct (P2 Hv) as (W2 & S2 & C2).
           split; [eapply Grow_trans; eauto|]. split; [eapply incl_tran; eauto|].
           rewrite D1, Q1, Hnc1 in C2.
           intros g r' ds Hd Hr'. destruct g; [simpl in Hd; inversion Hd; congruence|]. simpl in Hd.
           destruct (dr_expr g (defs_of st) (input_data st) me args locs e) as [ra d1] eqn:Da.
           assert (Hra : ra <> OutOfFuel) by (intros ->; inversion Hd; congruence).
           pose proof (Forall_cov_grow _ _ _ _ _ _ W2 S2 (C1 _ _ _ Da Hra)) as K1'.
           destruct A1 as (g1 & A1).
           pose proof (sp_expr_det _ _ _ _ _ _ _ _ _ A1 ltac:(discriminate) (dr_expr_fst _ _ _ _ _ _ _ _ _ Da) Hra) as Eq.
           subst ra.
           destruct (dr_body g (defs_of st) (input_data st) me args (locs ++ [v]) more) as [rb d2] eqn:Db.
           inversion Hd; subst.
           apply Forall_app. split; [exact K1'|]. eapply C2; eauto.
        -- destruct (catchable k) eqn:Ek.
           2:{ inversion H; subst. right. split; [exact G1|]. intros Hv; discriminate. }
           set (st1' := upd_rolled st1 []) in *.
           assert (G1' : Good st1').
           { destruct G1 as (HI1 & C1' & SO1). split; [exact HI1|]. split; [|exact SO1].
             constructor; apply C1'. }
           destruct (eval_expr f st1' args locs (stmt_line whole idx + 3) h) as [r2 st2] eqn:E2.
           assert (Hr2 : r2 <> OutOfFuel) by (intros ->; inversion H; subst; congruence).
           destruct (SE _ _ _ _ _ _ _ E2 Hr2 (proj1 G1')) as (I2 & F2 & A2).
           pose proof (IHe _ _ _ _ _ _ _ me d E2 Hr2 G1' Hok1 R1 HC1) as P2.
           destruct r2 as [v|k2|]; [|inversion H; subst; exact (Post_false _ _ _ _ _ P2)|congruence].
           destruct (s_reent st2) eqn:R2; [left; eapply MB; eauto|].
           destruct P2 as [P2|(G2 & P2)]; [congruence|].
           destruct (P2 eq_refl) as (W2 & S2 & C2).
           assert (F12 : frame st1' st2) by exact F2.
           pose proof (IHb _ _ _ _ _ _ _ _ _ me d H Hr G2 (defs_ok_frame _ _ F12 Hok1) R2 (Ctx_frame _ _ _ _ F12 HC1) Hmore) as P3.
           destruct P3 as [P3|(G3 & P3)]; [now left|right]. split; [exact G3|].
           intros Hv. destruct (P3 Hv) as (W3 & S3 & C3).
           split; [eapply Grow_trans; [exact W1|eapply Grow_trans; [exact W2|exact W3]]|].
           split; [eapply incl_tran; [exact S1|eapply incl_tran; [exact S2|exact S3]]|].
           assert (DQ2 : defs_of st2 = defs_of st /\ input_data st2 = input_data st).
           { destruct (frame_defs _ _ F12) as (a & b). split; [rewrite a; exact D1|rewrite b; exact Q1]. }
           destruct DQ2 as (D2 & Q2).
           assert (Hnc2 : nearest_cached st2 (s_stack st2) = nearest_cached st (s_stack st)).
           { rewrite (nc_frame _ _ F12). transitivity (nearest_cached st1 (s_stack st1)); [|exact Hnc1].
             change (s_stack st1') with (s_stack st1). apply nearest_cached_cells. reflexivity. }
           rewrite D2, Q2, Hnc2 in C3.
           assert (C2' : forall g r' ds, dr_expr g (defs_of st) (input_data st) me args locs h = (r', ds) ->
                           r' <> OutOfFuel ->
                           Forall (cov_pending st2 (nearest_cached st (s_stack st)) me d) ds).
           { intros g r' ds Hd' Hr''. rewrite <- Hnc1. rewrite <- D1, <- Q1 in Hd'.
             assert (E' : nearest_cached st1' (s_stack st1') = nearest_cached st1 (s_stack st1)).
             { change (s_stack st1') with (s_stack st1). apply nearest_cached_cells. reflexivity. }
             rewrite <- E'. exact (C2 _ _ _ Hd' Hr''). }
           intros g r' ds Hd Hr'. destruct g; [simpl in Hd; inversion Hd; congruence|]. simpl in Hd.
           destruct (dr_expr g (defs_of st) (input_data st) me args locs e) as [ra d1] eqn:Da.
           assert (Hra : ra <> OutOfFuel) by (intros ->; inversion Hd; congruence).
           assert (K1' : Forall (cov_pending st' (nearest_cached st (s_stack st)) me d) d1).
           { eapply Forall_cov_grow; [exact W3|exact S3|].
             eapply Forall_cov_grow; [exact W2|exact S2|]. exact (C1 _ _ _ Da Hra). }
           assert (A1' : exists g1, sp_expr g1 (defs_of st) (input_data st) args locs e = Err k).
           { destruct A1 as [->|A1]; [discriminate|exact A1]. }
           destruct A1' as (g1 & A1').
           pose proof (sp_expr_det _ _ _ _ _ _ _ _ _ A1' ltac:(discriminate) (dr_expr_fst _ _ _ _ _ _ _ _ _ Da) Hra) as Eq.
           subst ra. rewrite Ek in Hd.
           destruct (dr_expr g (defs_of st) (input_data st) me args locs h) as [rh d2] eqn:Dh.
           assert (Hrh : rh <> OutOfFuel) by (intros ->; inversion Hd; congruence).
           assert (K2' : Forall (cov_pending st' (nearest_cached st (s_stack st)) me d) d2).
           { eapply Forall_cov_grow; [exact W3|exact S3|]. eapply C2'; eauto. }
           destruct A2 as (g2 & A2).
           change (defs_of st1') with (defs_of st1) in A2. change (input_data st1') with (input_data st1) in A2.
           rewrite D1, Q1 in A2.
           pose proof (sp_expr_det _ _ _ _ _ _ _ _ _ A2 ltac:(discriminate) (dr_expr_fst _ _ _ _ _ _ _ _ _ Dh) Hrh) as Eq2.
           subst rh.
           destruct (dr_body g (defs_of st) (input_data st) me args (locs ++ [v]) more) as [rb d3] eqn:Db.
           inversion Hd; subst.
           apply Forall_app. split; [exact K1'|]. apply Forall_app. split; [exact K2'|]. eapply C3; eauto.
Qed.
