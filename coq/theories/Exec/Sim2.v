(** K4, part 3: evaluation preserves the coverage invariant ([Good]) and
    records every direct read of the specification evaluation in the graphs —
    for every formula under which no failure occurred ([top_clean]); a formula
    that ran over a failure (it may have handled it) is tainted and its value
    is not kept, so nothing has to be recorded for it. *)
From Coq Require Import List ZArith Bool Arith Lia.
From MX Require Import Exec.Model Exec.Spec Exec.Basics Exec.SpecMono Exec.Masks Exec.Sim Exec.Reads Exec.Cover Exec.Cover2.
Import ListNotations.

Definition Ctx (st : state) (me : cid) (d : nat) : Prop :=
  exists key rest, s_stack st = (me, key) :: rest /\ d = List.length rest.

(** no failure has occurred under the formula on top of the stack *)
Definition top_clean (st : state) : Prop := s_taint st < List.length (s_stack st).

Definition Post (st st' : state) (ok : Prop) (cov : Prop) : Prop :=
  s_reent st' = true \/
  (Good st' /\ s_taint st <= s_taint st' /\
   (ok -> top_clean st' -> Grow st st' /\ incl (s_refstack st) (s_refstack st') /\ cov)).

Definition not_deep {A} (r : res A) : Prop := r <> Err KDeep.

Definition sim2_expr (f : nat) : Prop :=
  forall st args locs line e r st' me d,
    eval_expr f st args locs line e = (r, st') -> r <> OutOfFuel ->
    Good st -> s_reent st = false -> Ctx st me d ->
    Post st st' (not_deep r)
      (forall g r' ds, dr_expr g (defs_of st) (input_data st) me args locs e = (r', ds) -> r' <> OutOfFuel ->
                       Forall (cov_pending st' (nearest_cached st (s_stack st)) me d) ds).
Definition sim2_args (f : nat) : Prop :=
  forall st args locs line es r st' me d,
    eval_args f st args locs line es = (r, st') -> r <> OutOfFuel ->
    Good st -> s_reent st = false -> Ctx st me d ->
    Post st st' (not_deep r)
      (forall g r' ds, dr_args g (defs_of st) (input_data st) me args locs es = (r', ds) -> r' <> OutOfFuel ->
                       Forall (cov_pending st' (nearest_cached st (s_stack st)) me d) ds).
Definition sim2_node (f : nat) : Prop :=
  forall st line i r st' me d,
    eval_node f st line i = (r, st') -> r <> OutOfFuel ->
    Good st -> s_reent st = false -> d = List.length (s_stack st) - 1 ->
    Post st st' (not_deep r)
      (forall g r' ds, dr_node g (defs_of st) (input_data st) i = (r', ds) -> r' <> OutOfFuel ->
                       Forall (cov_pending st' (nearest_cached st (s_stack st)) me d) ds).
Definition sim2_formula (f : nat) : Prop :=
  forall st cl i r st' me d,
    eval_formula f st cl i = (r, st') -> r <> OutOfFuel ->
    Good st -> s_reent st = false -> d = List.length (s_stack st) - 1 ->
    lookup_cell (s_cells st) (fst i) = Some cl ->
    (if cl_cached cl then lookup_data (s_data st) i else None) = None ->
    Post st st' (not_deep r)
      (forall g r' ds, dr_node g (defs_of st) (input_data st) i = (r', ds) -> r' <> OutOfFuel ->
                       Forall (cov_pending st' (nearest_cached st (s_stack st)) me d) ds).
Definition sim2_body (f : nat) : Prop :=
  forall st args locs whole rest idx r st' ln me d,
    exec_body f st args locs whole rest idx = (r, st', ln) -> r <> OutOfFuel ->
    Good st -> s_reent st = false -> Ctx st me d ->
    Post st st' (exists v, r = Val v)
      (forall g r' ds, dr_body g (defs_of st) (input_data st) me args locs rest = (r', ds) -> r' <> OutOfFuel ->
                       Forall (cov_pending st' (nearest_cached st (s_stack st)) me d) ds).

(** * Helpers *)
Lemma cov_pending_grow st st' nc me d x :
  Grow st st' -> incl (s_refstack st) (s_refstack st') ->
  cov_pending st nc me d x -> cov_pending st' nc me d x.
Proof.
  intros (A1 & A2 & A3 & A4) R. unfold cov_pending. destruct nc as [j|]; [|auto].
  destruct x as [m|c|r|c r|]; simpl.
  - intros (E & H). split; [now apply A1|now apply A4].
  - intros E. now apply A1.
  - intros [E|E]; [left; now apply A3|right; now apply R].
  - intros [E|E]; [now left|right; now apply A1].
  - intros [].
Qed.

Lemma Forall_cov_grow st st' nc me d ds :
  Grow st st' -> incl (s_refstack st) (s_refstack st') ->
  Forall (cov_pending st nc me d) ds -> Forall (cov_pending st' nc me d) ds.
Proof. intros G R H. eapply Forall_impl; [|exact H]. intros x. now apply cov_pending_grow. Qed.

Lemma Ctx_frame st st' me d : frame st st' -> Ctx st me d -> Ctx st' me d.
Proof. intros (_ & K & _) (key & rest & E & D). exists key, rest. split; [congruence|assumption]. Qed.

Lemma Ctx_depth st me d : Ctx st me d -> d = List.length (s_stack st) - 1.
Proof. intros (key & rest & E & D). rewrite E, D. simpl. now rewrite Nat.sub_0_r. Qed.

Lemma nc_frame st st' : frame st st' ->
  nearest_cached st' (s_stack st') = nearest_cached st (s_stack st).
Proof.
  intros (S & K & _). rewrite K. apply nearest_cached_cells. now apply static_cells.
Qed.

Lemma sp_expr_det g1 g2 D inp args locs e r1 r2 :
  sp_expr g1 D inp args locs e = r1 -> r1 <> OutOfFuel ->
  sp_expr g2 D inp args locs e = r2 -> r2 <> OutOfFuel -> r1 = r2.
Proof.
  intros H1 N1 H2 N2.
  pose proof (sp_expr_mono _ (Nat.max g1 g2) _ _ _ _ _ _ H1 N1 ltac:(lia)) as A.
  pose proof (sp_expr_mono _ (Nat.max g1 g2) _ _ _ _ _ _ H2 N2 ltac:(lia)) as B. congruence.
Qed.
Lemma sp_args_det g1 g2 D inp args locs es r1 r2 :
  sp_args g1 D inp args locs es = r1 -> r1 <> OutOfFuel ->
  sp_args g2 D inp args locs es = r2 -> r2 <> OutOfFuel -> r1 = r2.
Proof.
  intros H1 N1 H2 N2.
  pose proof (sp_args_mono _ (Nat.max g1 g2) _ _ _ _ _ _ H1 N1 ltac:(lia)) as A.
  pose proof (sp_args_mono _ (Nat.max g1 g2) _ _ _ _ _ _ H2 N2 ltac:(lia)) as B. congruence.
Qed.

Lemma dr_expr_fst g D inp me args locs e r ds :
  dr_expr g D inp me args locs e = (r, ds) -> sp_expr g D inp args locs e = r.
Proof. intros H. rewrite <- (proj1 (dr_fst_all g) D inp me args locs e). now rewrite H. Qed.
Lemma dr_args_fst g D inp me args locs es r ds :
  dr_args g D inp me args locs es = (r, ds) -> sp_args g D inp args locs es = r.
Proof. intros H. rewrite <- (proj1 (proj2 (dr_fst_all g)) D inp me args locs es). now rewrite H. Qed.
Lemma dr_body_fst g D inp me args locs rest r ds :
  dr_body g D inp me args locs rest = (r, ds) -> sp_body g D inp args locs rest = r.
Proof. intros H. rewrite <- (proj2 (proj2 (proj2 (dr_fst_all g))) D inp me args locs rest). now rewrite H. Qed.

(** what the executor computed fixes the result of any terminating reads evaluation *)
Lemma align_dr_expr r D inp me args locs e g rc ds :
  agrees r (fun g => sp_expr g D inp args locs e) -> r <> OutOfFuel -> r <> Err KDeep ->
  dr_expr g D inp me args locs e = (rc, ds) -> rc <> OutOfFuel -> rc = r.
Proof.
  intros A Hr Hk Hc Hrc. pose proof (dr_expr_fst _ _ _ _ _ _ _ _ _ Hc) as F.
  destruct r as [v|k|]; simpl in A; [| |congruence].
  - destruct A as (g1 & A). symmetry. eapply sp_expr_det; eauto; discriminate.
  - destruct A as [->|(g1 & A)]; [congruence|]. symmetry. eapply sp_expr_det; eauto; discriminate.
Qed.
Lemma align_dr_args r D inp me args locs es g rc ds :
  agrees r (fun g => sp_args g D inp args locs es) -> r <> OutOfFuel -> r <> Err KDeep ->
  dr_args g D inp me args locs es = (rc, ds) -> rc <> OutOfFuel -> rc = r.
Proof.
  intros A Hr Hk Hc Hrc. pose proof (dr_args_fst _ _ _ _ _ _ _ _ _ Hc) as F.
  destruct r as [v|k|]; simpl in A; [| |congruence].
  - destruct A as (g1 & A). symmetry. eapply sp_args_det; eauto; discriminate.
  - destruct A as [->|(g1 & A)]; [congruence|]. symmetry. eapply sp_args_det; eauto; discriminate.
Qed.

Lemma top_clean_mono st st' :
  s_stack st' = s_stack st -> s_taint st <= s_taint st' -> top_clean st' -> top_clean st.
Proof. unfold top_clean. intros -> L H. lia. Qed.

(** an untainted formula on top of the stack: nothing was counted *)
Lemma MM_clean_eq st st' : MM st st' -> top_clean st' -> s_masks st' = s_masks st.
Proof.
  intros ((K & M & _) & T) Hc. unfold top_clean in Hc. rewrite K in Hc.
  destruct (Nat.eq_dec (s_masks st') (s_masks st)) as [E|E]; [exact E|].
  assert (L : s_masks st < s_masks st') by lia. apply T in L. lia.
Qed.
Lemma MB_clean_eq {A} st st' (r : res A) :
  MB st st' r -> top_clean st' -> (exists v, r = Val v) -> s_masks st' = s_masks st.
Proof.
  intros ((K & M & _) & T) Hc (v & ->). unfold top_clean in Hc. rewrite K in Hc.
  destruct (Nat.eq_dec (s_masks st') (s_masks st)) as [E|E]; [exact E|].
  assert (L : s_masks st < s_masks st') by lia. apply T in L. destruct L as [L|(k & L)]; [lia|discriminate].
Qed.
Ltac mkc :=
  try match goal with
  | MMH : MM ?a ?b, Hc : top_clean ?b |- _ => pose proof (MM_clean_eq _ _ MMH Hc)
  end;
  try match goal with
  | MMH : MB ?a ?b ?r, Hc : top_clean ?b, Hok : exists v, ?r = Val v |- _ =>
      pose proof (MB_clean_eq _ _ _ MMH Hc Hok)
  end; mk.

Lemma Good_upd_masks st x : Good st -> Good (upd_masks st x).
Proof. intros (HI & C & SO). split; [exact HI|]. split; [|exact SO]. constructor; apply C. Qed.

Lemma Post_same st ok (cov : Prop) : Good st -> cov -> Post st st ok cov.
Proof.
  intros G C. right. split; [exact G|]. split; [apply le_n|]. intros _ _.
  split; [apply Grow_refl|]. split; [apply incl_refl|exact C].
Qed.

Lemma Good_upd_rolled st x : Good st -> Good (upd_rolled st x).
Proof. intros (HI & C & SO). split; [exact HI|]. split; [|exact SO]. constructor; apply C. Qed.

(** a formula whose value is returned but not kept leaves like a failed one *)
Lemma Good_pop_tainted st i rest :
  Good st -> s_stack st = i :: rest -> Inv (rollback_frame st 0) -> Good (pop_tainted st).
Proof. intros G Es HI. unfold pop_tainted. apply Good_upd_rolled. eapply Good_rollback; eauto. Qed.

Lemma pop_tainted_taint st i rest : s_stack st = i :: rest -> s_taint (pop_tainted st) = List.length rest.
Proof. intros Es. unfold pop_tainted. exact (rollback_frame_taint st i rest 0 Es). Qed.
Lemma pop_tainted_stack st i rest : s_stack st = i :: rest -> s_stack (pop_tainted st) = rest.
Proof.
  intros Es. unfold pop_tainted. change (s_stack (upd_rolled (rollback_frame st 0) (s_rolled st))) with (s_stack (rollback_frame st 0)).
  destruct (rollback_frame_fields st 0) as (_ & _ & K & _). rewrite K, Es. reflexivity.
Qed.
Lemma pop_tainted_reent st : s_reent (pop_tainted st) = s_reent st.
Proof. unfold pop_tainted. exact (rollback_frame_reent st 0). Qed.

(** * The main induction *)
Lemma sim2_all : forall f, sim2_expr f /\ sim2_args f /\ sim2_node f /\ sim2_formula f /\ sim2_body f.
Proof.
  induction f as [|f (IHe & IHa & IHn & IHf & IHb)].
  { split; [|split; [|split; [|split]]];
      unfold sim2_expr, sim2_args, sim2_node, sim2_formula, sim2_body; intros;
      match goal with H : _ = (_, _) |- _ => simpl in H; inversion H; subst; congruence end. }
  assert (SE := proj1 (sim_all f)).
  assert (SA := proj1 (proj2 (sim_all f))).
  assert (SN := proj1 (proj2 (proj2 (sim_all f)))).
  assert (SF := proj1 (proj2 (proj2 (proj2 (sim_all f))))).
  assert (SB := proj2 (proj2 (proj2 (proj2 (sim_all f))))).
  assert (ME := proj1 (reent_mono_all f)).
  assert (MA := proj1 (proj2 (reent_mono_all f))).
  assert (MN := proj1 (proj2 (proj2 (reent_mono_all f)))).
  assert (MF := proj1 (proj2 (proj2 (proj2 (reent_mono_all f))))).
  assert (MB := proj2 (proj2 (proj2 (proj2 (reent_mono_all f))))).
  split; [|split; [|split; [|split]]].
  - (* ---------------- expressions ---------------- *)
    intros st args locs line e r st' me d H Hr HG Hre HC.
    pose proof (masks_expr _ _ _ _ _ _ _ _ H Hr) as MMH.
    destruct e; simpl in H.
    + inversion H; subst. apply Post_same; [exact HG|].
      intros g r' ds Hd _. destruct g; simpl in Hd; inversion Hd; constructor.
    + inversion H; subst. apply Post_same; [exact HG|].
      intros g r' ds Hd _. destruct g; simpl in Hd; inversion Hd; constructor.
    + inversion H; subst. apply Post_same; [exact HG|].
      intros g r' ds Hd _. destruct g; simpl in Hd; inversion Hd; constructor.
    + (* EBin *)
      destruct (eval_expr f st args locs line e1) as [r1 st1] eqn:E1.
      assert (Hr1 : r1 <> OutOfFuel) by (intros ->; inversion H; subst; congruence).
      destruct (SE _ _ _ _ _ _ _ E1 Hr1 (proj1 HG)) as (I1 & F1 & A1).
      pose proof (IHe _ _ _ _ _ _ _ me d E1 Hr1 HG Hre HC) as P1.
      destruct r1 as [va|k|]; [| |congruence].
      2:{ inversion H; subst. destruct P1 as [P1|(G1 & T1 & P1)]; [now left|right].
          split; [exact G1|]. split; [exact T1|]. intros Hok Hc. destruct (P1 Hok Hc) as (W1 & S1 & C1).
          split; [exact W1|]. split; [exact S1|].
          intros g r' ds Hd Hr'. destruct g; [simpl in Hd; inversion Hd; congruence|]. simpl in Hd.
          destruct (dr_expr g (defs_of st) (input_data st) me args locs e1) as [ra d1] eqn:Da.
          assert (Hra : ra <> OutOfFuel) by (intros ->; inversion Hd; congruence).
          pose proof (align_dr_expr _ _ _ _ _ _ _ _ _ _ (A1 ltac:(mkc)) ltac:(discriminate) Hok Da Hra) as ->.
          inversion Hd; subst. eapply C1; eauto. }
      destruct (eval_expr f st1 args locs line e2) as [r2 st2] eqn:E2.
      assert (Hr2 : r2 <> OutOfFuel) by (intros ->; inversion H; subst; congruence).
      assert (Hst : st' = st2) by (destruct r2; inversion H; reflexivity). subst st2.
      destruct (s_reent st1) eqn:R1; [left; eapply ME; eauto|].
      destruct P1 as [P1|(G1 & T1 & P1)]; [congruence|].
      destruct (SE _ _ _ _ _ _ _ E2 Hr2 I1) as (I2 & F2 & A2).
      pose proof (IHe _ _ _ _ _ _ _ me d E2 Hr2 G1 R1 (Ctx_frame _ _ _ _ F1 HC)) as P2.
      destruct P2 as [P2|(G2 & T2 & P2)]; [now left|right]. split; [exact G2|]. split; [lia|].
      intros Hok Hc.
      assert (Hok2 : not_deep r2).
      { intros ->. inversion H; subst. now apply Hok. }
      destruct (P2 Hok2 Hc) as (W2 & S2 & C2).
      assert (Hc1 : top_clean st1) by (eapply top_clean_mono; [exact (proj1 (proj2 F2))|exact T2|exact Hc]).
      destruct (P1 ltac:(discriminate) Hc1) as (W1 & S1 & C1).
      split; [eapply Grow_trans; eauto|]. split; [eapply incl_tran; eauto|].
      destruct (frame_defs _ _ F1) as (D1 & Q1). rewrite D1, Q1, (nc_frame _ _ F1) in C2.
      intros g r' ds Hd Hr'. destruct g; [simpl in Hd; inversion Hd; congruence|]. simpl in Hd.
      destruct (dr_expr g (defs_of st) (input_data st) me args locs e1) as [ra d1] eqn:Da.
      assert (Hra : ra <> OutOfFuel) by (intros ->; inversion Hd; congruence).
      pose proof (C1 _ _ _ Da Hra) as K1.
      pose proof (Forall_cov_grow _ _ _ _ _ _ W2 S2 K1) as K1'.
      pose proof (align_dr_expr _ _ _ _ _ _ _ _ _ _ (A1 ltac:(mkc)) ltac:(discriminate) ltac:(discriminate) Da Hra) as ->.
      destruct (dr_expr g (defs_of st) (input_data st) me args locs e2) as [rb d2] eqn:Db.
      assert (Hrb : rb <> OutOfFuel) by (intros ->; inversion Hd; congruence).
      pose proof (C2 _ _ _ Db Hrb) as K2.
      assert (ds = d1 ++ d2) by (destruct rb; inversion Hd; reflexivity). subst ds.
      apply Forall_app. split; assumption.
    + (* EIfPos *)
      destruct (eval_expr f st args locs line e1) as [r1 st1] eqn:E1.
      assert (Hr1 : r1 <> OutOfFuel) by (intros ->; inversion H; subst; congruence).
      destruct (SE _ _ _ _ _ _ _ E1 Hr1 (proj1 HG)) as (I1 & F1 & A1).
      pose proof (IHe _ _ _ _ _ _ _ me d E1 Hr1 HG Hre HC) as P1.
      (* the ways of stopping after the condition *)
      assert (Hstop : forall rr, r1 = rr -> (match rr with Val (VInt _) => False | _ => True end) ->
                (r, st') = (match rr with Val VNone => Err KType | x => x end, st1) ->
                Post st st' (not_deep r)
                  (forall g r' ds, dr_expr g (defs_of st) (input_data st) me args locs (EIfPos e1 e2 e3) = (r', ds) ->
                     r' <> OutOfFuel -> Forall (cov_pending st' (nearest_cached st (s_stack st)) me d) ds)).
      { intros rr -> Hn Hq. inversion Hq; subst r st'. clear Hq.
        destruct P1 as [P1|(G1 & T1 & P1)]; [now left|right].
        split; [exact G1|]. split; [exact T1|]. intros Hok Hc.
        assert (Hok1 : not_deep rr).
        { intros ->. now apply Hok. }
        destruct (P1 Hok1 Hc) as (W1 & S1 & C1).
        split; [exact W1|]. split; [exact S1|].
        intros g r' ds Hd Hr'. destruct g; [simpl in Hd; inversion Hd; congruence|]. simpl in Hd.
        destruct (dr_expr g (defs_of st) (input_data st) me args locs e1) as [ra d1] eqn:Da.
        assert (Hra : ra <> OutOfFuel).
        { intros ->. inversion Hd; congruence. }
        pose proof (align_dr_expr _ _ _ _ _ _ _ _ _ _ (A1 ltac:(mkc)) Hr1 Hok1 Da Hra) as ->.
        destruct rr as [[z|]|k|]; [contradiction| | |congruence]; inversion Hd; subst; eapply C1; eauto. }
      destruct r1 as [[z|]|k|]; [| | |congruence].
      2:{ apply (Hstop (Val VNone) eq_refl I). now rewrite <- H. }
      2:{ apply (Hstop (Err k) eq_refl I). now rewrite <- H. }
      clear Hstop.
      assert (Hb : exists eb, eval_expr f st1 args locs line eb = (r, st') /\
                              eb = (if Z.ltb 0 z then e2 else e3)).
      { destruct (Z.ltb 0 z); eexists; split; eauto. }
      destruct Hb as (eb & E2 & Heb).
      destruct (s_reent st1) eqn:R1; [left; eapply ME; eauto|].
      destruct P1 as [P1|(G1 & T1 & P1)]; [congruence|].
      destruct (SE _ _ _ _ _ _ _ E2 Hr I1) as (I2 & F2 & A2).
      pose proof (IHe _ _ _ _ _ _ _ me d E2 Hr G1 R1 (Ctx_frame _ _ _ _ F1 HC)) as P2.
      destruct P2 as [P2|(G2 & T2 & P2)]; [now left|right]. split; [exact G2|]. split; [lia|].
      intros Hok Hc. destruct (P2 Hok Hc) as (W2 & S2 & C2).
      assert (Hc1 : top_clean st1) by (eapply top_clean_mono; [exact (proj1 (proj2 F2))|exact T2|exact Hc]).
      destruct (P1 ltac:(discriminate) Hc1) as (W1 & S1 & C1).
      split; [eapply Grow_trans; eauto|]. split; [eapply incl_tran; eauto|].
      destruct (frame_defs _ _ F1) as (D1 & Q1). rewrite D1, Q1, (nc_frame _ _ F1) in C2.
      intros g r' ds Hd Hr'. destruct g; [simpl in Hd; inversion Hd; congruence|]. simpl in Hd.
      destruct (dr_expr g (defs_of st) (input_data st) me args locs e1) as [ra d1] eqn:Da.
      assert (Hra : ra <> OutOfFuel) by (intros ->; inversion Hd; congruence).
      pose proof (C1 _ _ _ Da Hra) as K1.
      pose proof (Forall_cov_grow _ _ _ _ _ _ W2 S2 K1) as K1'.
      pose proof (align_dr_expr _ _ _ _ _ _ _ _ _ _ (A1 ltac:(mkc)) ltac:(discriminate) ltac:(discriminate) Da Hra) as ->.
      destruct (dr_expr g (defs_of st) (input_data st) me args locs eb) as [rb d2] eqn:Db.
      assert (Hd' : (rb, d1 ++ d2) = (r', ds)).
      { subst eb. destruct (Z.ltb 0 z); rewrite Db in Hd; exact Hd. }
      inversion Hd'; subst.
      apply Forall_app. split; [exact K1'|]. eapply C2; eauto.
    + (* ECall *)
      destruct (eval_args f st args locs line args0) as [r1 st1] eqn:E1.
      assert (Hr1 : r1 <> OutOfFuel) by (intros ->; inversion H; subst; congruence).
      destruct (SA _ _ _ _ _ _ _ E1 Hr1 (proj1 HG)) as (I1 & F1 & A1).
      pose proof (IHa _ _ _ _ _ _ _ me d E1 Hr1 HG Hre HC) as P1.
      assert (Hc : s_cells st1 = s_cells st) by (apply static_cells, F1). rewrite Hc in H.
      (* stopping after the arguments: failed arguments, unknown cells, arguments that do not bind *)
      assert (Hstop : st' = st1 -> (not_deep r -> not_deep r1) ->
                (forall g r' ds, dr_expr (S g) (defs_of st) (input_data st) me args locs (ECall c args0) = (r', ds) ->
                   r' <> OutOfFuel -> not_deep r -> top_clean st' ->
                   exists ra, dr_args g (defs_of st) (input_data st) me args locs args0 = (ra, ds) /\ ra <> OutOfFuel) ->
                Post st st' (not_deep r)
                  (forall g r' ds, dr_expr g (defs_of st) (input_data st) me args locs (ECall c args0) = (r', ds) ->
                     r' <> OutOfFuel -> Forall (cov_pending st' (nearest_cached st (s_stack st)) me d) ds)).
      { intros -> Hnd Hsh. destruct P1 as [P1|(G1 & T1 & P1)]; [now left|right].
        split; [exact G1|]. split; [exact T1|]. intros Hok Hcl.
        destruct (P1 (Hnd Hok) Hcl) as (W1 & S1 & C1).
        split; [exact W1|]. split; [exact S1|].
        intros g r' ds Hd Hr'. destruct g; [simpl in Hd; inversion Hd; congruence|].
        destruct (Hsh _ _ _ Hd Hr' Hok Hcl) as (ra & Da & Hra). eapply C1; eauto. }
      destruct r1 as [vs|k|]; [| |congruence].
      2:{ apply Hstop; [inversion H; reflexivity|intros Hk E; inversion E; subst; apply Hk; inversion H; reflexivity|].
          intros g r' ds Hd Hr' Hok Hcl. simpl in Hd.
          destruct (dr_args g (defs_of st) (input_data st) me args locs args0) as [ra d1] eqn:Da.
          assert (Hra : ra <> OutOfFuel) by (intros ->; inversion Hd; congruence).
          assert (Hk1 : @Err (list val) k <> Err KDeep).
          { intros E; inversion E; subst. apply Hok. inversion H; reflexivity. }
          pose proof (align_dr_args _ _ _ _ _ _ _ _ _ _ (A1 ltac:(mkc)) ltac:(discriminate) Hk1 Da Hra) as ->.
          inversion Hd; subst. eexists; split; [reflexivity|discriminate]. }
      destruct (lookup_cell (s_cells st) c) as [cl|] eqn:El.
      2:{ apply Hstop; [inversion H; reflexivity|intros _; discriminate|].
          intros g r' ds Hd Hr' Hok Hcl. simpl in Hd.
          destruct (dr_args g (defs_of st) (input_data st) me args locs args0) as [ra d1] eqn:Da.
          assert (Hra : ra <> OutOfFuel) by (intros ->; inversion Hd; congruence).
          pose proof (align_dr_args _ _ _ _ _ _ _ _ _ _ (A1 ltac:(mkc)) ltac:(discriminate) ltac:(discriminate) Da Hra) as ->.
          unfold defs_of in Hd; simpl in Hd. rewrite El in Hd.
          inversion Hd; subst. eexists; split; [reflexivity|discriminate]. }
      destruct (bind_pos cl vs) as [k|] eqn:Eb.
      2:{ apply Hstop; [inversion H; reflexivity|intros _; discriminate|].
          intros g r' ds Hd Hr' Hok Hcl. simpl in Hd.
          destruct (dr_args g (defs_of st) (input_data st) me args locs args0) as [ra d1] eqn:Da.
          assert (Hra : ra <> OutOfFuel) by (intros ->; inversion Hd; congruence).
          pose proof (align_dr_args _ _ _ _ _ _ _ _ _ _ (A1 ltac:(mkc)) ltac:(discriminate) ltac:(discriminate) Da Hra) as ->.
          unfold defs_of in Hd; simpl in Hd. rewrite El, Eb in Hd.
          inversion Hd; subst. eexists; split; [reflexivity|discriminate]. }
      clear Hstop.
      destruct (s_reent st1) eqn:R1; [left; eapply MN; eauto|].
      destruct P1 as [P1|(G1 & T1 & P1)]; [congruence|].
      destruct (SN _ _ _ _ _ H Hr I1) as (I2 & F2 & A2).
      pose proof (IHn _ _ _ _ _ me d H Hr G1 R1 (Ctx_depth _ _ _ (Ctx_frame _ _ _ _ F1 HC))) as P2.
      destruct P2 as [P2|(G2 & T2 & P2)]; [now left|right]. split; [exact G2|]. split; [lia|].
      intros Hok Hcl. destruct (P2 Hok Hcl) as (W2 & S2 & C2).
      assert (Hc1 : top_clean st1) by (eapply top_clean_mono; [exact (proj1 (proj2 F2))|exact T2|exact Hcl]).
      destruct (P1 ltac:(discriminate) Hc1) as (W1 & S1 & C1).
      split; [eapply Grow_trans; eauto|]. split; [eapply incl_tran; eauto|].
      destruct (frame_defs _ _ F1) as (D1 & Q1). rewrite D1, Q1, (nc_frame _ _ F1) in C2.
      intros g r' ds Hd Hr'. destruct g; [simpl in Hd; inversion Hd; congruence|]. simpl in Hd.
      destruct (dr_args g (defs_of st) (input_data st) me args locs args0) as [ra d1] eqn:Da.
      assert (Hra : ra <> OutOfFuel) by (intros ->; inversion Hd; congruence).
      pose proof (C1 _ _ _ Da Hra) as K1.
      pose proof (Forall_cov_grow _ _ _ _ _ _ W2 S2 K1) as K1'.
      pose proof (align_dr_args _ _ _ _ _ _ _ _ _ _ (A1 ltac:(mkc)) ltac:(discriminate) ltac:(discriminate) Da Hra) as ->.
      unfold defs_of in Hd; simpl in Hd. rewrite El, Eb in Hd.
      destruct (dr_node g (s_cells st, s_refs st) (input_data st) (c, k)) as [rb d2] eqn:Db.
      inversion Hd; subst.
      apply Forall_app. split; [exact K1'|]. eapply C2; eauto.
    + (* ERefN *)
      inversion H; subst. apply Post_same; [exact HG|].
      intros g r' ds Hd _. destruct g; simpl in Hd; inversion Hd; [constructor|].
      constructor; [|constructor]. unfold cov_pending.
      destruct (nearest_cached st' (s_stack st')); [now left|exact I].
    + (* ERefA *)
      destruct HC as (key & rest & Es & Hd0).
      destruct (lookup_ref (s_refs st) r0) as [[sp v]|] eqn:El; inversion H; subst.
      * right. destruct HG as (HI & C & SO).
        set (st' := upd_refstack st ((List.length (s_stack st) - 1, r0) :: s_refstack st)).
        split.
        -- split; [exact HI|]. split; [|exact SO].
           constructor; try (apply C).
           simpl. rewrite Es. simpl. rewrite Nat.sub_0_r. split; [lia|].
           pose proof (cv_refs _ C) as R. rewrite Es in R. exact R.
        -- split; [apply le_n|]. intros _ _. split; [repeat split; try apply incl_refl; auto|].
           split; [intros p Hp; now right|].
           intros g r' ds Hd _. destruct g; simpl in Hd; [inversion Hd; constructor|].
           unfold defs_of in Hd; simpl in Hd. rewrite El in Hd. inversion Hd; subst.
           constructor; [|constructor]. unfold cov_pending.
           destruct (nearest_cached st (s_stack st)); [|exact I].
           right. simpl. left. rewrite Es. simpl. now rewrite Nat.sub_0_r.
      * apply Post_same; [exact HG|].
        intros g r' ds Hd _. destruct g; simpl in Hd; [inversion Hd; constructor|].
        unfold defs_of in Hd; simpl in Hd. rewrite El in Hd. inversion Hd; constructor.
    + (* ERaise *)
      inversion H; subst. apply Post_same; [exact HG|].
      intros g r' ds Hd _. destruct g; simpl in Hd; inversion Hd; constructor.
  - (* ---------------- argument lists ---------------- *)
    intros st args locs line es r st' me d H Hr HG Hre HC.
    pose proof (masks_args _ _ _ _ _ _ _ _ H Hr) as MMH.
    destruct es as [|e rest]; simpl in H.
    + inversion H; subst. apply Post_same; [exact HG|].
      intros g r' ds Hd _. destruct g; simpl in Hd; inversion Hd; constructor.
    + destruct (eval_expr f st args locs line e) as [r1 st1] eqn:E1.
      assert (Hr1 : r1 <> OutOfFuel) by (intros ->; inversion H; subst; congruence).
      destruct (SE _ _ _ _ _ _ _ E1 Hr1 (proj1 HG)) as (I1 & F1 & A1).
      pose proof (IHe _ _ _ _ _ _ _ me d E1 Hr1 HG Hre HC) as P1.
      destruct r1 as [v|k|]; [| |congruence].
      2:{ inversion H; subst. destruct P1 as [P1|(G1 & T1 & P1)]; [now left|right].
          split; [exact G1|]. split; [exact T1|]. intros Hok Hc.
          assert (Hok1 : @Err val k <> Err KDeep) by (intros E; inversion E; subst; now apply Hok).
          destruct (P1 Hok1 Hc) as (W1 & S1 & C1).
          split; [exact W1|]. split; [exact S1|].
          intros g r' ds Hd Hr'. destruct g; [simpl in Hd; inversion Hd; congruence|]. simpl in Hd.
          destruct (dr_expr g (defs_of st) (input_data st) me args locs e) as [ra d1] eqn:Da.
          assert (Hra : ra <> OutOfFuel) by (intros ->; inversion Hd; congruence).
          pose proof (align_dr_expr _ _ _ _ _ _ _ _ _ _ (A1 ltac:(mkc)) ltac:(discriminate) Hok1 Da Hra) as ->.
          inversion Hd; subst. eapply C1; eauto. }
      destruct (eval_args f st1 args locs line rest) as [r2 st2] eqn:E2.
      assert (Hr2 : r2 <> OutOfFuel) by (intros ->; inversion H; subst; congruence).
      assert (Hst : st' = st2) by (destruct r2; inversion H; reflexivity). subst st2.
      destruct (s_reent st1) eqn:R1; [left; eapply MA; eauto|].
      destruct P1 as [P1|(G1 & T1 & P1)]; [congruence|].
      destruct (SA _ _ _ _ _ _ _ E2 Hr2 I1) as (I2 & F2 & A2).
      pose proof (IHa _ _ _ _ _ _ _ me d E2 Hr2 G1 R1 (Ctx_frame _ _ _ _ F1 HC)) as P2.
      destruct P2 as [P2|(G2 & T2 & P2)]; [now left|right]. split; [exact G2|]. split; [lia|].
      intros Hok Hc.
      assert (Hok2 : not_deep r2).
      { intros ->. inversion H; subst. now apply Hok. }
      destruct (P2 Hok2 Hc) as (W2 & S2 & C2).
      assert (Hc1 : top_clean st1) by (eapply top_clean_mono; [exact (proj1 (proj2 F2))|exact T2|exact Hc]).
      destruct (P1 ltac:(discriminate) Hc1) as (W1 & S1 & C1).
      split; [eapply Grow_trans; eauto|]. split; [eapply incl_tran; eauto|].
      destruct (frame_defs _ _ F1) as (D1 & Q1). rewrite D1, Q1, (nc_frame _ _ F1) in C2.
      intros g r' ds Hd Hr'. destruct g; [simpl in Hd; inversion Hd; congruence|]. simpl in Hd.
      destruct (dr_expr g (defs_of st) (input_data st) me args locs e) as [ra d1] eqn:Da.
      assert (Hra : ra <> OutOfFuel) by (intros ->; inversion Hd; congruence).
      pose proof (C1 _ _ _ Da Hra) as K1.
      pose proof (Forall_cov_grow _ _ _ _ _ _ W2 S2 K1) as K1'.
      pose proof (align_dr_expr _ _ _ _ _ _ _ _ _ _ (A1 ltac:(mkc)) ltac:(discriminate) ltac:(discriminate) Da Hra) as ->.
      destruct (dr_args g (defs_of st) (input_data st) me args locs rest) as [rb d2] eqn:Db.
      assert (Hrb : rb <> OutOfFuel) by (intros ->; inversion Hd; congruence).
      pose proof (C2 _ _ _ Db Hrb) as K2.
      assert (ds = d1 ++ d2) by (destruct rb; inversion Hd; reflexivity). subst ds.
      apply Forall_app. split; assumption.
  - (* ---------------- element requested from a formula ---------------- *)
    intros st line i r st' me d H Hr HG Hre Hdd. simpl in H.
    destruct (lookup_cell (s_cells st) (fst i)) as [cl|] eqn:El.
    2:{ inversion H; subst. apply Post_same; [exact HG|].
        intros g r' ds Hd _. destruct g; simpl in Hd; [inversion Hd; constructor|].
        unfold defs_of in Hd; simpl in Hd. rewrite El in Hd. inversion Hd; constructor. }
    destruct (if cl_cached cl then lookup_data (s_data st) i else None) as [v|] eqn:Eh.
    + (* hit *)
      destruct (cl_cached cl) eqn:Ec; [|discriminate].
      assert (Hhas : has st i) by (unfold has; congruence).
      destruct HG as (HI & C & SO).
      destruct (nearest_cached st (s_stack st)) as [jc|] eqn:En; inversion H; subst.
      * right. pose proof (Cov_hit _ _ _ HI C SO Hhas En) as C'.
        split; [split; [exact HI|split; [exact C'|exact SO]]|]. split; [apply le_n|].
        intros _ _.
        assert (G : Grow st (g_add_edge st (node_of i) (node_of jc))).
        { repeat split; try apply incl_refl; auto.
          - intros e He. apply g_add_edge_edges. now right.
          - intros n Hn. apply g_add_edge_nodes. auto. }
        split; [exact G|]. split; [apply incl_refl|].
        intros g r' ds Hd Hr'. destruct g; [simpl in Hd; inversion Hd; congruence|]. simpl in Hd.
        unfold defs_of in Hd; simpl in Hd. rewrite El, Ec in Hd.
        assert (ds = [RItem i]).
        { destruct (lookup_data (input_data st) i); [inversion Hd; reflexivity|].
          destruct (dr_body g (s_cells st, s_refs st) (input_data st) (fst i) (snd i) [] (cl_body cl)) as [[w|k|] dd];
            inversion Hd; reflexivity. }
        subst ds. constructor; [|constructor]. simpl. split.
        -- apply g_add_edge_edges. now left.
        -- exact Hhas.
      * apply Post_same; [split; [exact HI|split; [exact C|exact SO]]|].
        intros g r' ds Hd Hr'. eapply Forall_impl; [|apply Forall_forall; intros x _; exact I].
        intros x _. exact I.
    + eapply IHf; eauto.
  - (* ---------------- formula execution ---------------- *)
    intros st cl i r st' me d H Hr HG Hre Hdd El Em. pose proof H as H0. simpl in H.
    destruct (Nat.ltb (s_maxdepth st) (List.length (s_stack st))).
    { inversion H; subst. right. split; [exact HG|]. split; [apply le_n|]. intros Hok. now elim Hok. }
    set (st1 := upd_reent (upd_log (upd_stack st (i :: s_stack st)) (i :: s_log st))
                          (s_reent st || mem_item i (s_stack st))) in *.
    destruct (exec_body f st1 (snd i) [] (cl_body cl) (cl_body cl) 0) as [[rb st2] ln] eqn:Eb.
    assert (Hrb : rb <> OutOfFuel) by (intros ->; inversion H; subst; congruence).
    assert (Hflag2 : s_reent st2 = true -> s_reent st' = true).
    { intros F2. destruct rb as [v|k|]; [|inversion H; subst; now rewrite rollback_frame_reent|congruence].
      destruct (tainted st2).
      { destruct v as [z|]; [|destruct (cl_allow_none cl)]; inversion H; subst;
          rewrite ?pop_tainted_reent, ?rollback_frame_reent; exact F2. }
      destruct (cl_cached cl).
      - unfold store_value in H.
        destruct v as [z|]; [|destruct (cl_allow_none cl)]; inversion H; subst;
          rewrite ?pop_frame_reent, ?rollback_frame_reent; exact F2.
      - destruct v as [z|]; [|destruct (cl_allow_none cl)]; inversion H; subst;
          rewrite ?pop_frame_reent, ?rollback_frame_reent; exact F2. }
    pose proof (Good_push st i cl HG El Em) as G1. fold st1 in G1.
    destruct (mem_item i (s_stack st)) eqn:Ein.
    { left. apply Hflag2. eapply MB; [exact Eb|]. unfold st1; simpl; try rewrite Ein; apply orb_true_r. }
    assert (R1 : s_reent st1 = false) by (unfold st1; simpl; rewrite Hre; try rewrite Ein; reflexivity).
    assert (Hnin : ~ In i (s_stack st)) by (intros Hc; apply mem_item_In in Hc; congruence).
    assert (HC1 : Ctx st1 (fst i) (List.length (s_stack st))).
    { exists (snd i), (s_stack st). split; [destruct i; reflexivity|reflexivity]. }
    pose proof (IHb _ _ _ _ _ _ _ _ _ (fst i) (List.length (s_stack st)) Eb Hrb G1 R1 HC1) as PB.
    destruct (s_reent st2) eqn:R2; [left; now apply Hflag2|].
    destruct PB as [PB|(G2 & T2 & PB)]; [congruence|].
    change (s_taint st1) with (s_taint st) in T2.
    (* facts from the first simulation *)
    destruct (proj1 (proj2 (proj2 (proj2 (sim_all (S f))))) _ _ _ _ _ H0 Hr (proj1 HG) El Em) as (I' & F' & A').
    destruct (SB _ _ _ _ _ _ _ _ _ Eb Hrb (proj1 G1)) as (I2 & F2 & A2).
    destruct F2 as (S2 & K2 & M2 & Q2).
    change (static st1) with (static st) in S2. change (s_stack st1) with (i :: s_stack st) in K2.
    change (s_data st1) with (s_data st) in M2. change (input_data st1) with (input_data st) in Q2.
    change (defs_of st1) with (defs_of st) in A2. change (input_data st1) with (input_data st) in A2.
    assert (Hcells2 : s_cells st2 = s_cells st) by (now apply static_cells).
    assert (Hrsst : forall p, In p (s_refstack st) -> fst p <> List.length (s_stack st)).
    { intros p Hp. pose proof (rs_ok_bound _ _ _ (cv_refs _ (proj1 (proj2 HG))) Hp). lia. }
    assert (Hnc1 : nearest_cached st1 (s_stack st1) =
                   if cl_cached cl then Some i else nearest_cached st (s_stack st)).
    { change (s_stack st1) with (i :: s_stack st). simpl.
      change (is_cached st1 (fst i)) with (is_cached st (fst i)).
      unfold is_cached. rewrite El.
      destruct (cl_cached cl); [reflexivity|]. apply nearest_cached_cells. reflexivity. }
    pose proof (cv_taint _ (proj1 (proj2 HG))) as Ht0.
    (* leaving without keeping anything: the frames below are tainted, nothing is owed *)
    assert (Leave : forall s', Good s' -> s_taint s' = List.length (s_stack st) -> s_stack s' = s_stack st ->
              forall cov, Post st s' (not_deep r) cov).
    { intros s' Gs Ts Ks cov. right. split; [exact Gs|]. split; [lia|].
      intros _ Hc. unfold top_clean in Hc. rewrite Ts, Ks in Hc. lia. }
    assert (Rollback : forall ln0, Inv (rollback_frame st2 ln0) -> forall cov, Post st (rollback_frame st2 ln0) (not_deep r) cov).
    { intros ln0 HI0 cov. apply Leave.
      - eapply Good_rollback; eauto.
      - exact (rollback_frame_taint st2 i (s_stack st) ln0 K2).
      - destruct (rollback_frame_fields st2 ln0) as (_ & _ & K & _). rewrite K, K2. reflexivity. }
    destruct rb as [v|k|]; [|inversion H; subst; apply Rollback; exact I'|congruence].
    destruct (tainted st2) eqn:Et.
    { (* returned, not kept *)
      assert (Hcase : (r, st') = (Err KNone, rollback_frame st2 0) \/ (r, st') = (Val v, pop_tainted st2)).
      { destruct v; [right; now rewrite <- H|]. destruct (cl_allow_none cl); [right|left]; now rewrite <- H. }
      destruct Hcase as [H'|H']; inversion H'; subst r st'; clear H' H.
      - apply Rollback. exact I'.
      - apply Leave.
        + eapply Good_pop_tainted; [exact G2|exact K2|].
          unfold pop_tainted in I'. destruct I' as (J1 & J2). split; [exact J1|exact J2].
        + exact (pop_tainted_taint st2 i (s_stack st) K2).
        + exact (pop_tainted_stack st2 i (s_stack st) K2). }
    assert (Hclean2 : top_clean st2).
    { unfold tainted in Et. apply Nat.leb_gt in Et. exact Et. }
    assert (Htn : s_taint st2 <= List.length (s_stack st)).
    { unfold top_clean in Hclean2. rewrite K2 in Hclean2. simpl in Hclean2. lia. }
    destruct (PB ltac:(eexists; reflexivity) Hclean2) as (W2 & RS2 & CB).
    rewrite Hnc1 in CB. change (defs_of st1) with (defs_of st) in CB.
    change (input_data st1) with (input_data st) in CB.
    specialize (A2 (body_clean_masks _ _ _ _ _ _ _ _ _ _ Eb Et)). destruct A2 as (gb & A2).
    destruct (dr_body gb (defs_of st) (input_data st) (fst i) (snd i) [] (cl_body cl)) as [rbb dsb] eqn:Dbb.
    pose proof (dr_body_fst _ _ _ _ _ _ _ _ _ Dbb) as Hfst. rewrite A2 in Hfst. subst rbb.
    pose proof (CB _ _ _ Dbb ltac:(discriminate)) as CovB.
    destruct (cl_cached cl) eqn:Ec.
    + (* cached *)
      destruct (miss_not_input st cl i (proj1 HG) Ec ltac:(now rewrite Ec)) as (Hni & Hli).
      assert (Hcase : (v = VNone /\ cl_allow_none cl = false) \/
                      (store_value st2 cl i v = (Val v, upd_data st2 (set_data (s_data st2) i v)) /\
                       none_check cl v = Val v)).
      { unfold store_value, none_check. destruct v; [now right|].
        destruct (cl_allow_none cl); [now right|now left]. }
      destruct Hcase as [(-> & Ea)|(Hs & Hnc)].
      * unfold store_value in H. rewrite Ea in H. inversion H; subst. apply Rollback. exact I'.
      * rewrite Hs in H. inversion H; subst r st'. clear H.
        assert (Hc2 : is_cached st2 (fst i) = true).
        { unfold is_cached. rewrite Hcells2, El. exact Ec. }
        assert (Hnone2 : lookup_data (s_data st2) i = None).
        { destruct G2 as (_ & _ & SO2). apply SO2; [rewrite K2; now left|exact Hc2]. }
        assert (Hni2 : mem_item i (s_inputs st2) = false) by (now rewrite (static_inputs _ _ S2)).
        assert (Hown : dr_own gb (defs_of st2) (input_data st2) i = (Val v, dsb)).
        { unfold dr_own. rewrite (static_defs _ _ S2), Q2. unfold defs_of; simpl. rewrite El.
          unfold defs_of in Dbb; simpl in Dbb. rewrite Dbb. now rewrite Hnc. }
        destruct (Good_pop_cached st2 i (s_stack st) v gb dsb G2 K2 Hnin Hc2 Htn Hnone2 Hni2 Hown CovB I')
          as (G' & W' & Hhas' & Hedge).
        right. split; [exact G'|]. split; [rewrite pop_frame_taint; exact T2|]. intros _ _.
        split; [eapply Grow_trans; [exact W2|exact W']|].
        split.
        { intros p Hp. apply (pop_frame_refstack_keep _ i (s_stack st)); [exact K2| |now apply Hrsst].
          simpl. apply RS2. exact Hp. }
        intros g r' ds Hd Hr'. destruct g; [simpl in Hd; inversion Hd; congruence|]. simpl in Hd.
        unfold defs_of in Hd; simpl in Hd. rewrite El, Ec, Hli in Hd.
        assert (ds = [RItem i]).
        { destruct (dr_body g (s_cells st, s_refs st) (input_data st) (fst i) (snd i) [] (cl_body cl)) as [[w|k|] dd];
            inversion Hd; reflexivity. }
        subst ds. constructor; [|constructor]. unfold cov_pending.
        destruct (nearest_cached st (s_stack st)) as [jc|] eqn:En; [|exact I].
        simpl. split; [|exact Hhas'].
        apply Hedge. transitivity (nearest_cached st (s_stack st)); [|exact En].
        apply nearest_cached_cells. exact Hcells2.
    + (* uncached *)
      assert (Hcase : (v = VNone /\ cl_allow_none cl = false /\ (r, st') = (Err KNone, rollback_frame st2 0)) \/
                      (r, st') = (Val v, pop_frame st2)).
      { destruct v; [right; now rewrite <- H|].
        destruct (cl_allow_none cl); [right; now rewrite <- H|left; repeat split; now rewrite <- H]. }
      destruct Hcase as [(-> & Ea & H')|H']; inversion H'; subst r st'; clear H' H.
      { apply Rollback. exact I'. }
      assert (Hc2 : is_cached st2 (fst i) = false).
      { unfold is_cached. rewrite Hcells2, El. exact Ec. }
      destruct (Good_pop_uncached st2 i (s_stack st) G2 K2 Hc2 Htn I') as (G' & W' & Hcall).
      right. split; [exact G'|]. split; [rewrite pop_frame_taint; exact T2|]. intros _ _.
      split; [eapply Grow_trans; [exact W2|exact W']|].
      split.
      { intros p Hp. apply (pop_frame_refstack_keep _ i (s_stack st)); [exact K2| |now apply Hrsst].
        apply RS2. exact Hp. }
      intros g r' ds Hd Hr'. destruct g; [simpl in Hd; inversion Hd; congruence|]. simpl in Hd.
      unfold defs_of in Hd; simpl in Hd. rewrite El, Ec in Hd.
      destruct (dr_body g (s_cells st, s_refs st) (input_data st) (fst i) (snd i) [] (cl_body cl)) as [rg dg] eqn:Dg.
      assert (Hdg : ds = RObj (fst i) :: dg /\ rg <> OutOfFuel).
      { destruct rg; inversion Hd; subst; split; auto; try discriminate. }
      destruct Hdg as (-> & Hrg). clear Hd.
      (* the reads of the body are the ones covered above *)
      assert (dg = dsb).
      { pose proof (dr_body_det _ _ _ _ _ _ _ _ _ _ _ _ Dg Hrg Dbb ltac:(discriminate)) as (_ & E). exact E. }
      subst dg.
      assert (Hnc2 : nearest_cached st2 (s_stack st) = nearest_cached st (s_stack st))
        by (apply nearest_cached_cells; exact Hcells2).
      constructor.
      * unfold cov_pending. destruct (nearest_cached st (s_stack st)) as [jc|] eqn:En; [|exact I].
        simpl. apply (Hcall jc). now rewrite Hnc2.
      * eapply Forall_impl; [|exact CovB]. intros x Hx.
        apply (cov_pending_after_uncached st2 (pop_frame st2) (nearest_cached st (s_stack st)) i (s_stack st) me d x K2 Hdd).
        -- apply W'.
        -- apply W'.
        -- apply W'.
        -- intros jc r En Hr0. apply (Hcall jc); [now rewrite Hnc2|exact Hr0].
        -- intros jc En. apply (Hcall jc). now rewrite Hnc2.
        -- exact Hx.
  - (* ---------------- statements ---------------- *)
    intros st args locs whole rest idx r st' ln me d H Hr HG Hre HC.
    pose proof (masks_body _ _ _ _ _ _ _ _ _ _ H Hr) as MMH.
    destruct rest as [|s more]; simpl in H.
    + inversion H; subst. apply Post_same; [exact HG|].
      intros g r' ds Hd _. destruct g; simpl in Hd; inversion Hd; constructor.
    + destruct s as [e|e h|e fc].
      * (* SAssign *)
        destruct (eval_expr f st args locs (stmt_line whole idx) e) as [r1 st1] eqn:E1.
        assert (Hr1 : r1 <> OutOfFuel) by (intros ->; inversion H; subst; congruence).
        destruct (SE _ _ _ _ _ _ _ E1 Hr1 (proj1 HG)) as (I1 & F1 & A1).
        pose proof (IHe _ _ _ _ _ _ _ me d E1 Hr1 HG Hre HC) as P1.
        destruct r1 as [v|k|]; [| |congruence].
        2:{ inversion H; subst. destruct P1 as [P1|(G1 & T1 & P1)]; [now left|right].
            split; [exact G1|]. split; [exact T1|]. intros Hok Hc. destruct Hok as (? & Hok); discriminate. }
        destruct (s_reent st1) eqn:R1; [left; eapply MB; eauto|].
        destruct P1 as [P1|(G1 & T1 & P1)]; [congruence|].
        destruct (SB _ _ _ _ _ _ _ _ _ H Hr I1) as (I2 & F2 & A2).
        pose proof (IHb _ _ _ _ _ _ _ _ _ me d H Hr G1 R1 (Ctx_frame _ _ _ _ F1 HC)) as P2.
        destruct P2 as [P2|(G2 & T2 & P2)]; [now left|right]. split; [exact G2|]. split; [lia|].
        intros Hok Hc. destruct (P2 Hok Hc) as (W2 & S2 & C2).
        assert (Hc1 : top_clean st1) by (eapply top_clean_mono; [exact (proj1 (proj2 F2))|exact T2|exact Hc]).
        destruct (P1 ltac:(discriminate) Hc1) as (W1 & S1 & C1).
        split; [eapply Grow_trans; eauto|]. split; [eapply incl_tran; eauto|].
        destruct (frame_defs _ _ F1) as (D1 & Q1). rewrite D1, Q1, (nc_frame _ _ F1) in C2.
        intros g r' ds Hd Hr'. destruct g; [simpl in Hd; inversion Hd; congruence|]. simpl in Hd.
        destruct (dr_expr g (defs_of st) (input_data st) me args locs e) as [ra d1] eqn:Da.
        assert (Hra : ra <> OutOfFuel) by (intros ->; inversion Hd; congruence).
        pose proof (C1 _ _ _ Da Hra) as K1.
        pose proof (Forall_cov_grow _ _ _ _ _ _ W2 S2 K1) as K1'.
        pose proof (align_dr_expr _ _ _ _ _ _ _ _ _ _ (A1 ltac:(mkc)) ltac:(discriminate) ltac:(discriminate) Da Hra) as ->.
        destruct (dr_body g (defs_of st) (input_data st) me args (locs ++ [v]) more) as [rb d2] eqn:Db.
        inversion Hd; subst.
        apply Forall_app. split; [exact K1'|]. eapply C2; eauto.
      * (* STry *)
        destruct (eval_expr f st args locs (stmt_line whole idx + 1) e) as [r1 st1] eqn:E1.
        assert (Hr1 : r1 <> OutOfFuel) by (intros ->; inversion H; subst; congruence).
        destruct (SE _ _ _ _ _ _ _ E1 Hr1 (proj1 HG)) as (I1 & F1 & A1).
        pose proof (IHe _ _ _ _ _ _ _ me d E1 Hr1 HG Hre HC) as P1.
        destruct (frame_defs _ _ F1) as (D1 & Q1).
        destruct r1 as [v|k|]; [| |congruence].
        -- destruct (s_reent st1) eqn:R1; [left; eapply MB; eauto|].
           destruct P1 as [P1|(G1 & T1 & P1)]; [congruence|].
           destruct (SB _ _ _ _ _ _ _ _ _ H Hr I1) as (I2 & F2 & A2).
           pose proof (IHb _ _ _ _ _ _ _ _ _ me d H Hr G1 R1 (Ctx_frame _ _ _ _ F1 HC)) as P2.
           destruct P2 as [P2|(G2 & T2 & P2)]; [now left|right]. split; [exact G2|]. split; [lia|].
           intros Hok Hc. destruct (P2 Hok Hc) as (W2 & S2 & C2).
           assert (Hc1 : top_clean st1) by (eapply top_clean_mono; [exact (proj1 (proj2 F2))|exact T2|exact Hc]).
           destruct (P1 ltac:(discriminate) Hc1) as (W1 & S1 & C1).
           split; [eapply Grow_trans; eauto|]. split; [eapply incl_tran; eauto|].
           rewrite D1, Q1, (nc_frame _ _ F1) in C2.
           intros g r' ds Hd Hr'. destruct g; [simpl in Hd; inversion Hd; congruence|]. simpl in Hd.
           destruct (dr_expr g (defs_of st) (input_data st) me args locs e) as [ra d1] eqn:Da.
           assert (Hra : ra <> OutOfFuel) by (intros ->; inversion Hd; congruence).
           pose proof (Forall_cov_grow _ _ _ _ _ _ W2 S2 (C1 _ _ _ Da Hra)) as K1'.
           pose proof (align_dr_expr _ _ _ _ _ _ _ _ _ _ (A1 ltac:(mkc)) ltac:(discriminate) ltac:(discriminate) Da Hra) as ->.
           destruct (dr_body g (defs_of st) (input_data st) me args (locs ++ [v]) more) as [rb d2] eqn:Db.
           inversion Hd; subst.
           apply Forall_app. split; [exact K1'|]. eapply C2; eauto.
        -- destruct (catchable k) eqn:Ek.
           2:{ inversion H; subst. destruct P1 as [P1|(G1 & T1 & P1)]; [now left|right].
               split; [exact G1|]. split; [exact T1|]. intros Hok Hc. destruct Hok as (? & Hok); discriminate. }
           assert (Hk1 : @Err val k <> Err KDeep) by (intros E; inversion E; subst; discriminate).
           set (st1' := upd_rolled st1 []) in *.
           destruct (eval_expr f st1' args locs (stmt_line whole idx + 3) h) as [r2 st2] eqn:E2.
           assert (Hr2 : r2 <> OutOfFuel) by (intros ->; inversion H; subst; congruence).
           assert (Hmono2 : s_reent st2 = true -> s_reent st' = true).
           { intros X. destruct r2 as [v2|k2|]; [eapply MB; eauto|inversion H; subst; exact X|congruence]. }
           destruct (s_reent st1) eqn:R1.
           { left. apply Hmono2. eapply ME; [exact E2|exact R1]. }
           destruct P1 as [P1|(G1 & T1 & P1)]; [congruence|].
           assert (G1' : Good st1') by (apply Good_upd_rolled; exact G1).
           assert (HC1 : Ctx st1' me d) by exact (Ctx_frame _ _ _ _ F1 HC).
           assert (R1' : s_reent st1' = false) by exact R1.
           assert (I1' : Inv st1') by exact I1.
           destruct (SE _ _ _ _ _ _ _ E2 Hr2 I1') as (I2 & F2 & A2).
           assert (F12 : frame st1 st2) by exact F2.
           pose proof (IHe _ _ _ _ _ _ _ me d E2 Hr2 G1' R1' HC1) as P2.
           change (s_taint st1') with (s_taint st1) in P2.
           assert (Hnc1 : nearest_cached st1' (s_stack st1') = nearest_cached st (s_stack st)).
           { rewrite <- (nc_frame _ _ F1). change (s_stack st1') with (s_stack st1). apply nearest_cached_cells. reflexivity. }
           change (defs_of st1') with (defs_of st1) in *. change (input_data st1') with (input_data st1) in *.
           rewrite D1, Q1 in A2.
           destruct r2 as [v|k2|]; [| |congruence].
           2:{ inversion H; subst. destruct P2 as [P2|(G2 & T2 & P2)]; [now left|right].
               split; [exact G2|]. split; [simpl in T2; lia|]. intros Hok Hc.
               destruct Hok as (? & Hok); discriminate. }
           destruct (s_reent st2) eqn:R2; [left; eapply MB; eauto|].
           destruct P2 as [P2|(G2 & T2 & P2)]; [congruence|].
           assert (F02 : frame st st2) by (eapply frame_trans; eauto).
           destruct (SB _ _ _ _ _ _ _ _ _ H Hr I2) as (I3 & F3 & A3).
           pose proof (IHb _ _ _ _ _ _ _ _ _ me d H Hr G2 R2 (Ctx_frame _ _ _ _ F02 HC)) as P3.
           destruct P3 as [P3|(G3 & T3 & P3)]; [now left|right]. split; [exact G3|]. split; [simpl in T2; lia|].
           intros Hok Hc. destruct (P3 Hok Hc) as (W3 & S3 & C3).
           assert (Hc2 : top_clean st2) by (eapply top_clean_mono; [exact (proj1 (proj2 F3))|exact T3|exact Hc]).
           destruct (P2 ltac:(discriminate) Hc2) as (W2 & S2 & C2).
           assert (Hc1 : top_clean st1) by (eapply top_clean_mono; [exact (proj1 (proj2 F12))|exact T2|exact Hc2]).
           destruct (P1 Hk1 Hc1) as (W1 & S1 & C1).
           split; [eapply Grow_trans; [exact W1|eapply Grow_trans; [exact W2|exact W3]]|].
           split; [eapply incl_tran; [exact S1|eapply incl_tran; [exact S2|exact S3]]|].
           destruct (frame_defs _ _ F02) as (D2 & Q2).
           rewrite D2, Q2, (nc_frame _ _ F02) in C3. rewrite D1, Q1, Hnc1 in C2.
           intros g r' ds Hd Hr'. destruct g; [simpl in Hd; inversion Hd; congruence|]. simpl in Hd.
           destruct (dr_expr g (defs_of st) (input_data st) me args locs e) as [ra d1] eqn:Da.
           assert (Hra : ra <> OutOfFuel) by (intros ->; inversion Hd; congruence).
           assert (K1' : Forall (cov_pending st' (nearest_cached st (s_stack st)) me d) d1).
           { eapply Forall_cov_grow; [exact W3|exact S3|].
             eapply Forall_cov_grow; [exact W2|exact S2|]. exact (C1 _ _ _ Da Hra). }
           pose proof (align_dr_expr _ _ _ _ _ _ _ _ _ _ (A1 ltac:(mkc)) ltac:(discriminate) Hk1 Da Hra) as ->.
           rewrite Ek in Hd.
           destruct (dr_expr g (defs_of st) (input_data st) me args locs h) as [rh d2] eqn:Dh.
           assert (Hrh : rh <> OutOfFuel) by (intros ->; inversion Hd; congruence).
           assert (K2' : Forall (cov_pending st' (nearest_cached st (s_stack st)) me d) d2).
           { eapply Forall_cov_grow; [exact W3|exact S3|]. eapply C2; eauto. }
           pose proof (align_dr_expr _ _ _ _ _ _ _ _ _ _ (A2 ltac:(mkc)) ltac:(discriminate) ltac:(discriminate) Dh Hrh) as ->.
           destruct (dr_body g (defs_of st) (input_data st) me args (locs ++ [v]) more) as [rb d3] eqn:Db.
           inversion Hd; subst.
           apply Forall_app. split; [exact K1'|]. apply Forall_app. split; [exact K2'|]. eapply C3; eauto.
      * (* SFin *)
        destruct (eval_expr f st args locs (stmt_line whole idx + 1) e) as [r1 st1] eqn:E1.
        assert (Hr1 : r1 <> OutOfFuel) by (intros ->; inversion H; subst; congruence).
        destruct (SE _ _ _ _ _ _ _ E1 Hr1 (proj1 HG)) as (I1 & F1 & A1).
        pose proof (IHe _ _ _ _ _ _ _ me d E1 Hr1 HG Hre HC) as P1.
        destruct (frame_defs _ _ F1) as (D1 & Q1).
        destruct r1 as [v|k|]; [| |congruence].
        -- destruct (eval_expr f st1 args locs (stmt_line whole idx + 3) fc) as [r2 st2] eqn:E2.
           assert (Hr2 : r2 <> OutOfFuel) by (intros ->; inversion H; subst; congruence).
           assert (Hmono2 : s_reent st2 = true -> s_reent st' = true).
           { intros X. destruct r2 as [v2|k2|]; [eapply MB; eauto|inversion H; subst; exact X|congruence]. }
           destruct (s_reent st1) eqn:R1.
           { left. apply Hmono2. eapply ME; [exact E2|exact R1]. }
           destruct P1 as [P1|(G1 & T1 & P1)]; [congruence|].
           destruct (SE _ _ _ _ _ _ _ E2 Hr2 I1) as (I2 & F2 & A2).
           pose proof (IHe _ _ _ _ _ _ _ me d E2 Hr2 G1 R1 (Ctx_frame _ _ _ _ F1 HC)) as P2.
           rewrite D1, Q1 in A2.
           destruct r2 as [w|k2|]; [| |congruence].
           2:{ inversion H; subst. destruct P2 as [P2|(G2 & T2 & P2)]; [now left|right].
               split; [exact G2|]. split; [lia|]. intros Hok Hc. destruct Hok as (? & Hok); discriminate. }
           destruct (s_reent st2) eqn:R2; [left; eapply MB; eauto|].
           destruct P2 as [P2|(G2 & T2 & P2)]; [congruence|].
           assert (F02 : frame st st2) by (eapply frame_trans; eauto).
           destruct (SB _ _ _ _ _ _ _ _ _ H Hr I2) as (I3 & F3 & A3).
           pose proof (IHb _ _ _ _ _ _ _ _ _ me d H Hr G2 R2 (Ctx_frame _ _ _ _ F02 HC)) as P3.
           destruct P3 as [P3|(G3 & T3 & P3)]; [now left|right]. split; [exact G3|]. split; [lia|].
           intros Hok Hc. destruct (P3 Hok Hc) as (W3 & S3 & C3).
           assert (Hc2 : top_clean st2) by (eapply top_clean_mono; [exact (proj1 (proj2 F3))|exact T3|exact Hc]).
           destruct (P2 ltac:(discriminate) Hc2) as (W2 & S2 & C2).
           assert (Hc1 : top_clean st1) by (eapply top_clean_mono; [exact (proj1 (proj2 F2))|exact T2|exact Hc2]).
           destruct (P1 ltac:(discriminate) Hc1) as (W1 & S1 & C1).
           split; [eapply Grow_trans; [exact W1|eapply Grow_trans; [exact W2|exact W3]]|].
           split; [eapply incl_tran; [exact S1|eapply incl_tran; [exact S2|exact S3]]|].
           destruct (frame_defs _ _ F02) as (D2 & Q2).
           rewrite D2, Q2, (nc_frame _ _ F02) in C3. rewrite D1, Q1, (nc_frame _ _ F1) in C2.
           intros g r' ds Hd Hr'. destruct g; [simpl in Hd; inversion Hd; congruence|]. simpl in Hd.
           destruct (dr_expr g (defs_of st) (input_data st) me args locs e) as [ra d1] eqn:Da.
           assert (Hra : ra <> OutOfFuel) by (intros ->; inversion Hd; congruence).
           assert (K1' : Forall (cov_pending st' (nearest_cached st (s_stack st)) me d) d1).
           { eapply Forall_cov_grow; [exact W3|exact S3|].
             eapply Forall_cov_grow; [exact W2|exact S2|]. exact (C1 _ _ _ Da Hra). }
           pose proof (align_dr_expr _ _ _ _ _ _ _ _ _ _ (A1 ltac:(mkc)) ltac:(discriminate) ltac:(discriminate) Da Hra) as ->.
           destruct (dr_expr g (defs_of st) (input_data st) me args locs fc) as [rh d2] eqn:Dh.
           assert (Hrh : rh <> OutOfFuel) by (intros ->; inversion Hd; congruence).
           assert (K2' : Forall (cov_pending st' (nearest_cached st (s_stack st)) me d) d2).
           { eapply Forall_cov_grow; [exact W3|exact S3|]. eapply C2; eauto. }
           pose proof (align_dr_expr _ _ _ _ _ _ _ _ _ _ (A2 ltac:(mkc)) ltac:(discriminate) ltac:(discriminate) Dh Hrh) as ->.
           destruct (dr_body g (defs_of st) (input_data st) me args (locs ++ [v]) more) as [rb d3] eqn:Db.
           inversion Hd; subst.
           apply Forall_app. split; [exact K1'|]. apply Forall_app. split; [exact K2'|]. eapply C3; eauto.
        -- set (st1' := upd_rolled st1 []) in *.
           destruct (eval_expr f st1' args locs (stmt_line whole idx + 3) fc) as [r2 st2] eqn:E2.
           assert (Hr2 : r2 <> OutOfFuel) by (intros ->; inversion H; subst; congruence).
           destruct (s_reent st1) eqn:R1.
           { left. pose proof (ME _ _ _ _ _ _ _ E2 R1) as X.
             destruct r2 as [w|k2|]; [inversion H; subst; exact X| |congruence].
             inversion H; subst. destruct (ekind_eqb k KDeep); exact X. }
           destruct P1 as [P1|(G1 & T1 & P1)]; [congruence|].
           assert (G1' : Good st1') by (apply Good_upd_rolled; exact G1).
           assert (HC1 : Ctx st1' me d) by exact (Ctx_frame _ _ _ _ F1 HC).
           assert (R1' : s_reent st1' = false) by exact R1.
           pose proof (IHe _ _ _ _ _ _ _ me d E2 Hr2 G1' R1' HC1) as P2.
           change (s_taint st1') with (s_taint st1) in P2.
           destruct P2 as [P2|(G2 & T2 & P2)].
           { left. destruct r2 as [w|k2|]; [inversion H; subst; exact P2| |congruence].
             inversion H; subst. destruct (ekind_eqb k KDeep); exact P2. }
           right.
           destruct r2 as [w|k2|]; [| |congruence]; inversion H; subst.
           ++ split; [apply Good_upd_rolled; exact G2|]. split; [subst st1'; simpl in *; lia|].
              intros Hok Hc. destruct Hok as (? & Hok); discriminate.
           ++ split; [destruct (ekind_eqb k KDeep); [apply Good_upd_masks|]; exact G2|].
              split; [subst st1'; destruct (ekind_eqb k KDeep); simpl in *; lia|].
              intros Hok Hc. destruct Hok as (? & Hok); discriminate.
Qed.
