(** Executable model of modelx's formula executor, value cache and dependency
    graphs: [core/system.py] (NonThreadedExecutor, CallStack, ErrorStack),
    [core/cells.py] (on_eval_formula, set_value_from_key, the clear functions),
    [core/model.py] (TraceGraph, ReferenceGraph, TraceManager).
    Definitions only.  Cells and references are identified by numbers
    (the harness keeps the table number -> space.name); name resolution is
    static in this layer. *)
From Coq Require Import List ZArith Bool Arith.
Import ListNotations.

(** * Values, keys, nodes *)
Inductive val := VInt (z : Z) | VNone.
Definition key := list val.
Definition cid := nat.
Definition rid := nat.
Definition item := (cid * key)%type.
Inductive node := NItem (c : cid) (k : key) | NObj (c : cid).

Definition val_eqb (a b : val) : bool :=
  match a, b with
  | VInt x, VInt y => Z.eqb x y
  | VNone, VNone => true
  | _, _ => false
  end.
Fixpoint key_eqb (a b : key) : bool :=
  match a, b with
  | [], [] => true
  | x :: a', y :: b' => val_eqb x y && key_eqb a' b'
  | _, _ => false
  end.
Definition item_eqb (a b : item) : bool :=
  Nat.eqb (fst a) (fst b) && key_eqb (snd a) (snd b).
Definition node_eqb (a b : node) : bool :=
  match a, b with
  | NItem c k, NItem c' k' => Nat.eqb c c' && key_eqb k k'
  | NObj c, NObj c' => Nat.eqb c c'
  | _, _ => false
  end.
Definition node_of (i : item) : node := NItem (fst i) (snd i).
Definition node_obj (n : node) : cid := match n with NItem c _ => c | NObj c => c end.

(** * Errors and results *)
Inductive ekind :=
| KValue | KKeyErr | KZero      (* ValueError KeyError ZeroDivisionError: catchable by [STry] *)
| KType                          (* TypeError *)
| KNone                          (* NoneReturnedError *)
| KDeep                          (* DeepReferenceError *)
| KName                          (* NameError / AttributeError: unknown cells or reference *)
| KBase.                         (* a BaseException that is not an Exception (KeyboardInterrupt, SystemExit) *)
Definition catchable (k : ekind) : bool :=
  match k with KValue | KKeyErr | KZero => true | _ => false end.
Definition ekind_eqb (a b : ekind) : bool :=
  match a, b with
  | KValue, KValue | KKeyErr, KKeyErr | KZero, KZero | KType, KType
  | KNone, KNone | KDeep, KDeep | KName, KName | KBase, KBase => true
  | _, _ => false
  end.

Inductive res (A : Type) := Val (a : A) | Err (k : ekind) | OutOfFuel.
Arguments Val {A} a. Arguments Err {A} k. Arguments OutOfFuel {A}.

(** * Formula language *)
Inductive binop := Add | Sub | Mul | FloorDiv.
Inductive expr :=
| EConst (v : val)
| EPar (i : nat)                  (* i-th parameter *)
| ELoc (i : nat)                  (* value of the i-th statement *)
| EBin (o : binop) (a b : expr)
| EIfPos (c t e : expr)           (* (t if c > 0 else e) *)
| ECall (c : cid) (args : list expr)
| ERefN (r : rid)                 (* reference read by name *)
| ERefA (r : rid)                 (* reference read through an attribute path *)
| ERaise (k : ekind).             (* an expression that raises k *)
Inductive stmt :=
| SAssign (e : expr)              (* t_i = e                                   : 1 line  *)
| STry (e h : expr)               (* try: t_i = e / except (V,K,Z): t_i = h    : 4 lines *)
| SFin (e c : expr).              (* try: t_i = e / finally: c (value dropped) : 4 lines *)

Record cell := mkCell {
  cl_body : list stmt;            (* the value of the last statement is returned *)
  cl_nparams : nat;
  cl_defaults : list val;         (* defaults of the trailing parameters *)
  cl_cached : bool;
  cl_allow_none : bool;
  cl_space : nat }.

(** * State *)
Record state := mkState {
  s_cells : list (cid * cell);
  s_refs : list (rid * (option nat * val));   (* owner space (None = model) and value *)
  s_data : list (item * val);
  s_inputs : list item;
  s_nodes : list node;                          (* trace graph *)
  s_edges : list (node * node);                 (* (precedent, dependent) *)
  s_rnodes : list item;                         (* item nodes present in the reference graph *)
  s_redges : list (rid * item);                 (* reference graph: reference -> reader *)
  s_stack : list item;                          (* call stack, innermost first *)
  s_refstack : list (nat * rid);                (* (depth, ref), most recent first *)
  s_rolled : list (item * nat);                 (* rolledback deque with the line, most recent (= outermost) first *)
  s_err : option (ekind * list (item * nat));   (* excinfo kind, errorstack outermost first *)
  s_log : list item;                            (* ghost: formula executions, most recent first *)
  s_maxdepth : nat;
  s_recalc : bool;
  s_reent : bool;                               (* ghost: some formula was entered while already executing *)
  s_taint : nat;                                (* CallStack.taint: the first [s_taint] frames (from the bottom) run over a failure *)
  s_masks : nat }.                              (* ghost: how often the failure of a clean-up ([SFin]) replaced the depth-limit error *)

Definition upd_data st d := mkState (s_cells st) (s_refs st) d (s_inputs st) (s_nodes st) (s_edges st) (s_rnodes st) (s_redges st) (s_stack st) (s_refstack st) (s_rolled st) (s_err st) (s_log st) (s_maxdepth st) (s_recalc st) (s_reent st) (s_taint st) (s_masks st).
Definition upd_inputs st i := mkState (s_cells st) (s_refs st) (s_data st) i (s_nodes st) (s_edges st) (s_rnodes st) (s_redges st) (s_stack st) (s_refstack st) (s_rolled st) (s_err st) (s_log st) (s_maxdepth st) (s_recalc st) (s_reent st) (s_taint st) (s_masks st).
Definition upd_graph st n e := mkState (s_cells st) (s_refs st) (s_data st) (s_inputs st) n e (s_rnodes st) (s_redges st) (s_stack st) (s_refstack st) (s_rolled st) (s_err st) (s_log st) (s_maxdepth st) (s_recalc st) (s_reent st) (s_taint st) (s_masks st).
Definition upd_rgraph st n e := mkState (s_cells st) (s_refs st) (s_data st) (s_inputs st) (s_nodes st) (s_edges st) n e (s_stack st) (s_refstack st) (s_rolled st) (s_err st) (s_log st) (s_maxdepth st) (s_recalc st) (s_reent st) (s_taint st) (s_masks st).
Definition upd_stack st s := mkState (s_cells st) (s_refs st) (s_data st) (s_inputs st) (s_nodes st) (s_edges st) (s_rnodes st) (s_redges st) s (s_refstack st) (s_rolled st) (s_err st) (s_log st) (s_maxdepth st) (s_recalc st) (s_reent st) (s_taint st) (s_masks st).
Definition upd_refstack st s := mkState (s_cells st) (s_refs st) (s_data st) (s_inputs st) (s_nodes st) (s_edges st) (s_rnodes st) (s_redges st) (s_stack st) s (s_rolled st) (s_err st) (s_log st) (s_maxdepth st) (s_recalc st) (s_reent st) (s_taint st) (s_masks st).
Definition upd_rolled st r := mkState (s_cells st) (s_refs st) (s_data st) (s_inputs st) (s_nodes st) (s_edges st) (s_rnodes st) (s_redges st) (s_stack st) (s_refstack st) r (s_err st) (s_log st) (s_maxdepth st) (s_recalc st) (s_reent st) (s_taint st) (s_masks st).
Definition upd_err st e := mkState (s_cells st) (s_refs st) (s_data st) (s_inputs st) (s_nodes st) (s_edges st) (s_rnodes st) (s_redges st) (s_stack st) (s_refstack st) (s_rolled st) e (s_log st) (s_maxdepth st) (s_recalc st) (s_reent st) (s_taint st) (s_masks st).
Definition upd_log st l := mkState (s_cells st) (s_refs st) (s_data st) (s_inputs st) (s_nodes st) (s_edges st) (s_rnodes st) (s_redges st) (s_stack st) (s_refstack st) (s_rolled st) (s_err st) l (s_maxdepth st) (s_recalc st) (s_reent st) (s_taint st) (s_masks st).
Definition upd_cells st c := mkState c (s_refs st) (s_data st) (s_inputs st) (s_nodes st) (s_edges st) (s_rnodes st) (s_redges st) (s_stack st) (s_refstack st) (s_rolled st) (s_err st) (s_log st) (s_maxdepth st) (s_recalc st) (s_reent st) (s_taint st) (s_masks st).
Definition upd_refs st r := mkState (s_cells st) r (s_data st) (s_inputs st) (s_nodes st) (s_edges st) (s_rnodes st) (s_redges st) (s_stack st) (s_refstack st) (s_rolled st) (s_err st) (s_log st) (s_maxdepth st) (s_recalc st) (s_reent st) (s_taint st) (s_masks st).
Definition upd_recalc st b := mkState (s_cells st) (s_refs st) (s_data st) (s_inputs st) (s_nodes st) (s_edges st) (s_rnodes st) (s_redges st) (s_stack st) (s_refstack st) (s_rolled st) (s_err st) (s_log st) (s_maxdepth st) b (s_reent st) (s_taint st) (s_masks st).
Definition upd_reent st b := mkState (s_cells st) (s_refs st) (s_data st) (s_inputs st) (s_nodes st) (s_edges st) (s_rnodes st) (s_redges st) (s_stack st) (s_refstack st) (s_rolled st) (s_err st) (s_log st) (s_maxdepth st) (s_recalc st) b (s_taint st) (s_masks st).
Definition upd_masks st n := mkState (s_cells st) (s_refs st) (s_data st) (s_inputs st) (s_nodes st) (s_edges st) (s_rnodes st) (s_redges st) (s_stack st) (s_refstack st) (s_rolled st) (s_err st) (s_log st) (s_maxdepth st) (s_recalc st) (s_reent st) (s_taint st) n.
Definition upd_taint st n := mkState (s_cells st) (s_refs st) (s_data st) (s_inputs st) (s_nodes st) (s_edges st) (s_rnodes st) (s_redges st) (s_stack st) (s_refstack st) (s_rolled st) (s_err st) (s_log st) (s_maxdepth st) (s_recalc st) (s_reent st) n (s_masks st).

(** * Association lists and sets *)
Fixpoint lookup_cell (l : list (cid * cell)) (c : cid) : option cell :=
  match l with [] => None | (c', x) :: t => if Nat.eqb c c' then Some x else lookup_cell t c end.
Fixpoint lookup_ref (l : list (rid * (option nat * val))) (r : rid) : option (option nat * val) :=
  match l with [] => None | (r', x) :: t => if Nat.eqb r r' then Some x else lookup_ref t r end.
Fixpoint lookup_data (l : list (item * val)) (i : item) : option val :=
  match l with [] => None | (i', x) :: t => if item_eqb i i' then Some x else lookup_data t i end.
Definition remove_data (l : list (item * val)) (i : item) : list (item * val) :=
  filter (fun p => negb (item_eqb i (fst p))) l.
Definition set_data (l : list (item * val)) (i : item) (v : val) : list (item * val) :=
  match lookup_data l i with
  | Some _ => map (fun p => if item_eqb i (fst p) then (fst p, v) else p) l
  | None => l ++ [(i, v)]
  end.
Definition mem_item (i : item) (l : list item) : bool := existsb (item_eqb i) l.
Definition mem_node (n : node) (l : list node) : bool := existsb (node_eqb n) l.
Definition add_item (i : item) (l : list item) : list item := if mem_item i l then l else l ++ [i].
Definition add_node_l (n : node) (l : list node) : list node := if mem_node n l then l else l ++ [n].
Definition edge_eqb (a b : node * node) : bool := node_eqb (fst a) (fst b) && node_eqb (snd a) (snd b).
Definition mem_edge (e : node * node) (l : list (node * node)) : bool := existsb (edge_eqb e) l.
Definition redge_eqb (a b : rid * item) : bool := Nat.eqb (fst a) (fst b) && item_eqb (snd a) (snd b).
Definition set_cell (l : list (cid * cell)) (c : cid) (x : cell) : list (cid * cell) :=
  match lookup_cell l c with
  | Some _ => map (fun p => if Nat.eqb c (fst p) then (c, x) else p) l
  | None => l ++ [(c, x)]
  end.
Definition set_ref (l : list (rid * (option nat * val))) (r : rid) (x : option nat * val) :=
  match lookup_ref l r with
  | Some _ => map (fun p => if Nat.eqb r (fst p) then (r, x) else p) l
  | None => l ++ [(r, x)]
  end.

(** * Trace graph primitives ([TraceGraph], networkx DiGraph) *)
Definition g_add_node (st : state) (n : node) : state :=
  upd_graph st (add_node_l n (s_nodes st)) (s_edges st).
Definition g_add_edge (st : state) (a b : node) : state :=
  upd_graph st (add_node_l b (add_node_l a (s_nodes st)))
            (if mem_edge (a, b) (s_edges st) then s_edges st else s_edges st ++ [(a, b)]).
Definition g_remove_nodes (st : state) (ns : list node) : state :=
  upd_graph st (filter (fun n => negb (mem_node n ns)) (s_nodes st))
            (filter (fun e => negb (mem_node (fst e) ns) && negb (mem_node (snd e) ns)) (s_edges st)).
Definition g_succs (es : list (node * node)) (n : node) : list node :=
  map snd (filter (fun e => node_eqb (fst e) n) es).
Definition g_preds (es : list (node * node)) (n : node) : list node :=
  map fst (filter (fun e => node_eqb (snd e) n) es).

(** nodes reachable from the frontier (worklist, [visited] accumulates) *)
Fixpoint reach (es : list (node * node)) (fuel : nat) (frontier visited : list node) : list node :=
  match fuel with
  | O => visited
  | S f =>
      match frontier with
      | [] => visited
      | n :: rest =>
          if mem_node n visited then reach es f rest visited
          else reach es f (g_succs es n ++ rest) (visited ++ [n])
      end
  end.
(** fuel: every step either consumes a frontier element that is visited or
    visits a new node; |nodes| + |edges| + |frontier| + 1 steps suffice *)
Definition reach_fuel (st : state) : nat :=
  S (List.length (s_nodes st) + List.length (s_edges st) + List.length (s_edges st)).
(** [nx.descendants(g, n)] plus [n] itself *)
Definition descs_with (st : state) (n : node) : list node :=
  reach (s_edges st) (reach_fuel st) [n] [].

(** * Reference graph *)
Definition rg_remove_items (st : state) (is_ : list item) : state :=
  upd_rgraph st (filter (fun i => negb (mem_item i is_)) (s_rnodes st))
             (filter (fun e => negb (mem_item (snd e) is_)) (s_redges st)).
(** [remove_with_referred]: remove the item nodes (their edges go with them);
    reference nodes that become isolated disappear implicitly because
    reference nodes are represented by their edges only *)
Definition rg_remove_with_referred (st : state) (ns : list node) : state :=
  let items := flat_map (fun n => match n with NItem c k => [(c, k)] | NObj _ => [] end) ns in
  rg_remove_items st items.
Definition rg_add_edge (st : state) (r : rid) (i : item) : state :=
  upd_rgraph st (add_item i (s_rnodes st))
             (if existsb (redge_eqb (r, i)) (s_redges st) then s_redges st else s_redges st ++ [(r, i)]).
Definition rg_readers (st : state) (r : rid) : list item :=
  map snd (filter (fun e => Nat.eqb (fst e) r) (s_redges st)).

(** * Clearing ([TraceManager]) *)
Definition on_clear_trace (st : state) (n : node) : state :=
  match n with
  | NItem c k =>
      upd_inputs (upd_data st (remove_data (s_data st) (c, k)))
                 (filter (fun i => negb (item_eqb (c, k) i)) (s_inputs st))
  | NObj _ => st
  end.

(** [clear_with_descs]: nothing happens when the node is not in the graph *)
Definition clear_with_descs (st : state) (n : node) : state :=
  if mem_node n (s_nodes st) then
    let removed := descs_with st n in
    let st1 := g_remove_nodes st removed in
    let st2 := rg_remove_with_referred st1 removed in
    fold_left on_clear_trace removed st2
  else st.

(** [clear_obj]: all nodes of the object (item nodes and the object node) with descendants *)
Definition nodes_of_obj (st : state) (c : cid) : list node :=
  filter (fun n => Nat.eqb (node_obj n) c) (s_nodes st).
Definition clear_obj (st : state) (c : cid) : state :=
  fold_left clear_with_descs (nodes_of_obj st c) st.

(** [clear_attr_referrers ref]: the readers of the reference with their trace
    descendants, exactly as [clear_with_descs] clears them (the reference
    graph forgets every cleared element); the reference itself and its
    readers leave the reference graph.
    (The code prunes the reference and its readers first and clears afterwards;
    removals commute, so the order is immaterial.) *)
Definition clear_reader (s : state) (i : item) : state := clear_with_descs s (node_of i).
Definition clear_attr_referrers (st : state) (r : rid) : state :=
  let readers := rg_readers st r in
  let st1 := fold_left clear_reader readers st in
  upd_rgraph st1 (filter (fun i => negb (mem_item i readers)) (s_rnodes st1))
             (filter (fun e => negb (Nat.eqb (fst e) r) && negb (mem_item (snd e) readers)) (s_redges st1)).

Definition has_data (st : state) (i : item) : bool :=
  match lookup_data (s_data st) i with Some _ => true | None => false end.

(** [clear_value_at key clear_input] *)
Definition clear_value_at (st : state) (i : item) (clear_input : bool) : state :=
  if has_data st i then
    if clear_input || negb (mem_item i (s_inputs st)) then clear_with_descs st (node_of i) else st
  else st.
(** [clear_all_values clear_input] of one cells: over a snapshot of its keys *)
Definition keys_of (st : state) (c : cid) : list item :=
  filter (fun i => Nat.eqb (fst i) c) (map fst (s_data st)).
Definition clear_all_values (st : state) (c : cid) (clear_input : bool) : state :=
  fold_left (fun s i => clear_value_at s i clear_input) (keys_of st c) st.

(** [on_namespace_change] of a cells (cached: clear computed values;
    uncached: clear the object node and what was computed through it) *)
Definition on_namespace_change (st : state) (c : cid) : state :=
  match lookup_cell (s_cells st) c with
  | Some cl => if cl_cached cl then clear_all_values st c false else clear_obj st c
  | None => st
  end.

(** * Call stack *)
Definition is_cached (st : state) (c : cid) : bool :=
  match lookup_cell (s_cells st) c with Some cl => cl_cached cl | None => false end.
(** nearest cached frame at or below the top of [stk] (innermost first) *)
Fixpoint nearest_cached (st : state) (stk : list item) : option item :=
  match stk with
  | [] => None
  | i :: rest => if is_cached st (fst i) then Some i else nearest_cached st rest
  end.

(** [CallStack.pop] for the top frame [i] *)
Fixpoint pop_refs (st : state) (depth : nat) (i : item) (rs : list (nat * rid)) : state * list (nat * rid) :=
  match rs with
  | (d, r) :: rest =>
      if Nat.eqb d depth then pop_refs (rg_add_edge st r i) depth i rest
      else (st, rs)
  | [] => (st, [])
  end.
Fixpoint drop_refs (depth : nat) (rs : list (nat * rid)) : list (nat * rid) :=
  match rs with
  | (d, r) :: rest => if Nat.eqb d depth then drop_refs depth rest else rs
  | [] => []
  end.

(** pending attribute reads of an uncached frame are handed over to the
    calling frame (their depth is lowered by one, order kept) *)
Fixpoint move_refs (depth : nat) (rs : list (nat * rid)) : list (nat * rid) :=
  match rs with
  | (d, r) :: rest => if Nat.eqb d depth then (depth - 1, r) :: move_refs depth rest else rs
  | [] => []
  end.

(** references read through attributes by frame [i] become reference-graph
    edges to [i] when it is cached; an uncached frame hands them to its
    caller; with no caller they are dropped *)
Definition pop_frame (st : state) : state :=
  match s_stack st with
  | [] => st
  | i :: rest =>
      let cached := is_cached st (fst i) in
      let st1 := upd_stack st rest in
      let st2 :=
        match nearest_cached st1 rest with
        | Some caller =>
            if cached then g_add_edge st1 (node_of i) (node_of caller)
            else g_add_edge st1 (NObj (fst i)) (node_of caller)
        | None => if cached then g_add_node st1 (node_of i) else st1
        end in
      let depth := List.length rest in
      if cached then
        let (st3, rs) := pop_refs st2 depth i (s_refstack st2) in upd_refstack st3 rs
      else
        match rest with
        | [] => upd_refstack st2 (drop_refs depth (s_refstack st2))
        | _ :: _ => upd_refstack st2 (move_refs depth (s_refstack st2))
        end
  end.

Definition rollback_frame (st : state) (line : nat) : state :=
  match s_stack st with
  | [] => st
  | i :: rest =>
      (* every formula still executing runs over this failure from now on *)
      let st1 := upd_rolled (upd_stack (upd_taint st (List.length rest)) rest) ((i, line) :: s_rolled st) in
      let st2 := if mem_node (node_of i) (s_nodes st1) then g_remove_nodes st1 [node_of i] else st1 in
      upd_refstack st2 (drop_refs (List.length rest) (s_refstack st2))
  end.

(** [CallStack._pop_tainted]: a failure occurred under the formula on top of
    the stack (it handled it): the value is returned but not kept, the node
    leaves the graph as in a rollback; nothing is recorded for a traceback *)
Definition pop_tainted (st : state) : state := upd_rolled (rollback_frame st 0) (s_rolled st).
Definition tainted (st : state) : bool := Nat.leb (List.length (s_stack st)) (s_taint st).

(** * Expression evaluation *)
Definition arith (o : binop) (a b : val) : res val :=
  match a, b with
  | VInt x, VInt y =>
      match o with
      | Add => Val (VInt (x + y))
      | Sub => Val (VInt (x - y))
      | Mul => Val (VInt (x * y))
      | FloorDiv => if Z.eqb y 0 then Err KZero else Val (VInt (x / y))
      end
  | _, _ => Err KType
  end.

(** positional call inside a formula: missing trailing arguments take their defaults *)
Definition bind_pos (cl : cell) (args : list val) : option key :=
  let n := List.length args in
  let np := cl_nparams cl in
  let nd := List.length (cl_defaults cl) in
  if Nat.leb n np && Nat.leb (np - nd) n
  then Some (args ++ skipn (n - (np - nd)) (cl_defaults cl))
  else None.

(** line of statement [i] (line 1 is the def line, line 2 the harness's execution-log call) *)
Fixpoint stmt_line (body : list stmt) (i : nat) : nat :=
  match i, body with
  | O, _ => 3
  | S j, SAssign _ :: t => 1 + stmt_line t j
  | S j, STry _ _ :: t => 4 + stmt_line t j
  | S j, SFin _ _ :: t => 4 + stmt_line t j
  | S j, [] => 3
  end.

Definition store_value (st : state) (cl : cell) (i : item) (v : val) : res val * state :=
  match v with
  | VNone => if cl_allow_none cl then (Val v, upd_data st (set_data (s_data st) i v)) else (Err KNone, st)
  | _ => (Val v, upd_data st (set_data (s_data st) i v))
  end.

Fixpoint eval_expr (fuel : nat) (st : state) (args : key) (locs : list val) (line : nat) (e : expr)
  {struct fuel} : res val * state :=
  match fuel with
  | O => (OutOfFuel, st)
  | S f =>
      match e with
      | EConst v => (Val v, st)
      | EPar i => (match nth_error args i with Some v => Val v | None => Err KName end, st)
      | ELoc i => (match nth_error locs i with Some v => Val v | None => Err KName end, st)
      | EBin o a b =>
          match eval_expr f st args locs line a with
          | (Val va, st1) =>
              match eval_expr f st1 args locs line b with
              | (Val vb, st2) => (arith o va vb, st2)
              | r => r
              end
          | r => r
          end
      | EIfPos c t e' =>
          match eval_expr f st args locs line c with
          | (Val (VInt z), st1) =>
              if Z.ltb 0 z then eval_expr f st1 args locs line t else eval_expr f st1 args locs line e'
          | (Val VNone, st1) => (Err KType, st1)
          | r => r
          end
      | ECall c es =>
          match eval_args f st args locs line es with
          | (Val vs, st1) =>
              match lookup_cell (s_cells st1) c with
              | None => (Err KName, st1)
              | Some cl =>
                  match bind_pos cl vs with
                  | None => (Err KType, st1)
                  | Some k => eval_node f st1 line (c, k)
                  end
              end
          | (Err k, st1) => (Err k, st1)
          | (OutOfFuel, st1) => (OutOfFuel, st1)
          end
      | ERefN r =>
          (match lookup_ref (s_refs st) r with Some (_, v) => Val v | None => Err KName end, st)
      | ERefA r =>
          match lookup_ref (s_refs st) r with
          | Some (_, v) =>
              (Val v, upd_refstack st ((List.length (s_stack st) - 1, r) :: s_refstack st))
          | None => (Err KName, st)
          end
      | ERaise k => (Err k, st)
      end
  end
with eval_args (fuel : nat) (st : state) (args : key) (locs : list val) (line : nat) (es : list expr)
  {struct fuel} : res (list val) * state :=
  match fuel with
  | O => (OutOfFuel, st)
  | S f =>
      match es with
      | [] => (Val [], st)
      | e :: rest =>
          match eval_expr f st args locs line e with
          | (Val v, st1) =>
              match eval_args f st1 args locs line rest with
              | (Val vs, st2) => (Val (v :: vs), st2)
              | r => r
              end
          | (Err k, st1) => (Err k, st1)
          | (OutOfFuel, st1) => (OutOfFuel, st1)
          end
      end
  end
(** [executor.eval_node] while a formula is executing; [line] is the line of the
    calling frame (recorded when that frame is rolled back) *)
with eval_node (fuel : nat) (st : state) (line : nat) (i : item) {struct fuel} : res val * state :=
  match fuel with
  | O => (OutOfFuel, st)
  | S f =>
      match lookup_cell (s_cells st) (fst i) with
      | None => (Err KName, st)
      | Some cl =>
          match (if cl_cached cl then lookup_data (s_data st) i else None) with
          | Some v =>
              (Val v, match nearest_cached st (s_stack st) with
                      | Some caller => g_add_edge st (node_of i) (node_of caller)
                      | None => st
                      end)
          | None => eval_formula f st cl i
          end
      end
  end
(** [_eval_formula]: append / on_eval_formula / pop or rollback *)
with eval_formula (fuel : nat) (st : state) (cl : cell) (i : item) {struct fuel} : res val * state :=
  match fuel with
  | O => (OutOfFuel, st)
  | S f =>
      if Nat.ltb (s_maxdepth st) (List.length (s_stack st)) then (Err KDeep, st)
      else
        let st1 := upd_reent (upd_log (upd_stack st (i :: s_stack st)) (i :: s_log st))
                             (s_reent st || mem_item i (s_stack st)) in
        match exec_body f st1 (snd i) [] (cl_body cl) (cl_body cl) 0 with
        | (Val v, st2, _) =>
            if tainted st2 then
              match v with
              | VNone => if cl_allow_none cl then (Val v, pop_tainted st2) else (Err KNone, rollback_frame st2 0)
              | _ => (Val v, pop_tainted st2)
              end
            else
            if cl_cached cl then
              match store_value st2 cl i v with
              | (Val v', st3) => (Val v', pop_frame st3)
              | (Err k, st3) => (Err k, rollback_frame st3 0)
              | (OutOfFuel, st3) => (OutOfFuel, st3)
              end
            else
              (* the None check applies to uncached cells as well (fix 008a3ab) *)
              match v with
              | VNone => if cl_allow_none cl then (Val v, pop_frame st2) else (Err KNone, rollback_frame st2 0)
              | _ => (Val v, pop_frame st2)
              end
        | (Err k, st2, ln) => (Err k, rollback_frame st2 ln)
        | (OutOfFuel, st2, _) => (OutOfFuel, st2)
        end
  end
(** statements; returns the value of the last one; on error also the line *)
with exec_body (fuel : nat) (st : state) (args : key) (locs : list val) (whole rest : list stmt) (idx : nat)
  {struct fuel} : res val * state * nat :=
  match fuel with
  | O => (OutOfFuel, st, 0)
  | S f =>
      match rest with
      | [] => (match last locs VNone with v => Val v end, st, 0)
      | SAssign e :: more =>
          let ln := stmt_line whole idx in
          match eval_expr f st args locs ln e with
          | (Val v, st1) => exec_body f st1 args (locs ++ [v]) whole more (S idx)
          | (Err k, st1) => (Err k, st1, ln)
          | (OutOfFuel, st1) => (OutOfFuel, st1, 0)
          end
      | STry e h :: more =>
          let ln := stmt_line whole idx in
          match eval_expr f st args locs (ln + 1) e with
          | (Val v, st1) => exec_body f st1 args (locs ++ [v]) whole more (S idx)
          | (Err k, st1) =>
              if catchable k then
                (* the exception is handled: the nodes it rolled back are
                   not part of any later traceback *)
                match eval_expr f (upd_rolled st1 []) args locs (ln + 3) h with
                | (Val v, st2) => exec_body f st2 args (locs ++ [v]) whole more (S idx)
                | (Err k2, st2) => (Err k2, st2, ln + 3)
                | (OutOfFuel, st2) => (OutOfFuel, st2, 0)
                end
              else (Err k, st1, ln + 1)
          | (OutOfFuel, st1) => (OutOfFuel, st1, 0)
          end
      | SFin e c :: more =>
          let ln := stmt_line whole idx in
          match eval_expr f st args locs (ln + 1) e with
          | (Val v, st1) =>
              (* no failure is pending: the clean-up runs as a statement whose value is dropped *)
              match eval_expr f st1 args locs (ln + 3) c with
              | (Val _, st2) => exec_body f st2 args (locs ++ [v]) whole more (S idx)
              | (Err k2, st2) => (Err k2, st2, ln + 3)
              | (OutOfFuel, st2) => (OutOfFuel, st2, 0)
              end
          | (Err k, st1) =>
              (* the failure stays pending while the clean-up runs ([executor.failures]
                 keeps the rolled back nodes per exception): failures caught below the
                 clean-up have lists of their own; when the clean-up completes, the pending
                 failure goes on with its nodes; when it fails, its failure replaces the
                 pending one, whose nodes are forgotten.  The frame is tainted exactly when
                 the failure of [e] came up from a formula below (in the state) *)
              match eval_expr f (upd_rolled st1 []) args locs (ln + 3) c with
              | (Val _, st2) => (Err k, upd_rolled st2 (s_rolled st1), ln + 1)
              | (Err k2, st2) =>
                  (* ghost: the depth-limit error does not reach the request when it is replaced *)
                  (Err k2, (if ekind_eqb k KDeep then upd_masks st2 (S (s_masks st2)) else st2), ln + 3)
              | (OutOfFuel, st2) => (OutOfFuel, st2, 0)
              end
          | (OutOfFuel, st1) => (OutOfFuel, st1, 0)
          end
      end
  end.

(** * Top level ([_start_exec], [eval_node] with an empty stack) *)
Definition eval_top (fuel : nat) (st : state) (i : item) : res val * state :=
  match lookup_cell (s_cells st) (fst i) with
  | None => (Err KName, st)
  | Some cl =>
      match (if cl_cached cl then lookup_data (s_data st) i else None) with
      | Some v => (Val v, st)
      | None =>
          (* nothing is executing: CallStack.taint is 0 (kept so by pop / rollback; made explicit here) *)
          let st0 := upd_taint (upd_rolled (upd_err st None) []) 0 in
          match eval_formula fuel st0 cl i with
          | (Val v, st1) => (Val v, st1)
          | (Err k, st1) =>
              (Err k, upd_rolled (upd_err st1 (Some (k, s_rolled st1))) [])
          | (OutOfFuel, st1) => (OutOfFuel, st1)
          end
      end
  end.

(** * Value edits ([set_value_from_key] outside formulas, clearing) *)
Definition leaf_descs (st : state) (n : node) : list node :=
  if mem_node n (s_nodes st) then
    filter (fun m => negb (node_eqb m n) &&
                     match g_succs (s_edges st) m with [] => true | _ => false end)
           (descs_with st n)
  else [].

(** recalculation stops at the first failing target (the exception leaves [set_value]) *)
Fixpoint recalc_all (fuel : nat) (st : state) (ns : list node) : res unit * state :=
  match ns with
  | [] => (Val tt, st)
  | NItem c k :: rest =>
      match eval_top fuel st (c, k) with
      | (Val _, st1) => recalc_all fuel st1 rest
      | (Err e, st1) => (Err e, st1)
      | (OutOfFuel, st1) => (OutOfFuel, st1)
      end
  | NObj _ :: rest => recalc_all fuel st rest
  end.

Inductive out := OVal (v : val) | OErr (k : ekind) | OOk | ORejected | OFuel.

Definition out_of_recalc (r : res unit * state) : out * state :=
  match r with
  | (Val _, st) => (OOk, st)
  | (Err e, st) => (OErr e, st)
  | (OutOfFuel, st) => (OFuel, st)
  end.

Definition set_value (fuel : nat) (st : state) (i : item) (v : val) : out * state :=
  match lookup_cell (s_cells st) (fst i) with
  | None => (ORejected, st)
  | Some cl =>
      if negb (cl_cached cl) then (ORejected, st)
      else if negb (Nat.eqb (List.length (snd i)) (cl_nparams cl)) then (ORejected, st)
      else if (match v with VNone => negb (cl_allow_none cl) | _ => false end) then (ORejected, st)
      else
        let targets := if s_recalc st then leaf_descs st (node_of i) else [] in
        let st1 := clear_value_at st i true in
        let st2 := upd_data st1 (set_data (s_data st1) i v) in
        let st3 := upd_inputs (g_add_node st2 (node_of i)) (add_item i (s_inputs st2)) in
        out_of_recalc (recalc_all fuel st3 targets)
  end.

(** * Definition edits *)
Definition cells_in_space (st : state) (sp : option nat) : list cid :=
  map fst (filter (fun p => match sp with
                            | None => true
                            | Some s => Nat.eqb (cl_space (snd p)) s
                            end) (s_cells st)).

(** [change_ref]: [RefDict.del_item] first clears the readers through
    attributes, then the containers notify every cells whose namespace shows
    the reference.  (The new value is stored first in the code; clearing never
    reads reference values, so storing it last gives the same state.) *)
Definition set_ref_value (st : state) (r : rid) (v : val) : out * state :=
  match lookup_ref (s_refs st) r with
  | None => (ORejected, st)
  | Some (sp, _) =>
      let st2 := clear_attr_referrers st r in
      let st3 := fold_left on_namespace_change (cells_in_space st2 sp) st2 in
      (OOk, upd_refs st3 (set_ref (s_refs st3) r (sp, v)))
  end.

(** [set_cells_formula] / [set_cache] on a cells without sub spaces *)
Definition set_formula (st : state) (c : cid) (body : list stmt) (np : nat) (defs : list val) : out * state :=
  match lookup_cell (s_cells st) c with
  | None => (ORejected, st)
  | Some cl =>
      let st1 := clear_obj st c in
      (OOk, upd_cells st1 (set_cell (s_cells st1) c
              (mkCell body np defs (cl_cached cl) (cl_allow_none cl) (cl_space cl))))
  end.
Definition set_cached (st : state) (c : cid) (b : bool) : out * state :=
  match lookup_cell (s_cells st) c with
  | None => (ORejected, st)
  | Some cl =>
      if Bool.eqb (cl_cached cl) b then (OOk, st)
      else
        let st1 := clear_obj st c in
        (OOk, upd_cells st1 (set_cell (s_cells st1) c
                (mkCell (cl_body cl) (cl_nparams cl) (cl_defaults cl) b (cl_allow_none cl) (cl_space cl))))
  end.

(** * Operations *)
Inductive op :=
| OpEval (i : item)
| OpSetValue (i : item) (v : val)
| OpClearAt (i : item)
| OpClear (c : cid)               (* cells.clear(): computed values only *)
| OpClearAll (c : cid)            (* cells.clear_all(): inputs too *)
| OpSetFormula (c : cid) (body : list stmt) (np : nat) (defs : list val)
| OpSetCached (c : cid) (b : bool)
| OpSetRef (r : rid) (v : val)
| OpSetRecalc (b : bool).

Definition step (fuel : nat) (st : state) (o : op) : out * state :=
  match o with
  | OpEval i =>
      match eval_top fuel st i with
      | (Val v, st') => (OVal v, st')
      | (Err k, st') => (OErr k, st')
      | (OutOfFuel, st') => (OFuel, st')
      end
  | OpSetValue i v => set_value fuel st i v
  | OpClearAt i => (OOk, clear_value_at st i true)
  | OpClear c => (OOk, clear_all_values st c false)
  | OpClearAll c => (OOk, clear_all_values st c true)
  | OpSetFormula c b np d => set_formula st c b np d
  | OpSetCached c b => set_cached st c b
  | OpSetRef r v => set_ref_value st r v
  | OpSetRecalc b => (OOk, upd_recalc st b)
  end.

Definition init (cells : list (cid * cell)) (refs : list (rid * (option nat * val))) (maxdepth : nat) : state :=
  mkState cells refs [] [] [] [] [] [] [] [] [] None [] maxdepth false false 0 0.

Fixpoint run (fuel : nat) (st : state) (ops : list op) : list out * state :=
  match ops with
  | [] => ([], st)
  | o :: rest =>
      let (x, st1) := step fuel st o in
      let (xs, st2) := run fuel st1 rest in
      (x :: xs, st2)
  end.
