(** C02, differential form: the definitions and the user-assigned values of
    the model evolve by the edits alone — evaluations, cache hits and failed
    evaluations in between leave no trace on them.  Hence two histories with
    the same edits answer every request alike; in particular a history and
    its replay without any evaluation. *)
From Coq Require Import List ZArith Bool Arith Lia.
From MX Require Import Exec.Model Exec.Spec Exec.Basics Exec.SpecMono Exec.Sim Exec.Top Exec.Graph
  Exec.Reads Exec.Cover Exec.Quiet Exec.Edits Exec.Edits2 Exec.Edits3 Exec.Edits4 Exec.Edits5 Exec.Edits6 Exec.Rg.
Import ListNotations.

(** * The specification depends on the inputs only through lookups *)
Definition same_inp (a b : list (item * val)) : Prop := forall i, lookup_data a i = lookup_data b i.

Lemma sp_ext D a b : same_inp a b -> forall f,
  (forall args locs e, sp_expr f D a args locs e = sp_expr f D b args locs e) /\
  (forall args locs es, sp_args f D a args locs es = sp_args f D b args locs es) /\
  (forall i, sp_node f D a i = sp_node f D b i) /\
  (forall args locs rest, sp_body f D a args locs rest = sp_body f D b args locs rest).
Proof.
  intros Hab. induction f as [|f (IHe & IHa & IHn & IHb)]; [repeat split; reflexivity|].
  repeat split.
  - intros args locs e. destruct e; simpl; try reflexivity.
    + rewrite (IHe args locs e1), (IHe args locs e2). reflexivity.
    + rewrite (IHe args locs e1), (IHe args locs e2), (IHe args locs e3). reflexivity.
    + rewrite (IHa args locs args0). destruct (sp_args f D b args locs args0) as [vs|k|]; try reflexivity.
      destruct (lookup_cell (fst D) c) as [cl|]; [|reflexivity].
      destruct (bind_pos cl vs); [apply IHn|reflexivity].
  - intros args locs es. destruct es as [|e rest]; simpl; [reflexivity|].
    now rewrite (IHe args locs e), (IHa args locs rest).
  - intros i. simpl. destruct (lookup_cell (fst D) (fst i)) as [cl|]; [|reflexivity].
    rewrite (Hab i), (IHb (snd i) [] (cl_body cl)). reflexivity.
  - intros args locs rest. destruct rest as [|s more]; simpl; [reflexivity|].
    destruct s as [e|e h|e c].
    + rewrite (IHe args locs e). destruct (sp_expr f D b args locs e); try reflexivity. apply IHb.
    + rewrite (IHe args locs e). destruct (sp_expr f D b args locs e); try reflexivity; [apply IHb|].
      destruct (catchable k); [|reflexivity].
      rewrite (IHe args locs h). destruct (sp_expr f D b args locs h); try reflexivity. apply IHb.
    + rewrite (IHe args locs e), (IHe args locs c).
      destruct (sp_expr f D b args locs e); try reflexivity;
        destruct (sp_expr f D b args locs c); try reflexivity. apply IHb.
Qed.

(** * The abstract model: definitions and inputs under one operation *)
Definition ainp (st : state) : item -> option val := fun i => lookup_data (input_data st) i.

Definition accepts (cells : list (cid * cell)) (i : item) (v : val) : bool :=
  match lookup_cell cells (fst i) with
  | None => false
  | Some cl =>
      cl_cached cl && Nat.eqb (List.length (snd i)) (cl_nparams cl) &&
      negb (match v with VNone => negb (cl_allow_none cl) | _ => false end)
  end.

(** which cells lose *all* their values (inputs included) *)
Definition resets (cells : list (cid * cell)) (o : op) (c : cid) : bool :=
  match o with
  | OpClearAll c' => Nat.eqb c c'
  | OpSetFormula c' _ _ _ => Nat.eqb c c' && match lookup_cell cells c' with Some _ => true | None => false end
  | OpSetCached c' b =>
      Nat.eqb c c' && match lookup_cell cells c' with Some cl => negb (Bool.eqb (cl_cached cl) b) | None => false end
  | _ => false
  end.

Definition ainp_step (D : defs) (o : op) (f : item -> option val) : item -> option val :=
  fun i =>
    match o with
    | OpSetValue j v => if accepts (fst D) j v && item_eqb i j then Some v else f i
    | OpClearAt j => if item_eqb i j then None else f i
    | _ => if resets (fst D) o (fst i) then None else f i
    end.

Definition adefs (D : defs) (o : op) : defs :=
  match o with
  | OpSetFormula c body np dflt =>
      match lookup_cell (fst D) c with
      | Some cl => (set_cell (fst D) c (mkCell body np dflt (cl_cached cl) (cl_allow_none cl) (cl_space cl)), snd D)
      | None => D
      end
  | OpSetCached c b =>
      match lookup_cell (fst D) c with
      | Some cl =>
          if Bool.eqb (cl_cached cl) b then D
          else (set_cell (fst D) c (mkCell (cl_body cl) (cl_nparams cl) (cl_defaults cl) b (cl_allow_none cl) (cl_space cl)),
                snd D)
      | None => D
      end
  | OpSetRef r v =>
      match lookup_ref (snd D) r with
      | Some (sp, _) => (fst D, set_ref (snd D) r (sp, v))
      | None => D
      end
  | _ => D
  end.

(** a history, abstractly: only its edits matter *)
Fixpoint arun_defs (ops : list op) (D : defs) : defs :=
  match ops with [] => D | o :: t => arun_defs t (adefs D o) end.
Fixpoint arun_inp (ops : list op) (D : defs) (f : item -> option val) : item -> option val :=
  match ops with [] => f | o :: t => arun_inp t (adefs D o) (ainp_step D o f) end.

Definition edits (ops : list op) : list op := filter (fun o => negb (is_eval o)) ops.

Lemma adefs_eval D o : is_eval o = true -> adefs D o = D.
Proof. destruct o; simpl; intros; try discriminate; reflexivity. Qed.
Lemma ainp_step_eval D o f i : is_eval o = true -> ainp_step D o f i = f i.
Proof. destruct o; simpl; intros; try discriminate; reflexivity. Qed.

Lemma ainp_step_ext D o f g : (forall i, f i = g i) -> forall i, ainp_step D o f i = ainp_step D o g i.
Proof. intros E i. unfold ainp_step. destruct o; rewrite ?E; reflexivity. Qed.

Lemma arun_inp_ext ops : forall D f g, (forall i, f i = g i) -> forall i, arun_inp ops D f i = arun_inp ops D g i.
Proof.
  induction ops as [|o t IH]; intros D f g E i; simpl; [apply E|].
  apply IH. now apply ainp_step_ext.
Qed.

Lemma arun_defs_edits ops : forall D, arun_defs (edits ops) D = arun_defs ops D.
Proof.
  induction ops as [|o t IH]; intros D; simpl; [reflexivity|].
  destruct (is_eval o) eqn:E; simpl; [rewrite (adefs_eval _ _ E); apply IH|apply IH].
Qed.
Lemma arun_inp_edits ops : forall D f i, arun_inp (edits ops) D f i = arun_inp ops D f i.
Proof.
  induction ops as [|o t IH]; intros D f i; simpl; [reflexivity|].
  destruct (is_eval o) eqn:E; simpl.
  - rewrite (adefs_eval _ _ E), IH. apply arun_inp_ext. intros j. now rewrite (ainp_step_eval _ _ _ _ E).
  - apply IH.
Qed.

(** admissibility of the edits (the hypotheses of C02), on definitions only *)
Definition op_ok_d (D : defs) (o : op) : Prop :=
  match o with
  | OpSetFormula c b _ _ =>
      forall cl r sp v, lookup_cell (fst D) c = Some cl -> refn_body b r = true ->
                        lookup_ref (snd D) r = Some (Some sp, v) -> cl_space cl = sp
  | _ => True
  end.
Fixpoint aops_ok (D : defs) (ops : list op) : Prop :=
  match ops with [] => True | o :: t => op_ok_d D o /\ aops_ok (adefs D o) t end.

Lemma op_ok2_d st o : op_ok2 st o <-> op_ok_d (defs_of st) o.
Proof. destruct o; simpl; tauto. Qed.

Lemma aops_ok_edits ops : forall D, aops_ok D (edits ops) <-> aops_ok D ops.
Proof.
  induction ops as [|o t IH]; intros D; simpl; [tauto|].
  destruct (is_eval o) eqn:E; simpl.
  - rewrite (adefs_eval _ _ E), IH. destruct o; simpl in *; try discriminate. tauto.
  - rewrite IH. tauto.
Qed.

(** * What clearing does to the inputs *)
Lemma path_last es a b : path es a b -> a = b \/ exists c, In (c, b) es.
Proof.
  induction 1 as [a|a b c E P IH]; [now left|right].
  destruct IH as [->|X]; [now exists a|exact X].
Qed.

Lemma node_of_inj i j : node_of i = node_of j -> i = j.
Proof. destruct i, j. unfold node_of. simpl. intros H. inversion H. reflexivity. Qed.

Lemma node_eqb_node_of i j : node_eqb (node_of i) (node_of j) = item_eqb i j.
Proof.
  destruct (item_eqb i j) eqn:E.
  - apply item_eqb_eq in E. subst. apply node_eqb_refl.
  - destruct (node_eqb (node_of i) (node_of j)) eqn:E2; [|reflexivity].
    apply node_eqb_eq, node_of_inj in E2. apply item_eqb_neq in E. congruence.
Qed.

Lemma ainp_not_input st i : mem_item i (s_inputs st) = false -> ainp st i = None.
Proof. intros H. unfold ainp. now rewrite lookup_input_data, H. Qed.

Lemma ainp_no_node st i : Quiet st -> ~ In (node_of i) (s_nodes st) -> ainp st i = None.
Proof.
  intros ((HI & C & _) & _) Hn. unfold ainp. rewrite lookup_input_data.
  destruct (mem_item i (s_inputs st)) eqn:Hm; [|reflexivity].
  destruct (lookup_data (s_data st) i) eqn:Hd; [|reflexivity].
  exfalso. apply Hn. apply (cv_node _ C). unfold has. congruence.
Qed.

(** clearing a node with its descendants removes at most the input at that node *)
Lemma cwd_ainp st n i :
  Quiet st -> ainp (clear_with_descs st n) i = if node_eqb (node_of i) n then None else ainp st i.
Proof.
  intros Q. destruct (mem_node n (s_nodes st)) eqn:Hm.
  - pose proof (clear_with_descs_Cleared st n Hm) as CL.
    unfold ainp. rewrite !lookup_input_data, (cl_inputs _ _ _ CL), (cl_data _ _ _ CL).
    destruct (mem_item i (s_inputs st)) eqn:Hi; cbn [andb].
    2:{ now destruct (node_eqb (node_of i) n). }
    destruct (node_eqb (node_of i) n) eqn:En.
    + apply node_eqb_eq in En. subst n.
      assert (mem_node (node_of i) (descs_with st (node_of i)) = true) as ->
          by (apply mem_node_In, descs_with_self). reflexivity.
    + destruct (mem_node (node_of i) (descs_with st n)) eqn:Hr; [|reflexivity]. exfalso.
      apply mem_node_In, descs_with_spec, path_last in Hr. destruct Hr as [->|(a & Ha)].
      * rewrite node_eqb_refl in En. discriminate.
      * destruct Q as ((_ & C & _) & _). rewrite (cv_input _ C a i Ha) in Hi. discriminate.
  - unfold clear_with_descs. rewrite Hm.
    destruct (node_eqb (node_of i) n) eqn:En; [|reflexivity].
    apply node_eqb_eq in En. subst n. apply ainp_no_node; [exact Q|].
    intros X. apply mem_node_In in X. congruence.
Qed.

Lemma cva_true_ainp st j i :
  Quiet st -> ainp (clear_value_at st j true) i = if item_eqb i j then None else ainp st i.
Proof.
  intros Q. unfold clear_value_at. destruct (has_data st j) eqn:Hd; simpl.
  - rewrite cwd_ainp, node_eqb_node_of; [reflexivity|exact Q].
  - destruct (item_eqb i j) eqn:E; [|reflexivity]. apply item_eqb_eq in E. subst j.
    unfold ainp. rewrite lookup_input_data. unfold has_data in Hd.
    destruct (lookup_data (s_data st) i); [discriminate|]. now destruct (mem_item i (s_inputs st)).
Qed.

Lemma cva_false_ainp st j i : Quiet st -> ainp (clear_value_at st j false) i = ainp st i.
Proof.
  intros Q. unfold clear_value_at. destruct (has_data st j); [|reflexivity]. simpl.
  destruct (mem_item j (s_inputs st)) eqn:Hj; simpl; [reflexivity|].
  rewrite cwd_ainp, node_eqb_node_of; [|exact Q].
  destruct (item_eqb i j) eqn:E; [|reflexivity]. apply item_eqb_eq in E. subst j.
  symmetry. now apply ainp_not_input.
Qed.

Lemma cav_false_ainp st c i : Quiet st -> ainp (clear_all_values st c false) i = ainp st i.
Proof.
  intros Q. unfold clear_all_values. generalize (keys_of st c). intros l. revert st Q.
  induction l as [|k l IH]; intros st Q; simpl; [reflexivity|].
  rewrite IH; [apply cva_false_ainp; exact Q|now apply Quiet_clear_value_at].
Qed.

Lemma fold_cva_true_ainp l : forall st i, Quiet st ->
  ainp (fold_left (fun s k => clear_value_at s k true) l st) i = if mem_item i l then None else ainp st i.
Proof.
  induction l as [|k l IH]; intros st i Q; simpl; [reflexivity|].
  rewrite IH; [|now apply Quiet_clear_value_at]. rewrite cva_true_ainp; [|exact Q].
  destruct (item_eqb i k); simpl; [now destruct (mem_item i l)|reflexivity].
Qed.

Lemma in_keys_of st c i : In i (keys_of st c) <-> has st i /\ fst i = c.
Proof.
  unfold keys_of. rewrite filter_In, Nat.eqb_eq. split; intros (A & B); (split; [|exact B]).
  - unfold has. clear - A. induction (s_data st) as [|[x w] d IH]; simpl in *; [destruct A|].
    destruct (item_eqb i x) eqn:E; [discriminate|]. destruct A as [A|A]; [subst; rewrite item_eqb_refl in E; discriminate|now apply IH].
  - unfold has in A. clear - A. induction (s_data st) as [|[x w] d IH]; simpl in *; [now elim A|].
    destruct (item_eqb i x) eqn:E; [apply item_eqb_eq in E; subst; now left|right; now apply IH].
Qed.

Lemma cav_true_ainp st c i :
  Quiet st -> ainp (clear_all_values st c true) i = if Nat.eqb (fst i) c then None else ainp st i.
Proof.
  intros Q. unfold clear_all_values. rewrite fold_cva_true_ainp; [|exact Q].
  destruct (mem_item i (keys_of st c)) eqn:Hk.
  - apply mem_item_In, in_keys_of in Hk as (_ & <-). now rewrite Nat.eqb_refl.
  - destruct (Nat.eqb (fst i) c) eqn:Ec; [|reflexivity]. apply Nat.eqb_eq in Ec.
    unfold ainp. rewrite lookup_input_data.
    destruct (lookup_data (s_data st) i) eqn:Hd; [|now destruct (mem_item i (s_inputs st))].
    exfalso. assert (In i (keys_of st c)) by (apply in_keys_of; split; [unfold has; congruence|exact Ec]).
    apply mem_item_In in H. congruence.
Qed.

Lemma fold_cwd_ainp l : forall st i, Quiet st ->
  ainp (fold_left clear_with_descs l st) i = if mem_node (node_of i) l then None else ainp st i.
Proof.
  induction l as [|n l IH]; intros st i Q; [reflexivity|].
  cbn [fold_left]. rewrite IH; [|now apply Quiet_clear_with_descs]. rewrite cwd_ainp; [|exact Q].
  change (mem_node (node_of i) (n :: l)) with (node_eqb (node_of i) n || mem_node (node_of i) l).
  destruct (node_eqb (node_of i) n); destruct (mem_node (node_of i) l); reflexivity.
Qed.

Lemma clear_obj_ainp st c i :
  Quiet st -> ainp (clear_obj st c) i = if Nat.eqb (fst i) c then None else ainp st i.
Proof.
  intros Q. unfold clear_obj. rewrite fold_cwd_ainp; [|exact Q].
  destruct (mem_node (node_of i) (nodes_of_obj st c)) eqn:Hk.
  - apply mem_node_In in Hk. unfold nodes_of_obj in Hk. apply filter_In in Hk as (_ & E).
    destruct i as [ci ki]. simpl in *. now rewrite E.
  - destruct (Nat.eqb (fst i) c) eqn:Ec; [|reflexivity].
    apply ainp_no_node; [exact Q|]. intros Hn.
    assert (In (node_of i) (nodes_of_obj st c)).
    { unfold nodes_of_obj. apply filter_In. split; [exact Hn|]. destruct i as [ci ki]. exact Ec. }
    apply mem_node_In in H. congruence.
Qed.

Lemma onc_ainp st c i : Quiet st -> ainp (on_namespace_change st c) i = ainp st i.
Proof.
  intros Q. unfold on_namespace_change. destruct (lookup_cell (s_cells st) c) as [cl|] eqn:El; [|reflexivity].
  destruct (cl_cached cl) eqn:Ec; [now apply cav_false_ainp|].
  rewrite clear_obj_ainp; [|exact Q]. destruct (Nat.eqb (fst i) c) eqn:E; [|reflexivity].
  apply Nat.eqb_eq in E. symmetry. unfold ainp. rewrite lookup_input_data.
  destruct (lookup_data (s_data st) i) eqn:Hd; [|now destruct (mem_item i (s_inputs st))].
  exfalso. destruct Q as ((_ & C & _) & _).
  assert (Hh : has st i) by (unfold has; congruence).
  pose proof (cv_cached _ C i Hh) as X. unfold is_cached in X. rewrite E, El in X. congruence.
Qed.

Lemma fold_onc_ainp l : forall st i, Quiet st -> ainp (fold_left on_namespace_change l st) i = ainp st i.
Proof.
  induction l as [|c l IH]; intros st i Q; simpl; [reflexivity|].
  rewrite IH; [now apply onc_ainp|now apply Quiet_on_namespace_change].
Qed.

Lemma cwd_inputs_shrink st n j : mem_item j (s_inputs st) = false -> mem_item j (s_inputs (clear_with_descs st n)) = false.
Proof.
  intros H. destruct (mem_node n (s_nodes st)) eqn:Hm.
  - now rewrite (cl_inputs _ _ _ (clear_with_descs_Cleared st n Hm)), H.
  - unfold clear_with_descs. now rewrite Hm.
Qed.

Lemma fold_reader_ainp l : forall st i, Quiet st ->
  (forall j, In j l -> mem_item j (s_inputs st) = false) ->
  ainp (fold_left clear_reader l st) i = ainp st i.
Proof.
  induction l as [|k l IH]; intros st i Q Hl; simpl; [reflexivity|].
  assert (Hk : mem_item k (s_inputs st) = false) by (apply Hl; now left).
  rewrite IH.
  - unfold clear_reader. rewrite cwd_ainp, node_eqb_node_of; [|exact Q].
    destruct (item_eqb i k) eqn:E; [|reflexivity]. apply item_eqb_eq in E. subst i.
    symmetry. now apply ainp_not_input.
  - now apply Quiet_clear_reader.
  - intros j Hj. apply cwd_inputs_shrink. apply Hl. now right.
Qed.

Lemma car_ainp st r i : Quiet st -> RgOK st -> ainp (clear_attr_referrers st r) i = ainp st i.
Proof.
  intros Q R. unfold clear_attr_referrers.
  set (readers := rg_readers st r).
  transitivity (ainp (fold_left clear_reader readers st) i); [reflexivity|].
  apply fold_reader_ainp; [exact Q|]. intros j Hj. apply in_rg_readers in Hj. exact (proj2 (R r j Hj)).
Qed.

(** * One operation, abstractly *)
Lemma eval_top_abs fuel st i r st' :
  eval_top fuel st i = (r, st') -> r <> OutOfFuel -> Inv st ->
  defs_of st' = defs_of st /\ forall j, ainp st' j = ainp st j.
Proof.
  intros H Hr HI. destruct (eval_top_sim _ _ _ _ _ H Hr HI) as (_ & F & _).
  destruct (frame_defs _ _ F) as (D & P). split; [exact D|]. intros j. unfold ainp. now rewrite P.
Qed.

Lemma recalc_all_abs fuel ns : forall st r st',
  recalc_all fuel st ns = (r, st') -> r <> OutOfFuel -> Inv st ->
  defs_of st' = defs_of st /\ forall j, ainp st' j = ainp st j.
Proof.
  induction ns as [|n ns IH]; intros st r st' H Hr HI; simpl in H; [inversion H; subst; auto|].
  destruct n as [c k|c]; [|eapply IH; eauto].
  destruct (eval_top fuel st (c, k)) as [[v|e|] st1] eqn:E.
  - destruct (eval_top_sim _ _ _ _ _ E ltac:(discriminate) HI) as (I1 & _).
    destruct (eval_top_abs _ _ _ _ _ E ltac:(discriminate) HI) as (D1 & A1).
    destruct (IH _ _ _ H Hr I1) as (D2 & A2). split; [congruence|]. intros j. now rewrite A2, A1.
  - inversion H; subst. eapply eval_top_abs; eauto. discriminate.
  - inversion H; subst. congruence.
Qed.

Lemma defs_clear_value_at st i b : defs_of (clear_value_at st i b) = defs_of st.
Proof. destruct (Shrinks_same_defs _ _ (clear_value_at_Shrinks st i b)) as (A & B). unfold defs_of. now rewrite A, B. Qed.
Lemma defs_clear_all_values st c b : defs_of (clear_all_values st c b) = defs_of st.
Proof. destruct (Shrinks_same_defs _ _ (clear_all_values_Shrinks st c b)) as (A & B). unfold defs_of. now rewrite A, B. Qed.
Lemma defs_clear_obj st c : defs_of (clear_obj st c) = defs_of st.
Proof. destruct (Shrinks_same_defs _ _ (clear_obj_Shrinks st c)) as (A & B). unfold defs_of. now rewrite A, B. Qed.

Theorem step_abs fuel st o x st' :
  step fuel st o = (x, st') -> x <> OFuel -> Quiet st -> RgOK st ->
  defs_of st' = adefs (defs_of st) o /\ forall i, ainp st' i = ainp_step (defs_of st) o (ainp st) i.
Proof.
  intros H Hx Q R. pose proof Q as ((HI & _) & _).
  destruct o; simpl in H.
  - (* eval *)
    destruct (eval_top fuel st i) as [[v|k|] st1] eqn:E; inversion H; subst; try congruence;
      (destruct (eval_top_abs _ _ _ _ _ E ltac:(discriminate) HI) as (D & A); split; [exact D|exact A]).
  - (* set value *)
    unfold set_value in H. unfold ainp_step, accepts. simpl adefs. cbn [fst defs_of].
    destruct (lookup_cell (s_cells st) (fst i)) as [cl|] eqn:El; [|inversion H; subst; split; [reflexivity|intros j; reflexivity]].
    destruct (negb (cl_cached cl)) eqn:Ec.
    { inversion H; subst. split; [reflexivity|]. intros j. apply negb_true_iff in Ec. now rewrite Ec. }
    apply negb_false_iff in Ec. rewrite Ec.
    destruct (negb (Nat.eqb (List.length (snd i)) (cl_nparams cl))) eqn:En.
    { inversion H; subst. split; [reflexivity|]. intros j. apply negb_true_iff in En. now rewrite En. }
    apply negb_false_iff in En. rewrite En.
    destruct (match v with VNone => negb (cl_allow_none cl) | _ => false end) eqn:Ev.
    { inversion H; subst. split; [reflexivity|]. intros j. reflexivity. }
    simpl.
    set (st1 := clear_value_at st i true) in *.
    assert (Q1 : Quiet st1) by (now apply Quiet_clear_value_at).
    assert (Hn1 : lookup_data (s_data st1) i = None) by (now apply clear_value_at_gone).
    assert (El1 : lookup_cell (s_cells st1) (fst i) = Some cl) by (unfold st1; now rewrite clear_value_at_cells).
    pose proof (Quiet_store_input st1 i v cl Q1 Hn1 El1 Ec) as Q3.
    set (st3 := upd_inputs (g_add_node (upd_data st1 (set_data (s_data st1) i v)) (node_of i))
                           (add_item i (s_inputs st1))) in *.
    change (out_of_recalc (recalc_all fuel st3 (if s_recalc st then leaf_descs st (node_of i) else [])) = (x, st')) in H.
    destruct (recalc_all fuel st3 (if s_recalc st then leaf_descs st (node_of i) else [])) as [rr st4] eqn:Er.
    assert (Hrr : rr <> OutOfFuel).
    { intros ->. unfold out_of_recalc in H. inversion H; subst. congruence. }
    assert (st' = st4) by (unfold out_of_recalc in H; destruct rr; inversion H; reflexivity). subst st4.
    destruct Q3 as ((I3 & _) & _).
    destruct (recalc_all_abs _ _ _ _ _ Er Hrr I3) as (D4 & A4).
    split.
    + rewrite D4. change (defs_of st3) with (defs_of st1). apply defs_clear_value_at.
    + intros j. rewrite A4. unfold ainp at 1. rewrite lookup_input_data.
      change (s_inputs st3) with (add_item i (s_inputs st1)).
      change (s_data st3) with (set_data (s_data st1) i v).
      rewrite mem_item_add.
      destruct (item_eqb j i) eqn:Ej.
      * apply item_eqb_eq in Ej. subst j. rewrite orb_true_r, lookup_set_same. reflexivity.
      * rewrite orb_false_r. apply item_eqb_neq in Ej. rewrite lookup_set_other; [|exact Ej].
        fold (ainp st1 j). rewrite <- lookup_input_data. fold (ainp st1 j). unfold st1.
        rewrite cva_true_ainp; [|exact Q]. apply item_eqb_neq in Ej. now rewrite Ej.
  - (* clear at *)
    inversion H; subst. split; [apply defs_clear_value_at|]. intros j. now apply cva_true_ainp.
  - (* clear *)
    inversion H; subst. split; [apply defs_clear_all_values|]. intros j. now apply cav_false_ainp.
  - (* clear all *)
    inversion H; subst. split; [apply defs_clear_all_values|]. intros j. unfold ainp_step. simpl. now apply cav_true_ainp.
  - (* set formula *)
    unfold set_formula in H. unfold ainp_step. simpl. cbn [fst defs_of].
    destruct (lookup_cell (s_cells st) c) as [cl|] eqn:El.
    + inversion H; subst. split.
      * unfold defs_of. cbn [s_cells s_refs upd_cells]. pose proof (defs_clear_obj st c) as X. unfold defs_of in X.
        inversion X as [[X1 X2]]. now rewrite X1, X2.
      * intros j. transitivity (ainp (clear_obj st c) j); [reflexivity|].
        rewrite clear_obj_ainp; [|exact Q]. now rewrite andb_true_r.
    + inversion H; subst. split; [reflexivity|]. intros j. now rewrite andb_false_r.
  - (* set cached *)
    unfold set_cached in H. unfold ainp_step. simpl. cbn [fst defs_of].
    destruct (lookup_cell (s_cells st) c) as [cl|] eqn:El.
    + destruct (Bool.eqb (cl_cached cl) b) eqn:Eb.
      * inversion H; subst. split; [reflexivity|]. intros j. now rewrite andb_false_r.
      * inversion H; subst. split.
        -- unfold defs_of. cbn [s_cells s_refs upd_cells]. pose proof (defs_clear_obj st c) as X. unfold defs_of in X.
           inversion X as [[X1 X2]]. now rewrite X1, X2.
        -- intros j. transitivity (ainp (clear_obj st c) j); [reflexivity|].
           rewrite clear_obj_ainp; [|exact Q]. now rewrite andb_true_r.
    + inversion H; subst. split; [reflexivity|]. intros j. now rewrite andb_false_r.
  - (* set ref *)
    unfold set_ref_value in H. unfold ainp_step. simpl. cbn [snd defs_of].
    destruct (lookup_ref (s_refs st) r) as [[sp w]|] eqn:El; [|inversion H; subst; split; [reflexivity|intros j; reflexivity]].
    inversion H; subst. clear H.
    destruct (Quiet_clear_attr_referrers st r Q) as (Q2 & S2 & _).
    set (st2 := clear_attr_referrers st r) in *.
    set (L := cells_in_space st2 sp).
    pose proof (Shrinks_fold on_namespace_change L on_namespace_change_Shrinks st2) as S3.
    pose proof (Shrinks_trans _ _ _ S2 S3) as S13.
    split.
    + unfold defs_of. cbn [s_cells s_refs upd_refs]. now rewrite (sh_cells _ _ S13), (sh_refs _ _ S13).
    + intros j. transitivity (ainp (fold_left on_namespace_change L st2) j); [reflexivity|].
      rewrite fold_onc_ainp; [|exact Q2]. now apply car_ainp.
  - (* recalc flag *)
    inversion H; subst. split; [reflexivity|]. intros j. reflexivity.
Qed.

(** * Histories *)
Lemma run_reent_static fuel ops : forall st xs st',
  run fuel st ops = (xs, st') -> s_reent st = true -> s_reent st' = true.
Proof.
  induction ops as [|o ops IH]; intros st xs st' H R; simpl in H; [inversion H; subst; exact R|].
  destruct (step fuel st o) as [x st1] eqn:E. destruct (run fuel st1 ops) as [xs1 st2] eqn:Er.
  inversion H; subst. eapply IH; [exact Er|]. eapply step_reent_static; eauto.
Qed.

(** definitions and inputs after any history are those of the abstract run,
    which ignores evaluations *)
Theorem run_abs fuel ops : forall st xs st',
  run fuel st ops = (xs, st') -> no_fuel_out xs -> Quiet st -> RgOK st -> refn_ok st -> s_reent st = false ->
  aops_ok (defs_of st) ops ->
  s_reent st' = true \/
  (Quiet st' /\ RgOK st' /\ refn_ok st' /\
   defs_of st' = arun_defs ops (defs_of st) /\
   forall i, ainp st' i = arun_inp ops (defs_of st) (ainp st) i).
Proof.
  induction ops as [|o ops IH]; intros st xs st' H Hnf Q R Hrn Hre Hok; simpl in H.
  - inversion H; subst. right. split; [exact Q|]. split; [exact R|]. split; [exact Hrn|]. split; reflexivity.
  - destruct (step fuel st o) as [x st1] eqn:E. destruct (run fuel st1 ops) as [xs1 st2] eqn:Er.
    inversion H; subst. simpl in Hok. destruct Hok as (Ho & Hok).
    assert (Hx : x <> OFuel /\ no_fuel_out xs1).
    { destruct x; simpl in Hnf; try contradiction; (split; [discriminate|assumption]). }
    destruct Hx as (Hx & Hnf1).
    destruct (s_reent st1) eqn:R1; [left; eapply run_reent_static; eauto|].
    destruct (step_quiet2 _ _ _ _ _ E Hx Q Hrn Hre (proj2 (op_ok2_d st o) Ho)) as [X|(Q1 & Hrn1)]; [congruence|].
    pose proof (step_RgOK _ _ _ _ _ E Hx Q R) as Rg1.
    destruct (step_abs _ _ _ _ _ E Hx Q R) as (D1 & A1).
    rewrite <- D1 in Hok.
    destruct (IH _ _ _ Er Hnf1 Q1 Rg1 Hrn1 R1 Hok) as [X|(Q2 & Rg2 & Hrn2 & D2 & A2)]; [now left|right].
    split; [exact Q2|]. split; [exact Rg2|]. split; [exact Hrn2|]. simpl. split.
    + rewrite D2, D1. reflexivity.
    + intros i. rewrite A2, D1. apply arun_inp_ext. exact A1.
Qed.

(** * The differential form of C02 *)

(** two histories from the same initial model whose edits coincide — whatever
    was evaluated, hit, failed or recomputed in between, and in whichever
    order — give the same answer to every request *)
Theorem same_edits_same_answers fuel cells refs maxd ops1 ops2 xs1 xs2 st1 st2 :
  refn_ok (init cells refs maxd) ->
  edits ops1 = edits ops2 -> aops_ok (cells, refs) ops1 ->
  run fuel (init cells refs maxd) ops1 = (xs1, st1) -> no_fuel_out xs1 -> s_reent st1 = false ->
  run fuel (init cells refs maxd) ops2 = (xs2, st2) -> no_fuel_out xs2 -> s_reent st2 = false ->
  forall i r1 r2 st1' st2',
    eval_top fuel st1 i = (r1, st1') -> eval_top fuel st2 i = (r2, st2') ->
    r1 <> OutOfFuel -> r2 <> OutOfFuel -> r1 <> Err KDeep -> r2 <> Err KDeep ->
    s_masks st1' = s_masks st1 -> s_masks st2' = s_masks st2 ->
    r1 = r2.
Proof.
  intros Hrn He Ha1 Hr1 Hn1 Hre1 Hr2 Hn2 Hre2 i r1 r2 st1' st2' E1 E2 N1 N2 K1 K2 Hm1 Hm2.
  set (st0 := init cells refs maxd) in *.
  assert (Ha2 : aops_ok (cells, refs) ops2).
  { apply aops_ok_edits. rewrite <- He. now apply aops_ok_edits. }
  pose proof (Quiet_init cells refs maxd) as Q0.
  pose proof (RgOK_init cells refs maxd) as R0.
  destruct (run_abs _ _ _ _ _ Hr1 Hn1 Q0 R0 Hrn eq_refl Ha1) as [X|(Q1 & _ & _ & D1 & A1)]; [congruence|].
  destruct (run_abs _ _ _ _ _ Hr2 Hn2 Q0 R0 Hrn eq_refl Ha2) as [X|(Q2 & _ & _ & D2 & A2)]; [congruence|].
  assert (HD : defs_of st1 = defs_of st2).
  { rewrite D1, D2, <- (arun_defs_edits ops1), <- (arun_defs_edits ops2), He. reflexivity. }
  assert (HA : same_inp (input_data st1) (input_data st2)).
  { intros j. change (ainp st1 j = ainp st2 j).
    rewrite A1, A2, <- (arun_inp_edits ops1), <- (arun_inp_edits ops2), He. reflexivity. }
  destruct Q1 as ((I1 & _) & _). destruct Q2 as ((I2 & _) & _).
  destruct (eval_top_sim _ _ _ _ _ E1 N1 I1) as (_ & _ & G1). specialize (G1 Hm1).
  destruct (eval_top_sim _ _ _ _ _ E2 N2 I2) as (_ & _ & G2). specialize (G2 Hm2).
  assert (Hsp : forall g, spec_eval g st1 i = spec_eval g st2 i).
  { intros g. unfold spec_eval. rewrite HD. apply (sp_ext (defs_of st2) _ _ HA g). }
  assert (Hex : forall r, r <> OutOfFuel -> r <> Err KDeep ->
            agrees r (fun g => spec_eval g st2 i) -> exists g, spec_eval g st2 i = r).
  { intros r N K G. destruct r as [v|k|]; simpl in G; [exact G| |congruence].
    destruct G as [->|G]; [congruence|exact G]. }
  assert (G1' : agrees r1 (fun g => spec_eval g st2 i)).
  { destruct r1 as [v|k|]; simpl in *; [destruct G1 as (g & G); exists g; now rewrite <- Hsp| |exact I].
    destruct G1 as [->|(g & G)]; [now left|right; exists g; now rewrite <- Hsp]. }
  destruct (Hex r1 N1 K1 G1') as (g1 & X1). destruct (Hex r2 N2 K2 G2) as (g2 & X2).
  unfold spec_eval in X1, X2.
  pose proof (sp_node_mono _ (Nat.max g1 g2) _ _ _ _ X1 N1 ltac:(lia)) as B1.
  pose proof (sp_node_mono _ (Nat.max g1 g2) _ _ _ _ X2 N2 ltac:(lia)) as B2. congruence.
Qed.

(** the statement of the property: the live history against the model to
    which only the edits were applied, with no evaluation in between *)
Theorem live_equals_edits_only fuel cells refs maxd ops xs xs' st st_e :
  refn_ok (init cells refs maxd) -> aops_ok (cells, refs) ops ->
  run fuel (init cells refs maxd) ops = (xs, st) -> no_fuel_out xs -> s_reent st = false ->
  run fuel (init cells refs maxd) (edits ops) = (xs', st_e) -> no_fuel_out xs' -> s_reent st_e = false ->
  forall i r r' st1 st2,
    eval_top fuel st i = (r, st1) -> eval_top fuel st_e i = (r', st2) ->
    r <> OutOfFuel -> r' <> OutOfFuel -> r <> Err KDeep -> r' <> Err KDeep ->
    s_masks st1 = s_masks st -> s_masks st2 = s_masks st_e ->
    r = r'.
Proof.
  intros Hrn Ha Hr Hn Hre Hr' Hn' Hre'.
  assert (He : edits ops = edits (edits ops)).
  { unfold edits. clear. induction ops as [|o t IH]; simpl; [reflexivity|].
    destruct (is_eval o) eqn:E; simpl; [exact IH|]. rewrite E. simpl. now rewrite <- IH. }
  exact (same_edits_same_answers fuel cells refs maxd ops (edits ops) xs xs' st st_e
           Hrn He Ha Hr Hn Hre Hr' Hn' Hre').
Qed.
