(** C17: the traceback recorded by the executor is exactly the executing
    chain of the specification evaluation, whatever happened before. *)
From Coq Require Import List ZArith Bool Arith Lia.
From MX Require Import Exec.Model Exec.Spec Exec.Basics Exec.SpecMono Exec.Masks Exec.Sim Exec.Chain Exec.Top Exec.Cover Exec.Quiet Exec.Edits4 Exec.Edits6 Exec.Results.
Import ListNotations.

Lemma sp_expr_det' g1 g2 D inp args locs e r1 r2 :
  sp_expr g1 D inp args locs e = r1 -> r1 <> OutOfFuel ->
  sp_expr g2 D inp args locs e = r2 -> r2 <> OutOfFuel -> r1 = r2.
Proof.
  intros H1 N1 H2 N2.
  pose proof (sp_expr_mono _ (Nat.max g1 g2) _ _ _ _ _ _ H1 N1 ltac:(lia)) as A.
  pose proof (sp_expr_mono _ (Nat.max g1 g2) _ _ _ _ _ _ H2 N2 ltac:(lia)) as B. congruence.
Qed.
Lemma sp_args_det' g1 g2 D inp args locs es r1 r2 :
  sp_args g1 D inp args locs es = r1 -> r1 <> OutOfFuel ->
  sp_args g2 D inp args locs es = r2 -> r2 <> OutOfFuel -> r1 = r2.
Proof.
  intros H1 N1 H2 N2.
  pose proof (sp_args_mono _ (Nat.max g1 g2) _ _ _ _ _ _ H1 N1 ltac:(lia)) as A.
  pose proof (sp_args_mono _ (Nat.max g1 g2) _ _ _ _ _ _ H2 N2 ltac:(lia)) as B. congruence.
Qed.
Lemma sp_body_det' g1 g2 D inp args locs rest r1 r2 :
  sp_body g1 D inp args locs rest = r1 -> r1 <> OutOfFuel ->
  sp_body g2 D inp args locs rest = r2 -> r2 <> OutOfFuel -> r1 = r2.
Proof.
  intros H1 N1 H2 N2.
  pose proof (sp_body_mono _ (Nat.max g1 g2) _ _ _ _ _ _ H1 N1 ltac:(lia)) as A.
  pose proof (sp_body_mono _ (Nat.max g1 g2) _ _ _ _ _ _ H2 N2 ltac:(lia)) as B. congruence.
Qed.

(** what the executor computed ([agrees]) fixes the result component of any
    terminating chain evaluation *)
Lemma align_expr r D inp args locs ln e g rc cc :
  agrees r (fun g => sp_expr g D inp args locs e) -> r <> OutOfFuel ->
  (forall k, r = Err k -> k <> KDeep) ->
  ch_expr g D inp args locs ln e = (rc, cc) -> rc <> OutOfFuel -> rc = r.
Proof.
  intros A Hr Hk Hc Hrc.
  pose proof (proj1 (ch_fst_all g) D inp args locs ln e) as F. rewrite Hc in F. simpl in F.
  destruct r as [v|k|]; simpl in A; [| |congruence].
  - destruct A as (g1 & A). symmetry. eapply sp_expr_det'; eauto; discriminate.
  - destruct A as [->|(g1 & A)]; [exfalso; now apply (Hk KDeep)|].
    symmetry. eapply sp_expr_det'; eauto; discriminate.
Qed.
Lemma align_args r D inp args locs ln es g rc cc :
  agrees r (fun g => sp_args g D inp args locs es) -> r <> OutOfFuel ->
  (forall k, r = Err k -> k <> KDeep) ->
  ch_args g D inp args locs ln es = (rc, cc) -> rc <> OutOfFuel -> rc = r.
Proof.
  intros A Hr Hk Hc Hrc.
  pose proof (proj1 (proj2 (ch_fst_all g)) D inp args locs ln es) as F. rewrite Hc in F. simpl in F.
  destruct r as [v|k|]; simpl in A; [| |congruence].
  - destruct A as (g1 & A). symmetry. eapply sp_args_det'; eauto; discriminate.
  - destruct A as [->|(g1 & A)]; [exfalso; now apply (Hk KDeep)|].
    symmetry. eapply sp_args_det'; eauto; discriminate.
Qed.
Lemma align_body r D inp args locs whole rest idx g rc cc ln :
  agrees r (fun g => sp_body g D inp args locs rest) -> r <> OutOfFuel ->
  (forall k, r = Err k -> k <> KDeep) ->
  ch_body g D inp args locs whole rest idx = (rc, cc, ln) -> rc <> OutOfFuel -> rc = r.
Proof.
  intros A Hr Hk Hc Hrc.
  pose proof (proj2 (proj2 (proj2 (ch_fst_all g))) D inp args locs whole rest idx) as F. rewrite Hc in F. simpl in F.
  destruct r as [v|k|]; simpl in A; [| |congruence].
  - destruct A as (g1 & A). symmetry. eapply sp_body_det'; eauto; discriminate.
  - destruct A as [->|(g1 & A)]; [exfalso; now apply (Hk KDeep)|].
    symmetry. eapply sp_body_det'; eauto; discriminate.
Qed.

Definition not_deep {A} (r : res A) : Prop := forall k, r = Err k -> k <> KDeep.

Definition sim3_expr (f : nat) : Prop :=
  forall st args locs line e r st',
    eval_expr f st args locs line e = (r, st') -> r <> OutOfFuel -> not_deep r -> Inv st -> s_rolled st = [] ->
    (forall v, r = Val v -> s_rolled st' = []) /\
    (forall k, r = Err k -> s_masks st' = s_masks st -> forall g rc cc,
       ch_expr g (defs_of st) (input_data st) args locs line e = (rc, cc) -> rc <> OutOfFuel -> s_rolled st' = cc).
Definition sim3_args (f : nat) : Prop :=
  forall st args locs line es r st',
    eval_args f st args locs line es = (r, st') -> r <> OutOfFuel -> not_deep r -> Inv st -> s_rolled st = [] ->
    (forall v, r = Val v -> s_rolled st' = []) /\
    (forall k, r = Err k -> s_masks st' = s_masks st -> forall g rc cc,
       ch_args g (defs_of st) (input_data st) args locs line es = (rc, cc) -> rc <> OutOfFuel -> s_rolled st' = cc).
Definition sim3_node (f : nat) : Prop :=
  forall st line i r st',
    eval_node f st line i = (r, st') -> r <> OutOfFuel -> not_deep r -> Inv st -> s_rolled st = [] ->
    (forall v, r = Val v -> s_rolled st' = []) /\
    (forall k, r = Err k -> s_masks st' = s_masks st -> forall g rc cc,
       ch_node g (defs_of st) (input_data st) i = (rc, cc) -> rc <> OutOfFuel -> s_rolled st' = cc).
Definition sim3_formula (f : nat) : Prop :=
  forall st cl i r st',
    eval_formula f st cl i = (r, st') -> r <> OutOfFuel -> not_deep r -> Inv st -> s_rolled st = [] ->
    lookup_cell (s_cells st) (fst i) = Some cl ->
    (if cl_cached cl then lookup_data (s_data st) i else None) = None ->
    (forall v, r = Val v -> s_rolled st' = []) /\
    (forall k, r = Err k -> s_masks st' = s_masks st -> forall g rc cc,
       ch_node g (defs_of st) (input_data st) i = (rc, cc) -> rc <> OutOfFuel -> s_rolled st' = cc).
Definition sim3_body (f : nat) : Prop :=
  forall st args locs whole rest idx r st' ln,
    exec_body f st args locs whole rest idx = (r, st', ln) -> r <> OutOfFuel -> not_deep r -> Inv st ->
    s_rolled st = [] ->
    (forall v, r = Val v -> s_rolled st' = []) /\
    (forall k, r = Err k -> s_masks st' = s_masks st -> forall g rc cc ln',
       ch_body g (defs_of st) (input_data st) args locs whole rest idx = (rc, cc, ln') -> rc <> OutOfFuel ->
       s_rolled st' = cc /\ ln = ln').

Lemma not_deep_val {A} (v : A) : not_deep (Val v).
Proof. intros k H; discriminate. Qed.

Lemma rolled_pop st : s_rolled (pop_frame st) = s_rolled st.
Proof. apply pop_frame_fields. Qed.

Lemma rolled_rollback st i rest ln :
  s_stack st = i :: rest -> s_rolled (rollback_frame st ln) = (i, ln) :: s_rolled st.
Proof.
  intros Es. unfold rollback_frame. rewrite Es. simpl.
  destruct (mem_node (node_of i) (s_nodes st)); reflexivity.
Qed.

Lemma sim3_all : forall f, sim3_expr f /\ sim3_args f /\ sim3_node f /\ sim3_formula f /\ sim3_body f.
Proof.
  induction f as [|f (IHe & IHa & IHn & IHf & IHb)].
  { split; [|split; [|split; [|split]]];
      unfold sim3_expr, sim3_args, sim3_node, sim3_formula, sim3_body; intros;
      match goal with H : _ = (_, _) |- _ => simpl in H; inversion H; subst; congruence end. }
  assert (SE := proj1 (sim_all f)).
  assert (SA := proj1 (proj2 (sim_all f))).
  assert (SB := proj2 (proj2 (proj2 (proj2 (sim_all f))))).
  split; [|split; [|split; [|split]]].
  - (* expressions *)
    intros st args locs line e r st' H Hr Hnd HI Hro.
    destruct e; simpl in H;
      try (inversion H; subst; split; [intros; exact Hro|
             intros ? Hk Hmk g rc cc Hc Hrc; destruct g; simpl in Hc; inversion Hc; subst; try congruence; try exact Hro]; fail).
    + (* EBin *)
      destruct (eval_expr f st args locs line e1) as [r1 st1] eqn:E1.
      assert (Hr1 : r1 <> OutOfFuel) by (intros ->; inversion H; subst; congruence).
      assert (Hnd1 : not_deep r1).
      { intros k ->. inversion H; subst. now apply Hnd. }
      destruct (SE _ _ _ _ _ _ _ E1 Hr1 HI) as (I1 & F1 & A1).
      destruct (IHe _ _ _ _ _ _ _ E1 Hr1 Hnd1 HI Hro) as (V1 & X1).
      destruct (frame_defs _ _ F1) as (D1 & P1).
      destruct r1 as [va|k1|]; [| |congruence].
      * destruct (eval_expr f st1 args locs line e2) as [r2 st2] eqn:E2.
        assert (Hr2 : r2 <> OutOfFuel) by (intros ->; inversion H; subst; congruence).
        assert (Hst : st' = st2) by (destruct r2; inversion H; reflexivity). subst st2.
        assert (Hnd2 : not_deep r2).
        { intros k ->. inversion H; subst. now apply Hnd. }
        destruct (SE _ _ _ _ _ _ _ E2 Hr2 I1) as (I2 & F2 & A2).
        destruct (IHe _ _ _ _ _ _ _ E2 Hr2 Hnd2 I1 (V1 va eq_refl)) as (V2 & X2).
        rewrite D1, P1 in X2, A2.
        split.
        -- intros v Hv. destruct r2 as [vb|k2|]; [now apply (V2 vb)|inversion H; subst; discriminate|congruence].
        -- intros k Hk Hmk g rc cc Hc Hrc. destruct g; [simpl in Hc; inversion Hc; congruence|]. simpl in Hc.
           destruct (ch_expr g (defs_of st) (input_data st) args locs line e1) as [ra ca] eqn:Ca.
           assert (Hra : ra <> OutOfFuel) by (intros ->; inversion Hc; congruence).
           pose proof (align_expr _ _ _ _ _ _ _ _ _ _ (A1 ltac:(mk)) ltac:(discriminate) Hnd1 Ca Hra) as ->.
           destruct (ch_expr g (defs_of st) (input_data st) args locs line e2) as [rb cb] eqn:Cb.
           assert (Hrb : rb <> OutOfFuel) by (intros ->; inversion Hc; congruence).
           pose proof (align_expr _ _ _ _ _ _ _ _ _ _ (A2 ltac:(mk)) Hr2 Hnd2 Cb Hrb) as ->.
           destruct r2 as [vb|k2|]; [|inversion Hc; subst; eapply X2; eauto; mk|congruence].
           inversion Hc; subst. inversion H; subst. now apply (V2 vb).
      * inversion H; subst. split; [intros v Hv; discriminate|].
        intros k Hk Hmk g rc cc Hc Hrc. inversion Hk; subst k1.
        destruct g; [simpl in Hc; inversion Hc; congruence|]. simpl in Hc.
        destruct (ch_expr g (defs_of st) (input_data st) args locs line e1) as [ra ca] eqn:Ca.
        assert (Hra : ra <> OutOfFuel) by (intros ->; inversion Hc; congruence).
        pose proof (align_expr _ _ _ _ _ _ _ _ _ _ (A1 ltac:(mk)) ltac:(discriminate) Hnd1 Ca Hra) as ->.
        inversion Hc; subst. eapply X1; eauto; mk.
    + (* EIfPos *)
      destruct (eval_expr f st args locs line e1) as [r1 st1] eqn:E1.
      assert (Hr1 : r1 <> OutOfFuel) by (intros ->; inversion H; subst; congruence).
      assert (Hnd1 : not_deep r1).
      { intros k ->. inversion H; subst. now apply Hnd. }
      destruct (SE _ _ _ _ _ _ _ E1 Hr1 HI) as (I1 & F1 & A1).
      destruct (IHe _ _ _ _ _ _ _ E1 Hr1 Hnd1 HI Hro) as (V1 & X1).
      destruct (frame_defs _ _ F1) as (D1 & P1).
      destruct r1 as [[z|]|k1|]; [| | |congruence].
      * assert (Hb : exists eb, eval_expr f st1 args locs line eb = (r, st') /\
                                eb = (if Z.ltb 0 z then e2 else e3)).
        { destruct (Z.ltb 0 z); eexists; split; eauto. }
        destruct Hb as (eb & E2 & Heb).
        destruct (IHe _ _ _ _ _ _ _ E2 Hr Hnd I1 (V1 _ eq_refl)) as (V2 & X2).
        rewrite D1, P1 in X2.
        split; [exact V2|].
        intros k Hk Hmk g rc cc Hc Hrc. destruct g; [simpl in Hc; inversion Hc; congruence|]. simpl in Hc.
        destruct (ch_expr g (defs_of st) (input_data st) args locs line e1) as [ra ca] eqn:Ca.
        assert (Hra : ra <> OutOfFuel).
        { intros ->. inversion Hc; congruence. }
        pose proof (align_expr _ _ _ _ _ _ _ _ _ _ (A1 ltac:(mk)) ltac:(discriminate) Hnd1 Ca Hra) as ->.
        assert (Hc' : ch_expr g (defs_of st) (input_data st) args locs line eb = (rc, cc)).
        { subst eb. destruct (Z.ltb 0 z); exact Hc. }
        eapply X2; eauto; mk.
      * inversion H; subst. split; [intros v Hv; discriminate|].
        intros k Hk Hmk g rc cc Hc Hrc. destruct g; [simpl in Hc; inversion Hc; congruence|]. simpl in Hc.
        destruct (ch_expr g (defs_of st) (input_data st) args locs line e1) as [ra ca] eqn:Ca.
        assert (Hra : ra <> OutOfFuel) by (intros ->; inversion Hc; congruence).
        pose proof (align_expr _ _ _ _ _ _ _ _ _ _ (A1 ltac:(mk)) ltac:(discriminate) Hnd1 Ca Hra) as ->.
        inversion Hc; subst. now apply (V1 VNone).
      * inversion H; subst. split; [intros v Hv; discriminate|].
        intros k Hk Hmk g rc cc Hc Hrc. inversion Hk; subst k1.
        destruct g; [simpl in Hc; inversion Hc; congruence|]. simpl in Hc.
        destruct (ch_expr g (defs_of st) (input_data st) args locs line e1) as [ra ca] eqn:Ca.
        assert (Hra : ra <> OutOfFuel) by (intros ->; inversion Hc; congruence).
        pose proof (align_expr _ _ _ _ _ _ _ _ _ _ (A1 ltac:(mk)) ltac:(discriminate) Hnd1 Ca Hra) as ->.
        inversion Hc; subst. eapply X1; eauto; mk.
    + (* ECall *)
      destruct (eval_args f st args locs line args0) as [r1 st1] eqn:E1.
      assert (Hr1 : r1 <> OutOfFuel) by (intros ->; inversion H; subst; congruence).
      assert (Hnd1 : not_deep r1).
      { intros k ->. inversion H; subst. now apply Hnd. }
      destruct (SA _ _ _ _ _ _ _ E1 Hr1 HI) as (I1 & F1 & A1).
      destruct (IHa _ _ _ _ _ _ _ E1 Hr1 Hnd1 HI Hro) as (V1 & X1).
      destruct (frame_defs _ _ F1) as (D1 & P1).
      destruct r1 as [vs|k1|]; [| |congruence].
      * assert (Hcl : s_cells st1 = s_cells st) by (apply static_cells, F1). rewrite Hcl in H.
        assert (Hargs : s_masks st1 = s_masks st -> forall g rc cc, ch_args g (defs_of st) (input_data st) args locs line args0 = (rc, cc) ->
                          rc <> OutOfFuel -> rc = Val vs).
        { intros Hm1 g rc cc Hc Hrc. eapply (align_args _ _ _ _ _ _ _ _ _ _ (A1 Hm1)); eauto; try discriminate. }
        destruct (lookup_cell (s_cells st) c) as [cl|] eqn:El.
        2:{ inversion H; subst. split; [intros v Hv; discriminate|].
            intros k Hk Hmk g rc cc Hc Hrc. destruct g; [simpl in Hc; inversion Hc; congruence|]. simpl in Hc.
            destruct (ch_args g (defs_of st) (input_data st) args locs line args0) as [ra ca] eqn:Ca.
            assert (Hra : ra <> OutOfFuel) by (intros ->; inversion Hc; congruence).
            rewrite (Hargs ltac:(mk) _ _ _ Ca Hra) in Hc. unfold defs_of in Hc; simpl in Hc. rewrite El in Hc.
            inversion Hc; subst. now apply (V1 vs). }
        destruct (bind_pos cl vs) as [kk|] eqn:Eb.
        2:{ inversion H; subst. split; [intros v Hv; discriminate|].
            intros k Hk Hmk g rc cc Hc Hrc. destruct g; [simpl in Hc; inversion Hc; congruence|]. simpl in Hc.
            destruct (ch_args g (defs_of st) (input_data st) args locs line args0) as [ra ca] eqn:Ca.
            assert (Hra : ra <> OutOfFuel) by (intros ->; inversion Hc; congruence).
            rewrite (Hargs ltac:(mk) _ _ _ Ca Hra) in Hc. unfold defs_of in Hc; simpl in Hc. rewrite El, Eb in Hc.
            inversion Hc; subst. now apply (V1 vs). }
        destruct (IHn _ _ _ _ _ H Hr Hnd I1 (V1 vs eq_refl)) as (V2 & X2).
        rewrite D1, P1 in X2.
        split; [exact V2|].
        intros k Hk Hmk g rc cc Hc Hrc. destruct g; [simpl in Hc; inversion Hc; congruence|]. simpl in Hc.
        destruct (ch_args g (defs_of st) (input_data st) args locs line args0) as [ra ca] eqn:Ca.
        assert (Hra : ra <> OutOfFuel) by (intros ->; inversion Hc; congruence).
        rewrite (Hargs ltac:(mk) _ _ _ Ca Hra) in Hc. unfold defs_of in Hc; simpl in Hc. rewrite El, Eb in Hc.
        eapply X2; eauto; mk.
      * inversion H; subst. split; [intros v Hv; discriminate|].
        intros k Hk Hmk g rc cc Hc Hrc. inversion Hk; subst k1.
        destruct g; [simpl in Hc; inversion Hc; congruence|]. simpl in Hc.
        destruct (ch_args g (defs_of st) (input_data st) args locs line args0) as [ra ca] eqn:Ca.
        assert (Hra : ra <> OutOfFuel) by (intros ->; inversion Hc; congruence).
        pose proof (align_args _ _ _ _ _ _ _ _ _ _ (A1 ltac:(mk)) ltac:(discriminate) Hnd1 Ca Hra) as ->.
        inversion Hc; subst. eapply X1; eauto; mk.
    + (* ERefA *)
      destruct (lookup_ref (s_refs st) r0) as [[sp v]|] eqn:El; inversion H; subst.
      * split; [intros; exact Hro|intros k Hk; discriminate].
      * split; [intros v Hv; discriminate|].
        intros k Hk Hmk g rc cc Hc Hrc. destruct g; simpl in Hc; inversion Hc; subst; try congruence; try exact Hro.
  - (* argument lists *)
    intros st args locs line es r st' H Hr Hnd HI Hro.
    destruct es as [|e rest]; simpl in H.
    + inversion H; subst. split; [intros; exact Hro|intros k Hk; discriminate].
    + destruct (eval_expr f st args locs line e) as [r1 st1] eqn:E1.
      assert (Hr1 : r1 <> OutOfFuel) by (intros ->; inversion H; subst; congruence).
      assert (Hnd1 : not_deep r1).
      { intros k ->. inversion H; subst. now apply Hnd. }
      destruct (SE _ _ _ _ _ _ _ E1 Hr1 HI) as (I1 & F1 & A1).
      destruct (IHe _ _ _ _ _ _ _ E1 Hr1 Hnd1 HI Hro) as (V1 & X1).
      destruct (frame_defs _ _ F1) as (D1 & P1).
      destruct r1 as [v1|k1|]; [| |congruence].
      * destruct (eval_args f st1 args locs line rest) as [r2 st2] eqn:E2.
        assert (Hr2 : r2 <> OutOfFuel) by (intros ->; inversion H; subst; congruence).
        assert (Hst : st' = st2) by (destruct r2; inversion H; reflexivity). subst st2.
        assert (Hnd2 : not_deep r2).
        { intros k ->. inversion H; subst. now apply Hnd. }
        destruct (SA _ _ _ _ _ _ _ E2 Hr2 I1) as (I2 & F2 & A2).
        destruct (IHa _ _ _ _ _ _ _ E2 Hr2 Hnd2 I1 (V1 v1 eq_refl)) as (V2 & X2).
        rewrite D1, P1 in X2, A2.
        split.
        -- intros v Hv. destruct r2 as [vs|k2|]; [now apply (V2 vs)|inversion H; subst; discriminate|congruence].
        -- intros k Hk Hmk g rc cc Hc Hrc. destruct g; [simpl in Hc; inversion Hc; congruence|]. simpl in Hc.
           destruct (ch_expr g (defs_of st) (input_data st) args locs line e) as [ra ca] eqn:Ca.
           assert (Hra : ra <> OutOfFuel) by (intros ->; inversion Hc; congruence).
           pose proof (align_expr _ _ _ _ _ _ _ _ _ _ (A1 ltac:(mk)) ltac:(discriminate) Hnd1 Ca Hra) as ->.
           destruct (ch_args g (defs_of st) (input_data st) args locs line rest) as [rb cb] eqn:Cb.
           assert (Hrb : rb <> OutOfFuel) by (intros ->; inversion Hc; congruence).
           pose proof (align_args _ _ _ _ _ _ _ _ _ _ (A2 ltac:(mk)) Hr2 Hnd2 Cb Hrb) as ->.
           destruct r2 as [vs|k2|]; [inversion H; subst; discriminate|inversion Hc; subst; eapply X2; eauto; mk|congruence].
      * inversion H; subst. split; [intros v Hv; discriminate|].
        intros k Hk Hmk g rc cc Hc Hrc. inversion Hk; subst k1.
        destruct g; [simpl in Hc; inversion Hc; congruence|]. simpl in Hc.
        destruct (ch_expr g (defs_of st) (input_data st) args locs line e) as [ra ca] eqn:Ca.
        assert (Hra : ra <> OutOfFuel) by (intros ->; inversion Hc; congruence).
        pose proof (align_expr _ _ _ _ _ _ _ _ _ _ (A1 ltac:(mk)) ltac:(discriminate) Hnd1 Ca Hra) as ->.
        inversion Hc; subst. eapply X1; eauto; mk.
  - (* node *)
    intros st line i r st' H Hr Hnd HI Hro. simpl in H.
    destruct (lookup_cell (s_cells st) (fst i)) as [cl|] eqn:El.
    + destruct (if cl_cached cl then lookup_data (s_data st) i else None) as [v|] eqn:Eh.
      * assert (Hst : r = Val v /\ s_rolled st' = s_rolled st).
        { destruct (nearest_cached st (s_stack st)); inversion H; subst; auto. }
        destruct Hst as (-> & Hs). split; [intros; now rewrite Hs|intros k Hk; discriminate].
      * eapply IHf; eauto.
    + inversion H; subst. split; [intros v Hv; discriminate|].
      intros k Hk Hmk g rc cc Hc Hrc. destruct g; [simpl in Hc; inversion Hc; congruence|]. simpl in Hc.
      unfold defs_of in Hc; simpl in Hc. rewrite El in Hc. inversion Hc; subst. exact Hro.
  - (* formula *)
    intros st cl i r st' H Hr Hnd HI Hro El Em. simpl in H.
    destruct (Nat.ltb (s_maxdepth st) (List.length (s_stack st))).
    { inversion H; subst. exfalso. now apply (Hnd KDeep). }
    set (st1 := upd_reent (upd_log (upd_stack st (i :: s_stack st)) (i :: s_log st))
                          (s_reent st || mem_item i (s_stack st))) in *.
    assert (I1 : Inv st1) by exact HI.
    assert (Hro1 : s_rolled st1 = []) by exact Hro.
    destruct (exec_body f st1 (snd i) [] (cl_body cl) (cl_body cl) 0) as [[rb st2] ln] eqn:Eb.
    assert (Hrb : rb <> OutOfFuel) by (intros ->; inversion H; subst; congruence).
    assert (Hndb : not_deep rb).
    { intros k ->. inversion H; subst. now apply Hnd. }
    destruct (SB _ _ _ _ _ _ _ _ _ Eb Hrb I1) as (I2 & (S2 & K2 & M2 & P2) & A2).
    change (s_stack st1) with (i :: s_stack st) in K2.
    change (defs_of st1) with (defs_of st) in A2. change (input_data st1) with (input_data st) in A2.
    destruct (IHb _ _ _ _ _ _ _ _ _ Eb Hrb Hndb I1 Hro1) as (VB & XB).
    change (defs_of st1) with (defs_of st) in XB. change (input_data st1) with (input_data st) in XB.
    (* the chain evaluation of the element, unfolded once *)
    assert (Hnode : forall g rc cc, ch_node (S g) (defs_of st) (input_data st) i = (rc, cc) ->
              (rc, cc) = match ch_body g (defs_of st) (input_data st) (snd i) [] (cl_body cl) (cl_body cl) 0 with
                         | (Val v, _, _) => match none_check cl v with Err k => (Err k, [(i, 0)]) | r0 => (r0, []) end
                         | (Err k, ch, ln0) => (Err k, (i, ln0) :: ch)
                         | (OutOfFuel, _, _) => (OutOfFuel, [])
                         end).
    { intros g rc cc Hc. simpl in Hc. unfold defs_of in Hc; simpl in Hc. rewrite El in Hc.
      assert (Hmiss : (if cl_cached cl then lookup_data (input_data st) i else None) = None).
      { destruct (cl_cached cl) eqn:Ec; [|reflexivity].
        exact (proj2 (miss_not_input st cl i HI Ec ltac:(now rewrite Ec))). }
      rewrite Hmiss in Hc. symmetry. exact Hc. }
    destruct rb as [v|kb|]; [| |congruence].
    + (* the body returned a value *)
      assert (Hbody : s_masks st2 = s_masks st1 -> forall g rc cc ln0, ch_body g (defs_of st) (input_data st) (snd i) [] (cl_body cl) (cl_body cl) 0
                        = (rc, cc, ln0) -> rc <> OutOfFuel -> rc = Val v).
      { intros Hm2 g rc cc ln0 Hc Hrc. eapply (align_body _ _ _ _ _ _ _ _ _ _ _ _ (A2 Hm2)); eauto; try discriminate; try apply not_deep_val. }
      assert (Hcase : (v = VNone /\ cl_allow_none cl = false /\ r = Err KNone /\ st' = rollback_frame st2 0) \/
                      (none_check cl v = Val v /\ r = Val v /\ s_rolled st' = s_rolled st2)).
      assert (Hrt : s_rolled (pop_tainted st2) = s_rolled st2) by reflexivity.
      { unfold none_check. destruct (tainted st2).
        { destruct v as [z|]; [right; inversion H; subst; repeat split; auto|].
          destruct (cl_allow_none cl) eqn:Ea; [right|left]; inversion H; subst; repeat split; auto. }
        destruct (cl_cached cl) eqn:Ec; [unfold store_value in H|]; destruct v as [z|].
        - right. inversion H; subst. repeat split; auto; rewrite rolled_pop; reflexivity.
        - destruct (cl_allow_none cl) eqn:Ea.
          + right. inversion H; subst. repeat split; auto; rewrite rolled_pop; reflexivity.
          + left. inversion H; subst. auto.
        - right. inversion H; subst. repeat split; auto; rewrite rolled_pop; reflexivity.
        - destruct (cl_allow_none cl) eqn:Ea.
          + right. inversion H; subst. repeat split; auto; rewrite rolled_pop; reflexivity.
          + left. inversion H; subst. auto. }
      destruct Hcase as [(-> & Ea & -> & ->)|(Hnc & -> & Hs)].
      * split; [intros v Hv; discriminate|].
        intros k Hk Hmk g rc cc Hc Hrc. destruct g; [simpl in Hc; inversion Hc; congruence|].
        pose proof (Hnode g rc cc Hc) as Hn.
        destruct (ch_body g (defs_of st) (input_data st) (snd i) [] (cl_body cl) (cl_body cl) 0) as [[rb0 cb0] ln0] eqn:Cb.
        assert (Hrb0 : rb0 <> OutOfFuel) by (intros ->; inversion Hn; congruence).
        rewrite (Hbody ltac:(mk) _ _ _ _ Cb Hrb0) in Hn.
        unfold none_check in Hn. rewrite Ea in Hn. inversion Hn; subst.
        rewrite (rolled_rollback st2 i (s_stack st) 0 K2). now rewrite (VB VNone eq_refl).
      * split; [intros w Hw; rewrite Hs; now apply (VB v)|intros k Hk; discriminate].
    + (* the body failed *)
      inversion H; subst. split; [intros v Hv; discriminate|].
      intros k Hk Hmk g rc cc Hc Hrc. inversion Hk; subst kb.
      destruct g; [simpl in Hc; inversion Hc; congruence|].
      pose proof (Hnode g rc cc Hc) as Hn.
      destruct (ch_body g (defs_of st) (input_data st) (snd i) [] (cl_body cl) (cl_body cl) 0) as [[rb0 cb0] ln0] eqn:Cb.
      assert (Hrb0 : rb0 <> OutOfFuel) by (intros ->; inversion Hn; congruence).
      pose proof (align_body _ _ _ _ _ _ _ _ _ _ _ _ (A2 ltac:(mk)) ltac:(discriminate) Hndb Cb Hrb0) as ->.
      destruct (XB k eq_refl ltac:(mk) _ _ _ _ Cb ltac:(discriminate)) as (Hcc & Hln).
      inversion Hn; subst. rewrite (rolled_rollback st2 i (s_stack st) ln0 K2). reflexivity.
  - (* statements *)
    intros st args locs whole rest idx r st' ln H Hr Hnd HI Hro.
    destruct rest as [|s more]; simpl in H.
    + inversion H; subst. split; [intros; exact Hro|intros k Hk; discriminate].
    + destruct s as [e|e h|e fc].
      * destruct (eval_expr f st args locs (stmt_line whole idx) e) as [r1 st1] eqn:E1.
        assert (Hr1 : r1 <> OutOfFuel) by (intros ->; inversion H; subst; congruence).
        assert (Hnd1 : not_deep r1).
        { intros k ->. inversion H; subst. now apply Hnd. }
        destruct (SE _ _ _ _ _ _ _ E1 Hr1 HI) as (I1 & F1 & A1).
        destruct (IHe _ _ _ _ _ _ _ E1 Hr1 Hnd1 HI Hro) as (V1 & X1).
        destruct (frame_defs _ _ F1) as (D1 & P1).
        destruct r1 as [v1|k1|]; [| |congruence].
        -- destruct (IHb _ _ _ _ _ _ _ _ _ H Hr Hnd I1 (V1 v1 eq_refl)) as (V2 & X2).
           rewrite D1, P1 in X2. split; [exact V2|].
           intros k Hk Hmk g rc cc ln' Hc Hrc. destruct g; [simpl in Hc; inversion Hc; congruence|]. simpl in Hc.
           destruct (ch_expr g (defs_of st) (input_data st) args locs (stmt_line whole idx) e) as [ra ca] eqn:Ca.
           assert (Hra : ra <> OutOfFuel) by (intros ->; inversion Hc; congruence).
           pose proof (align_expr _ _ _ _ _ _ _ _ _ _ (A1 ltac:(mk)) ltac:(discriminate) Hnd1 Ca Hra) as ->.
           eapply X2; eauto; mk.
        -- inversion H; subst. split; [intros v Hv; discriminate|].
           intros k Hk Hmk g rc cc ln' Hc Hrc. inversion Hk; subst k1.
           destruct g; [simpl in Hc; inversion Hc; congruence|]. simpl in Hc.
           destruct (ch_expr g (defs_of st) (input_data st) args locs (stmt_line whole idx) e) as [ra ca] eqn:Ca.
           assert (Hra : ra <> OutOfFuel) by (intros ->; inversion Hc; congruence).
           pose proof (align_expr _ _ _ _ _ _ _ _ _ _ (A1 ltac:(mk)) ltac:(discriminate) Hnd1 Ca Hra) as ->.
           inversion Hc; subst. split; [eapply X1; eauto; mk|reflexivity].
      * destruct (eval_expr f st args locs (stmt_line whole idx + 1) e) as [r1 st1] eqn:E1.
        assert (Hr1 : r1 <> OutOfFuel) by (intros ->; inversion H; subst; congruence).
        assert (Hnd1 : not_deep r1).
        { intros k -> ->. simpl in H. inversion H; subst. now apply (Hnd KDeep). }
        destruct (SE _ _ _ _ _ _ _ E1 Hr1 HI) as (I1 & F1 & A1).
        destruct (IHe _ _ _ _ _ _ _ E1 Hr1 Hnd1 HI Hro) as (V1 & X1).
        destruct (frame_defs _ _ F1) as (D1 & P1).
        destruct r1 as [v1|k1|]; [| |congruence].
        -- destruct (IHb _ _ _ _ _ _ _ _ _ H Hr Hnd I1 (V1 v1 eq_refl)) as (V2 & X2).
           rewrite D1, P1 in X2. split; [exact V2|].
           intros k Hk Hmk g rc cc ln' Hc Hrc. destruct g; [simpl in Hc; inversion Hc; congruence|]. simpl in Hc.
           destruct (ch_expr g (defs_of st) (input_data st) args locs (stmt_line whole idx + 1) e) as [ra ca] eqn:Ca.
           assert (Hra : ra <> OutOfFuel) by (intros ->; inversion Hc; congruence).
           pose proof (align_expr _ _ _ _ _ _ _ _ _ _ (A1 ltac:(mk)) ltac:(discriminate) Hnd1 Ca Hra) as ->.
           eapply X2; eauto; mk.
        -- destruct (catchable k1) eqn:Ek.
           ++ set (st1' := upd_rolled st1 []) in *.
              assert (I1' : Inv st1') by exact I1.
              destruct (eval_expr f st1' args locs (stmt_line whole idx + 3) h) as [r2 st2] eqn:E2.
              assert (Hr2 : r2 <> OutOfFuel) by (intros ->; inversion H; subst; congruence).
              assert (Hnd2 : not_deep r2).
              { intros k ->. inversion H; subst. now apply Hnd. }
              destruct (SE _ _ _ _ _ _ _ E2 Hr2 I1') as (I2 & F2 & A2).
              destruct (IHe _ _ _ _ _ _ _ E2 Hr2 Hnd2 I1' eq_refl) as (V2 & X2).
              change (defs_of st1') with (defs_of st1) in *. change (input_data st1') with (input_data st1) in *.
              rewrite D1, P1 in X2, A2.
              assert (F12 : frame st st2).
              { eapply frame_trans; [exact F1|]. destruct F2 as (a & b & c & d). repeat split; assumption. }
              destruct (frame_defs _ _ F12) as (D2 & P2).
              assert (Hhead : s_masks st1 = s_masks st -> forall g ra ca, ch_expr g (defs_of st) (input_data st) args locs (stmt_line whole idx + 1) e = (ra, ca) ->
                                ra <> OutOfFuel -> ra = Err k1).
              { intros Hm1 g ra ca Ca Hra. eapply (align_expr _ _ _ _ _ _ _ _ _ _ (A1 Hm1)); eauto; try discriminate. }
              assert (Hh : s_masks st2 = s_masks st1 -> forall g rh chh, ch_expr g (defs_of st) (input_data st) args locs (stmt_line whole idx + 3) h = (rh, chh) ->
                             rh <> OutOfFuel -> rh = r2).
              { intros Hm2 g rh chh Ch Hrh. eapply (align_expr _ _ _ _ _ _ _ _ _ _ (A2 Hm2)); eauto. }
              destruct r2 as [v2|k2|]; [| |congruence].
              ** destruct (IHb _ _ _ _ _ _ _ _ _ H Hr Hnd I2 (V2 v2 eq_refl)) as (V3 & X3).
                 rewrite D2, P2 in X3. split; [exact V3|].
                 intros k Hk Hmk g rc cc ln' Hc Hrc. destruct g; [simpl in Hc; inversion Hc; congruence|]. simpl in Hc.
                 destruct (ch_expr g (defs_of st) (input_data st) args locs (stmt_line whole idx + 1) e) as [ra ca] eqn:Ca.
                 assert (Hra : ra <> OutOfFuel) by (intros ->; inversion Hc; congruence).
                 rewrite (Hhead ltac:(mk) _ _ _ Ca Hra), Ek in Hc.
                 destruct (ch_expr g (defs_of st) (input_data st) args locs (stmt_line whole idx + 3) h) as [rh chh] eqn:Ch.
                 assert (Hrh : rh <> OutOfFuel) by (intros ->; inversion Hc; congruence).
                 rewrite (Hh ltac:(mk) _ _ _ Ch Hrh) in Hc. eapply X3; eauto; mk.
              ** inversion H; subst. split; [intros v Hv; discriminate|].
                 intros k Hk Hmk g rc cc ln' Hc Hrc. inversion Hk; subst k2.
                 destruct g; [simpl in Hc; inversion Hc; congruence|]. simpl in Hc.
                 destruct (ch_expr g (defs_of st) (input_data st) args locs (stmt_line whole idx + 1) e) as [ra ca] eqn:Ca.
                 assert (Hra : ra <> OutOfFuel) by (intros ->; inversion Hc; congruence).
                 rewrite (Hhead ltac:(mk) _ _ _ Ca Hra), Ek in Hc.
                 destruct (ch_expr g (defs_of st) (input_data st) args locs (stmt_line whole idx + 3) h) as [rh chh] eqn:Ch.
                 assert (Hrh : rh <> OutOfFuel) by (intros ->; inversion Hc; congruence).
                 rewrite (Hh ltac:(mk) _ _ _ Ch Hrh) in Hc. inversion Hc; subst.
                 split; [eapply X2; eauto; mk|reflexivity].
           ++ inversion H; subst. split; [intros v Hv; discriminate|].
              intros k Hk Hmk g rc cc ln' Hc Hrc. inversion Hk; subst k1.
              destruct g; [simpl in Hc; inversion Hc; congruence|]. simpl in Hc.
              destruct (ch_expr g (defs_of st) (input_data st) args locs (stmt_line whole idx + 1) e) as [ra ca] eqn:Ca.
              assert (Hra : ra <> OutOfFuel) by (intros ->; inversion Hc; congruence).
              pose proof (align_expr _ _ _ _ _ _ _ _ _ _ (A1 ltac:(mk)) ltac:(discriminate) Hnd1 Ca Hra) as ->.
              rewrite Ek in Hc. inversion Hc; subst. split; [eapply X1; eauto; mk|reflexivity].
      * (* SFin *)
        destruct (eval_expr f st args locs (stmt_line whole idx + 1) e) as [r1 st1] eqn:E1.
        assert (Hr1 : r1 <> OutOfFuel) by (intros ->; inversion H; subst; congruence).
        destruct (SE _ _ _ _ _ _ _ E1 Hr1 HI) as (I1 & F1 & A1).
        destruct (frame_defs _ _ F1) as (D1 & P1).
        destruct r1 as [v1|k1|]; [| |congruence].
        -- destruct (IHe _ _ _ _ _ _ _ E1 Hr1 (not_deep_val _) HI Hro) as (V1 & X1).
           destruct (eval_expr f st1 args locs (stmt_line whole idx + 3) fc) as [r2 st2] eqn:E2.
           assert (Hr2 : r2 <> OutOfFuel) by (intros ->; inversion H; subst; congruence).
           assert (Hnd2 : not_deep r2).
           { intros k ->. inversion H; subst. now apply Hnd. }
           destruct (SE _ _ _ _ _ _ _ E2 Hr2 I1) as (I2 & F2 & A2).
           destruct (IHe _ _ _ _ _ _ _ E2 Hr2 Hnd2 I1 (V1 v1 eq_refl)) as (V2 & X2).
           rewrite D1, P1 in X2, A2.
           assert (F12 : frame st st2) by (eapply frame_trans; eauto).
           destruct (frame_defs _ _ F12) as (D2 & P2).
           destruct r2 as [v2|k2|]; [| |congruence].
           ++ destruct (IHb _ _ _ _ _ _ _ _ _ H Hr Hnd I2 (V2 v2 eq_refl)) as (V3 & X3).
              rewrite D2, P2 in X3. split; [exact V3|].
              intros k Hk Hmk g rc cc ln' Hc Hrc. destruct g; [simpl in Hc; inversion Hc; congruence|]. simpl in Hc.
              destruct (ch_expr g (defs_of st) (input_data st) args locs (stmt_line whole idx + 1) e) as [ra ca] eqn:Ca.
              assert (Hra : ra <> OutOfFuel) by (intros ->; inversion Hc; congruence).
              pose proof (align_expr _ _ _ _ _ _ _ _ _ _ (A1 ltac:(mk)) ltac:(discriminate) (not_deep_val _) Ca Hra) as ->.
              destruct (ch_expr g (defs_of st) (input_data st) args locs (stmt_line whole idx + 3) fc) as [rh chh] eqn:Ch.
              assert (Hrh : rh <> OutOfFuel) by (intros ->; inversion Hc; congruence).
              pose proof (align_expr _ _ _ _ _ _ _ _ _ _ (A2 ltac:(mk)) ltac:(discriminate) (not_deep_val _) Ch Hrh) as ->.
              eapply X3; eauto; mk.
           ++ inversion H; subst. split; [intros v Hv; discriminate|].
              intros k Hk Hmk g rc cc ln' Hc Hrc. inversion Hk; subst k2.
              destruct g; [simpl in Hc; inversion Hc; congruence|]. simpl in Hc.
              destruct (ch_expr g (defs_of st) (input_data st) args locs (stmt_line whole idx + 1) e) as [ra ca] eqn:Ca.
              assert (Hra : ra <> OutOfFuel) by (intros ->; inversion Hc; congruence).
              pose proof (align_expr _ _ _ _ _ _ _ _ _ _ (A1 ltac:(mk)) ltac:(discriminate) (not_deep_val _) Ca Hra) as ->.
              destruct (ch_expr g (defs_of st) (input_data st) args locs (stmt_line whole idx + 3) fc) as [rh chh] eqn:Ch.
              assert (Hrh : rh <> OutOfFuel) by (intros ->; inversion Hc; congruence).
              pose proof (align_expr _ _ _ _ _ _ _ _ _ _ (A2 ltac:(mk)) ltac:(discriminate) Hnd2 Ch Hrh) as ->.
              inversion Hc; subst. split; [eapply X2; eauto; mk|reflexivity].
        -- set (st1' := upd_rolled st1 []) in *.
           assert (I1' : Inv st1') by exact I1.
           destruct (eval_expr f st1' args locs (stmt_line whole idx + 3) fc) as [r2 st2] eqn:E2.
           assert (Hr2 : r2 <> OutOfFuel) by (intros ->; inversion H; subst; congruence).
           destruct (SE _ _ _ _ _ _ _ E2 Hr2 I1') as (I2 & F2 & A2).
           change (defs_of st1') with (defs_of st1) in A2. change (input_data st1') with (input_data st1) in A2.
           rewrite D1, P1 in A2.
           destruct r2 as [v2|k2|]; [| |congruence]; inversion H; subst.
           ++ (* the clean-up completed: the pending failure goes on with its own nodes *)
              assert (Hnd1 : not_deep (@Err val k1)) by exact Hnd.
              destruct (IHe _ _ _ _ _ _ _ E1 Hr1 Hnd1 HI Hro) as (V1 & X1).
              split; [intros v Hv; discriminate|].
              intros k Hk Hmk g rc cc ln' Hc Hrc. inversion Hk; subst k1.
              destruct g; [simpl in Hc; inversion Hc; congruence|]. simpl in Hc.
              destruct (ch_expr g (defs_of st) (input_data st) args locs (stmt_line whole idx + 1) e) as [ra ca] eqn:Ca.
              assert (Hra : ra <> OutOfFuel) by (intros ->; inversion Hc; congruence).
              pose proof (align_expr _ _ _ _ _ _ _ _ _ _ (A1 ltac:(mk)) ltac:(discriminate) Hnd1 Ca Hra) as ->.
              destruct (ch_expr g (defs_of st) (input_data st) args locs (stmt_line whole idx + 3) fc) as [rh chh] eqn:Ch.
              assert (Hrh : rh <> OutOfFuel) by (intros ->; inversion Hc; congruence).
              pose proof (align_expr _ _ _ _ _ _ _ _ _ _ (A2 ltac:(mk)) ltac:(discriminate) (not_deep_val _) Ch Hrh) as ->.
              inversion Hc; subst. split; [|reflexivity].
              change (s_rolled (upd_rolled st2 (s_rolled st1))) with (s_rolled st1). eapply X1; eauto; mk.
           ++ (* the clean-up failed: its failure, with its own nodes, replaces the pending one *)
              assert (Hnd2 : not_deep (@Err val k2)) by exact Hnd.
              destruct (IHe _ _ _ _ _ _ _ E2 Hr2 Hnd2 I1' eq_refl) as (V2 & X2).
              change (defs_of st1') with (defs_of st1) in X2. change (input_data st1') with (input_data st1) in X2.
              rewrite D1, P1 in X2.
              split; [intros v Hv; discriminate|].
              intros k Hk Hmk g rc cc ln' Hc Hrc. inversion Hk; subst k2.
              destruct (ekind_eqb k1 KDeep) eqn:Ed; [exfalso; clear A1 A2 X2; mk|].
              destruct g; [simpl in Hc; inversion Hc; congruence|]. simpl in Hc.
              destruct (ch_expr g (defs_of st) (input_data st) args locs (stmt_line whole idx + 1) e) as [ra ca] eqn:Ca.
              destruct (ch_expr g (defs_of st) (input_data st) args locs (stmt_line whole idx + 3) fc) as [rh chh] eqn:Ch.
              assert (Hrh : rh <> OutOfFuel) by (intros ->; destruct ra; inversion Hc; congruence).
              pose proof (align_expr _ _ _ _ _ _ _ _ _ _ (A2 ltac:(mk)) ltac:(discriminate) Hnd2 Ch Hrh) as ->.
              destruct ra as [va|ka|]; [| |inversion Hc; congruence]; inversion Hc; subst;
                (split; [eapply X2; eauto; mk|reflexivity]).
Qed.

(** * Top level: get_traceback() / get_error() after a failing call

    [st] is any state satisfying the executor invariant — in particular any
    state reached by a history of earlier evaluations, failures (handled by
    formulas or not) and edits.  The recorded error is the specification's
    error and the recorded traceback is the specification's executing chain,
    both functions of the current definitions and inputs only. *)
Theorem traceback_exact fuel st i k st' :
  eval_top fuel st i = (Err k, st') -> k <> KDeep -> s_masks st' = s_masks st -> Inv st ->
  lookup_cell (s_cells st) (fst i) <> None ->
  forall g rc cc, spec_chain g (defs_of st) (input_data st) i = (rc, cc) -> rc <> OutOfFuel ->
  rc = Err k /\ s_err st' = Some (k, cc) /\ s_rolled st' = [].
Proof.
  intros H Hk Hmk HI Hc g rc cc Hsp Hrc. unfold eval_top in H.
  destruct (lookup_cell (s_cells st) (fst i)) as [cl|] eqn:El; [|congruence].
  destruct (if cl_cached cl then lookup_data (s_data st) i else None) eqn:Eh; [inversion H|].
  set (st0 := upd_taint (upd_rolled (upd_err st None) []) 0) in *.
  destruct (eval_formula fuel st0 cl i) as [[v|k'|] st1] eqn:Ef; inversion H; subst k' st'. clear H.
  assert (I0 : Inv st0) by exact HI.
  assert (Hnd : not_deep (@Err val k)) by (intros k0 E; inversion E; subst; exact Hk).
  destruct (proj1 (proj2 (proj2 (proj2 (sim3_all fuel)))) st0 cl i _ _ Ef ltac:(discriminate) Hnd I0 eq_refl El Eh)
    as (_ & X).
  destruct (proj1 (proj2 (proj2 (proj2 (sim_all fuel)))) st0 cl i _ _ Ef ltac:(discriminate) I0 El Eh)
    as (_ & _ & A).
  specialize (A Hmk).
  change (defs_of st0) with (defs_of st) in A. change (input_data st0) with (input_data st) in A.
  unfold spec_chain in Hsp.
  pose proof (X k eq_refl Hmk g rc cc Hsp Hrc) as Hr. split; [|simpl; rewrite Hr; auto].
  simpl in A. destruct A as [->|(g1 & A)]; [congruence|].
  pose proof (proj1 (proj2 (proj2 (ch_fst_all g))) (defs_of st) (input_data st) i) as F.
  rewrite Hsp in F. simpl in F.
  pose proof (sp_node_mono _ (Nat.max g g1) _ _ _ _ (eq_sym F) Hrc ltac:(lia)) as B1.
  pose proof (sp_node_mono _ (Nat.max g g1) _ _ _ _ A ltac:(discriminate) ltac:(lia)) as B2. congruence.
Qed.

(** a successful top-level evaluation leaves no traceback behind *)
Theorem success_no_traceback fuel st i v st' :
  eval_top fuel st i = (Val v, st') -> Inv st -> s_rolled st = [] -> s_rolled st' = [].
Proof.
  intros H HI Hro. unfold eval_top in H.
  destruct (lookup_cell (s_cells st) (fst i)) as [cl|] eqn:El; [|inversion H].
  destruct (if cl_cached cl then lookup_data (s_data st) i else None) eqn:Eh; [inversion H; subst; exact Hro|].
  set (st0 := upd_taint (upd_rolled (upd_err st None) []) 0) in *.
  destruct (eval_formula fuel st0 cl i) as [[w|k'|] st1] eqn:Ef; inversion H; subst. clear H.
  assert (I0 : Inv st0) by exact HI.
  destruct (proj1 (proj2 (proj2 (proj2 (sim3_all fuel)))) st0 cl i _ _ Ef ltac:(discriminate) (not_deep_val _) I0 eq_refl El Eh)
    as (V & _).
  now apply (V v).
Qed.

(** * Over histories *)

(** after any sequence of evaluations from the initial state — whatever they
    returned, including failures that escaped and failures that formulas
    caught and handled (no restriction on the formulas at all) *)
Theorem traceback_exact_after_evals fuel cells refs maxd ops xs st i k st' :
  forallb is_eval ops = true ->
  run fuel (init cells refs maxd) ops = (xs, st) -> no_fuel_out xs ->
  eval_top fuel st i = (Err k, st') -> k <> KDeep -> s_masks st' = s_masks st -> lookup_cell cells (fst i) <> None ->
  forall g rc cc, spec_chain g (cells, refs) [] i = (rc, cc) -> rc <> OutOfFuel ->
  rc = Err k /\ s_err st' = Some (k, cc) /\ s_rolled st' = [].
Proof.
  intros Hall Hrun Hnf H Hk Hmk Hc g rc cc Hsp Hrc.
  destruct (run_evals_Inv _ _ _ _ _ Hall Hrun Hnf (Inv_init cells refs maxd)) as (HI & F).
  destruct (frame_defs _ _ F) as (D & P).
  assert (Hcells : s_cells st = cells) by (exact (static_cells _ _ (proj1 F))).
  eapply traceback_exact; eauto.
  - rewrite Hcells. exact Hc.
  - rewrite D, P. exact Hsp.
Qed.

(** after any history of evaluations, value edits, clearing, redefinitions and
    reference assignments admitted by [ops_ok2] (the hypotheses of C02) *)
Theorem traceback_exact_after_history fuel cells refs maxd ops xs st i k st' :
  refn_ok (init cells refs maxd) -> ops_ok2 fuel (init cells refs maxd) ops ->
  run fuel (init cells refs maxd) ops = (xs, st) -> no_fuel_out xs -> s_reent st = false ->
  eval_top fuel st i = (Err k, st') -> k <> KDeep -> s_masks st' = s_masks st -> lookup_cell (s_cells st) (fst i) <> None ->
  forall g rc cc, spec_chain g (defs_of st) (input_data st) i = (rc, cc) -> rc <> OutOfFuel ->
  rc = Err k /\ s_err st' = Some (k, cc) /\ s_rolled st' = [].
Proof.
  intros Hrn Hops Hrun Hnf Hre H Hk Hmk Hc g rc cc Hsp Hrc.
  destruct (history_correct2 _ _ _ _ _ _ _ Hrn Hops Hrun Hnf Hre) as (((HI & _) & _) & _).
  eapply traceback_exact; eauto.
Qed.

(** * C05: no element on the failing chain acquires a value *)
Theorem chain_holds_no_computed_value fuel st i k st' :
  eval_top fuel st i = (Err k, st') -> k <> KDeep -> Inv st -> lookup_cell (s_cells st) (fst i) <> None ->
  forall g rc cc, spec_chain g (defs_of st) (input_data st) i = (rc, cc) -> rc <> OutOfFuel ->
  forall j l v, In (j, l) cc -> lookup_data (s_data st') j = Some v ->
    is_cached st' (fst j) = false /\ mem_item j (s_inputs st') = true.
Proof.
  intros H Hk HI Hc g rc cc Hsp Hrc j l v Hin Hv.
  (* whatever the executor answered: an element on the specification's chain fails in the specification *)
  unfold spec_chain in Hsp.
  destruct rc as [vr|kr|]; [|clear Hk; rename kr into k0|congruence].
  { rewrite (proj1 (proj2 (proj2 (chain_val_nil g))) _ _ _ _ _ Hsp) in Hin. destruct Hin. }
  destruct (eval_top_sim _ _ _ _ _ H ltac:(discriminate) HI) as (I1 & F1 & _).
  destruct (frame_defs _ _ F1) as (D1 & P1).
  destruct (proj1 (proj2 (proj2 (chain_fail_all g))) _ _ _ _ _ Hsp j l Hin) as (g' & cl & El & Eh & Esp).
  assert (Ecl : is_cached st' (fst j) = cl_cached cl).
  { unfold is_cached. rewrite (static_cells _ _ (proj1 F1)). unfold defs_of in El; simpl in El. now rewrite El. }
  destruct (proj2 I1 j v Hv) as [Hi|(f' & Hs)].
  - split; [|exact Hi]. rewrite Ecl. destruct (cl_cached cl); [|reflexivity].
    rewrite <- P1, lookup_input_data, Hi, Hv in Eh. discriminate.
  - exfalso. unfold spec_eval in Hs. rewrite D1, P1 in Hs.
    pose proof (sp_node_mono _ (Nat.max g' f') _ _ _ _ Esp ltac:(discriminate) ltac:(lia)) as B1.
    pose proof (sp_node_mono _ (Nat.max g' f') _ _ _ _ Hs ltac:(discriminate) ltac:(lia)) as B2. congruence.
Qed.

(** in the states reached by histories (where uncached cells hold nothing)
    the elements of the failing chain hold no value at all *)
Theorem chain_holds_no_value fuel st i k st' :
  eval_top fuel st i = (Err k, st') -> k <> KDeep -> Quiet st -> s_reent st = false -> s_reent st' = false ->
  lookup_cell (s_cells st) (fst i) <> None ->
  forall g rc cc, spec_chain g (defs_of st) (input_data st) i = (rc, cc) -> rc <> OutOfFuel ->
  forall j l, In (j, l) cc -> lookup_data (s_data st') j = None.
Proof.
  intros H Hk Q Hre Hre' Hc g rc cc Hsp Hrc j l Hin.
  destruct (lookup_data (s_data st') j) as [v|] eqn:Hv; [exfalso|reflexivity].
  assert (HI : Inv st) by (destruct Q as ((HI & _) & _); exact HI).
  destruct (chain_holds_no_computed_value _ _ _ _ _ H Hk HI Hc _ _ _ Hsp Hrc j l v Hin Hv) as (Hu & _).
  destruct (eval_top_quiet _ _ _ _ _ H ltac:(discriminate) Q Hre) as [R|Q']; [congruence|].
  pose proof (proj2 (proj2 (proj2 (proj2 (graph_matches_cache st' Q')))) j) as Hc'.
  unfold has in Hc'. rewrite Hv in Hc'. rewrite Hc' in Hu; [discriminate|discriminate].
Qed.
