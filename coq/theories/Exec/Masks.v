(** The ghost counter [s_masks] (a failing clean-up of [SFin] replaced the
    depth-limit error) and the taint of the stack.

    Evaluation never decreases the counter; a frame that is tainted stays
    tainted while it is on the stack; and whenever the counter grew during an
    evaluation, the formula on top of the stack is tainted afterwards (its
    value will not be kept) or the statement list itself failed: a value
    computed over a replaced depth-limit error is never cached. *)
From Coq Require Import List ZArith Bool Arith Lia.
From MX Require Import Exec.Model Exec.Basics.
Import ListNotations.

Lemma pop_refs_mt st d i rs :
  s_masks (fst (pop_refs st d i rs)) = s_masks st /\ s_taint (fst (pop_refs st d i rs)) = s_taint st.
Proof.
  revert st; induction rs as [|[d' r'] rs IH]; intros st; simpl; [auto|].
  destruct (Nat.eqb d' d); [|auto]. apply (IH (rg_add_edge st r' i)).
Qed.

Lemma pop_frame_mt st : s_masks (pop_frame st) = s_masks st /\ s_taint (pop_frame st) = s_taint st.
Proof.
  unfold pop_frame. destruct (s_stack st) as [|i rest]; [auto|].
  destruct (is_cached st (fst i)).
  - match goal with |- context [pop_refs ?a ?b ?c ?d] =>
      pose proof (pop_refs_mt a b c d) as P; destruct (pop_refs a b c d) as [st3 rs] end.
    simpl in *. destruct (nearest_cached (upd_stack st rest) rest); simpl in *; exact P.
  - destruct rest; destruct (nearest_cached _ _); simpl; auto.
Qed.

Lemma rollback_frame_masks st ln : s_masks (rollback_frame st ln) = s_masks st.
Proof.
  unfold rollback_frame. destruct (s_stack st) as [|i rest]; [reflexivity|].
  simpl. destruct (mem_node (node_of i) (s_nodes st)); reflexivity.
Qed.

Lemma rollback_frame_taint' st i rest ln :
  s_stack st = i :: rest -> s_taint (rollback_frame st ln) = List.length rest.
Proof.
  intros Es. unfold rollback_frame. rewrite Es. simpl.
  destruct (mem_node (node_of i) (s_nodes st)); reflexivity.
Qed.

Lemma rollback_frame_stack' st i rest ln :
  s_stack st = i :: rest -> s_stack (rollback_frame st ln) = rest.
Proof. intros Es. destruct (rollback_frame_fields st ln) as (_ & _ & K & _). now rewrite K, Es. Qed.

Lemma pop_frame_stack' st i rest : s_stack st = i :: rest -> s_stack (pop_frame st) = rest.
Proof. intros Es. destruct (pop_frame_fields st) as (_ & _ & K & _). now rewrite K, Es. Qed.

(** * What an evaluation does to the counter and the taint *)
Definition MP (st st' : state) : Prop :=
  s_stack st' = s_stack st /\ s_masks st <= s_masks st' /\
  (forall m, m <= List.length (s_stack st) -> m <= s_taint st -> m <= s_taint st').
Definition MT (st st' : state) : Prop :=
  s_masks st < s_masks st' -> List.length (s_stack st) <= s_taint st'.
Definition MM (st st' : state) : Prop := MP st st' /\ MT st st'.
Definition MB {A} (st st' : state) (r : res A) : Prop :=
  MP st st' /\ (s_masks st < s_masks st' -> List.length (s_stack st) <= s_taint st' \/ exists k, r = Err k).

Lemma MM_same st st' :
  s_stack st' = s_stack st -> s_masks st' = s_masks st -> s_taint st' = s_taint st -> MM st st'.
Proof. intros A B C. split; [split; [exact A|split; [lia|intros; lia]]|intros H; lia]. Qed.
Lemma MM_refl st : MM st st.
Proof. now apply MM_same. Qed.
Lemma MM_trans a b c : MM a b -> MM b c -> MM a c.
Proof.
  intros ((S1 & M1 & P1) & T1) ((S2 & M2 & P2) & T2).
  split; [split; [congruence|split; [lia|]]|].
  - intros m Hm Ht. apply P2; [rewrite S1; exact Hm|now apply P1].
  - intros H. destruct (Nat.eq_dec (s_masks a) (s_masks b)) as [E|E].
    + rewrite <- S1. apply T2. lia.
    + apply P2; [rewrite S1; lia|apply T1; lia].
Qed.
Lemma MM_MB {A} a b (r : res A) : MM a b -> MB a b r.
Proof. intros (P & T). split; [exact P|intros H; left; now apply T]. Qed.
Lemma MB_trans {A} a b c (r : res A) : MM a b -> MB b c r -> MB a c r.
Proof.
  intros ((S1 & M1 & P1) & T1) ((S2 & M2 & P2) & T2).
  split; [split; [congruence|split; [lia|]]|].
  - intros m Hm Ht. apply P2; [rewrite S1; exact Hm|now apply P1].
  - intros H. destruct (Nat.eq_dec (s_masks a) (s_masks b)) as [E|E].
    + rewrite <- S1. apply T2. lia.
    + left. apply P2; [rewrite S1; lia|apply T1; lia].
Qed.
Lemma MB_err {A} a b k : MP a b -> MB a b (@Err A k).
Proof. intros P. split; [exact P|intros _; right; now exists k]. Qed.

Definition mk_expr (f : nat) : Prop :=
  forall st args locs line e r st', eval_expr f st args locs line e = (r, st') -> r <> OutOfFuel -> MM st st'.
Definition mk_args (f : nat) : Prop :=
  forall st args locs line es r st', eval_args f st args locs line es = (r, st') -> r <> OutOfFuel -> MM st st'.
Definition mk_node (f : nat) : Prop :=
  forall st line i r st', eval_node f st line i = (r, st') -> r <> OutOfFuel -> MM st st'.
Definition mk_formula (f : nat) : Prop :=
  forall st cl i r st', eval_formula f st cl i = (r, st') -> r <> OutOfFuel -> MM st st'.
Definition mk_body (f : nat) : Prop :=
  forall st args locs whole rest idx r st' ln,
    exec_body f st args locs whole rest idx = (r, st', ln) -> r <> OutOfFuel -> MB st st' r.

Ltac mpinv :=
  match goal with
  | H : (_, _) = (_, _) |- _ => inversion H; subst; clear H
  end.

(** leaving a frame whose body ended in [st2], by a rollback or a tainted pop *)
Lemma MM_leave st st2 st' i :
  s_stack st2 = i :: s_stack st -> s_masks st <= s_masks st2 ->
  s_stack st' = s_stack st -> s_masks st' = s_masks st2 -> s_taint st' = List.length (s_stack st) ->
  MM st st'.
Proof.
  intros K2 M2 K' M' T'. split; [split; [exact K'|split; [lia|intros; lia]]|intros _; lia].
Qed.

Lemma masks_all : forall f, mk_expr f /\ mk_args f /\ mk_node f /\ mk_formula f /\ mk_body f.
Proof.
  induction f as [|f (IHe & IHa & IHn & IHf & IHb)].
  { split; [|split; [|split; [|split]]];
      unfold mk_expr, mk_args, mk_node, mk_formula, mk_body; intros;
      match goal with H : _ = _ |- _ => simpl in H; inversion H; subst; congruence end. }
  split; [|split; [|split; [|split]]].
  - (* expr *)
    intros st args locs line e r st' H Hr. destruct e; simpl in H; try (mpinv; apply MM_refl).
    + destruct (eval_expr f st args locs line e1) as [[va|k|] st1] eqn:E1.
      * pose proof (IHe _ _ _ _ _ _ _ E1 ltac:(discriminate)) as M1.
        destruct (eval_expr f st1 args locs line e2) as [[vb|k|] st2] eqn:E2; mpinv; try congruence;
          (eapply MM_trans; [exact M1|eapply IHe; [exact E2|discriminate]]).
      * mpinv. eapply IHe; [exact E1|discriminate].
      * mpinv. congruence.
    + destruct (eval_expr f st args locs line e1) as [[[z|]|k|] st1] eqn:E1.
      * pose proof (IHe _ _ _ _ _ _ _ E1 ltac:(discriminate)) as M1.
        destruct (Z.ltb 0 z); (eapply MM_trans; [exact M1|eapply IHe; [exact H|exact Hr]]).
      * mpinv. eapply IHe; [exact E1|discriminate].
      * mpinv. eapply IHe; [exact E1|discriminate].
      * mpinv. congruence.
    + destruct (eval_args f st args locs line args0) as [[vs|k|] st1] eqn:E1.
      * pose proof (IHa _ _ _ _ _ _ _ E1 ltac:(discriminate)) as M1.
        destruct (lookup_cell (s_cells st1) c) as [cl|]; [|mpinv; exact M1].
        destruct (bind_pos cl vs) as [kk|]; [|mpinv; exact M1].
        eapply MM_trans; [exact M1|eapply IHn; [exact H|exact Hr]].
      * mpinv. eapply IHa; [exact E1|discriminate].
      * mpinv. congruence.
    + destruct (lookup_ref (s_refs st) r0) as [[sp v]|]; mpinv; [|apply MM_refl].
      apply MM_same; reflexivity.
  - (* args *)
    intros st args locs line es r st' H Hr. destruct es as [|e rest]; simpl in H; [mpinv; apply MM_refl|].
    destruct (eval_expr f st args locs line e) as [[v|k|] st1] eqn:E1.
    + pose proof (IHe _ _ _ _ _ _ _ E1 ltac:(discriminate)) as M1.
      destruct (eval_args f st1 args locs line rest) as [[vs|k|] st2] eqn:E2; mpinv; try congruence;
        (eapply MM_trans; [exact M1|eapply IHa; [exact E2|discriminate]]).
    + mpinv. eapply IHe; [exact E1|discriminate].
    + mpinv. congruence.
  - (* node *)
    intros st line i r st' H Hr. simpl in H.
    destruct (lookup_cell (s_cells st) (fst i)) as [cl|]; [|mpinv; apply MM_refl].
    destruct (if cl_cached cl then lookup_data (s_data st) i else None) as [v|].
    + destruct (nearest_cached st (s_stack st)); mpinv; [apply MM_same; reflexivity|apply MM_refl].
    + eapply IHf; eauto.
  - (* formula *)
    intros st cl i r st' H Hr. simpl in H.
    destruct (Nat.ltb (s_maxdepth st) (List.length (s_stack st))); [mpinv; apply MM_refl|].
    set (st1 := upd_reent (upd_log (upd_stack st (i :: s_stack st)) (i :: s_log st))
                         (s_reent st || mem_item i (s_stack st))) in *.
    destruct (exec_body f st1 (snd i) [] (cl_body cl) (cl_body cl) 0) as [[rb st2] ln] eqn:Eb.
    assert (Hrb : rb <> OutOfFuel) by (intros ->; mpinv; congruence).
    destruct (IHb _ _ _ _ _ _ _ _ _ Eb Hrb) as ((K2 & M2 & P2) & T2).
    change (s_stack st1) with (i :: s_stack st) in *. change (s_masks st1) with (s_masks st) in *.
    change (s_taint st1) with (s_taint st) in *.
    assert (Roll : forall l, MM st (rollback_frame st2 l)).
    { intros l. eapply (MM_leave st st2 _ i K2 M2).
      - exact (rollback_frame_stack' st2 i _ l K2).
      - apply rollback_frame_masks.
      - exact (rollback_frame_taint' st2 i _ l K2). }
    assert (RollT : MM st (pop_tainted st2)).
    { eapply (MM_leave st st2 _ i K2 M2).
      - unfold pop_tainted. exact (rollback_frame_stack' st2 i _ 0 K2).
      - unfold pop_tainted. exact (rollback_frame_masks st2 0).
      - unfold pop_tainted. exact (rollback_frame_taint' st2 i _ 0 K2). }
    assert (Pop : forall s3, s_stack s3 = s_stack st2 -> s_masks s3 = s_masks st2 -> s_taint s3 = s_taint st2 ->
                             tainted st2 = false -> (forall k, rb <> Err k) -> MM st (pop_frame s3)).
    { intros s3 A B C Et Hne. destruct (pop_frame_mt s3) as (PM & PT).
      assert (PK : s_stack (pop_frame s3) = s_stack st) by (apply (pop_frame_stack' s3 i); congruence).
      unfold tainted in Et. apply Nat.leb_gt in Et. rewrite K2 in Et. simpl in Et.
      split; [split; [exact PK|split; [lia|]]|].
      - intros m Hm Ht. rewrite PT, C. apply P2; [simpl; lia|exact Ht].
      - intros Hlt. exfalso. destruct T2 as [T2|(k & T2)]; [lia|simpl in T2; lia|now apply (Hne k)]. }
    destruct rb as [v|k|]; [| |congruence].
    + destruct (tainted st2) eqn:Et.
      { destruct v as [z|]; [mpinv; exact RollT|].
        destruct (cl_allow_none cl); mpinv; [exact RollT|apply Roll]. }
      destruct (cl_cached cl).
      * unfold store_value in H. destruct v as [z|].
        -- mpinv. apply Pop; auto; discriminate.
        -- destruct (cl_allow_none cl); mpinv; [apply Pop; auto; discriminate|apply Roll].
      * destruct v as [z|]; [mpinv; apply Pop; auto; discriminate|].
        destruct (cl_allow_none cl); mpinv; [apply Pop; auto; discriminate|apply Roll].
    + mpinv. apply Roll.
  - (* body *)
    intros st args locs whole rest idx r st' ln H Hr.
    destruct rest as [|s more]; simpl in H.
    { inversion H; subst. apply MM_MB, MM_refl. }
    destruct s as [e|e h|e c].
    + destruct (eval_expr f st args locs (stmt_line whole idx) e) as [[v|k|] st1] eqn:E1.
      * pose proof (IHe _ _ _ _ _ _ _ E1 ltac:(discriminate)) as M1.
        eapply MB_trans; [exact M1|eapply IHb; eauto].
      * inversion H; subst. apply MM_MB. eapply IHe; [exact E1|discriminate].
      * inversion H; subst. congruence.
    + destruct (eval_expr f st args locs (stmt_line whole idx + 1) e) as [[v|k|] st1] eqn:E1.
      * pose proof (IHe _ _ _ _ _ _ _ E1 ltac:(discriminate)) as M1.
        eapply MB_trans; [exact M1|eapply IHb; eauto].
      * pose proof (IHe _ _ _ _ _ _ _ E1 ltac:(discriminate)) as M1.
        destruct (catchable k).
        -- assert (M1' : MM st (upd_rolled st1 [])).
           { eapply MM_trans; [exact M1|apply MM_same; reflexivity]. }
           destruct (eval_expr f (upd_rolled st1 []) args locs (stmt_line whole idx + 3) h) as [[v|k2|] st2] eqn:E2.
           ++ pose proof (IHe _ _ _ _ _ _ _ E2 ltac:(discriminate)) as M2.
              eapply MB_trans; [eapply MM_trans; [exact M1'|exact M2]|eapply IHb; eauto].
           ++ inversion H; subst. apply MM_MB. eapply MM_trans; [exact M1'|eapply IHe; [exact E2|discriminate]].
           ++ inversion H; subst. congruence.
        -- inversion H; subst. apply MM_MB. exact M1.
      * inversion H; subst. congruence.
    + destruct (eval_expr f st args locs (stmt_line whole idx + 1) e) as [[v|k|] st1] eqn:E1.
      * pose proof (IHe _ _ _ _ _ _ _ E1 ltac:(discriminate)) as M1.
        destruct (eval_expr f st1 args locs (stmt_line whole idx + 3) c) as [[w|k2|] st2] eqn:E2.
        -- pose proof (IHe _ _ _ _ _ _ _ E2 ltac:(discriminate)) as M2.
           eapply MB_trans; [eapply MM_trans; [exact M1|exact M2]|eapply IHb; eauto].
        -- inversion H; subst. apply MM_MB. eapply MM_trans; [exact M1|eapply IHe; [exact E2|discriminate]].
        -- inversion H; subst. congruence.
      * pose proof (IHe _ _ _ _ _ _ _ E1 ltac:(discriminate)) as M1.
        assert (M1' : MM st (upd_rolled st1 [])).
        { eapply MM_trans; [exact M1|apply MM_same; reflexivity]. }
        destruct (eval_expr f (upd_rolled st1 []) args locs (stmt_line whole idx + 3) c) as [[w|k2|] st2] eqn:E2.
        -- pose proof (IHe _ _ _ _ _ _ _ E2 ltac:(discriminate)) as M2.
           inversion H; subst. apply MM_MB.
           eapply MM_trans; [exact M1'|]. eapply MM_trans; [exact M2|apply MM_same; reflexivity].
        -- pose proof (IHe _ _ _ _ _ _ _ E2 ltac:(discriminate)) as M2.
           inversion H; subst. apply MB_err.
           destruct (MM_trans _ _ _ M1' M2) as ((A & B & C) & _).
           destruct (ekind_eqb k KDeep); [|split; [exact A|split; [exact B|exact C]]].
           split; [exact A|split; [simpl; lia|exact C]].
        -- inversion H; subst. congruence.
      * inversion H; subst. congruence.
Qed.

Lemma masks_expr f st args locs line e r st' :
  eval_expr f st args locs line e = (r, st') -> r <> OutOfFuel -> MM st st'.
Proof. apply (proj1 (masks_all f)). Qed.
Lemma masks_args f st args locs line es r st' :
  eval_args f st args locs line es = (r, st') -> r <> OutOfFuel -> MM st st'.
Proof. apply (proj1 (proj2 (masks_all f))). Qed.
Lemma masks_node f st line i r st' :
  eval_node f st line i = (r, st') -> r <> OutOfFuel -> MM st st'.
Proof. apply (proj1 (proj2 (proj2 (masks_all f)))). Qed.
Lemma masks_formula f st cl i r st' :
  eval_formula f st cl i = (r, st') -> r <> OutOfFuel -> MM st st'.
Proof. apply (proj1 (proj2 (proj2 (proj2 (masks_all f))))). Qed.
Lemma masks_body f st args locs whole rest idx r st' ln :
  exec_body f st args locs whole rest idx = (r, st', ln) -> r <> OutOfFuel -> MB st st' r.
Proof. apply (proj2 (proj2 (proj2 (proj2 (masks_all f))))). Qed.

(** the counter only grows *)
Lemma MM_le st st' : MM st st' -> s_masks st <= s_masks st'.
Proof. intros ((_ & M & _) & _). exact M. Qed.
Lemma MB_le {A} st st' (r : res A) : MB st st' r -> s_masks st <= s_masks st'.
Proof. intros ((_ & M & _) & _). exact M. Qed.

Lemma pop_frame_masks st : s_masks (pop_frame st) = s_masks st.
Proof. apply pop_frame_mt. Qed.

(** a statement list that ended with a value in an untainted frame did not count anything *)
Lemma body_clean_masks f st args locs whole rest idx v st' ln :
  exec_body f st args locs whole rest idx = (Val v, st', ln) -> tainted st' = false ->
  s_masks st' = s_masks st.
Proof.
  intros H Et. destruct (masks_body _ _ _ _ _ _ _ _ _ _ H ltac:(discriminate)) as ((K & M & _) & T).
  destruct (Nat.eq_dec (s_masks st') (s_masks st)) as [E|E]; [exact E|exfalso].
  unfold tainted in Et. apply Nat.leb_gt in Et. rewrite K in Et.
  destruct T as [T|(k & T)]; [lia|lia|discriminate].
Qed.

(** proves [s_masks a = s_masks b] (or an inequality) from the evaluations in the context *)
Ltac mk_facts :=
  repeat match goal with
  | H : eval_expr _ ?s _ _ _ _ = (?r, ?s') |- _ =>
      lazymatch goal with | _ : s_masks s <= s_masks s' |- _ => fail | _ => idtac end;
      assert (s_masks s <= s_masks s') by (apply MM_le; eapply masks_expr; [exact H|first [discriminate|assumption]])
  | H : eval_args _ ?s _ _ _ _ = (?r, ?s') |- _ =>
      lazymatch goal with | _ : s_masks s <= s_masks s' |- _ => fail | _ => idtac end;
      assert (s_masks s <= s_masks s') by (apply MM_le; eapply masks_args; [exact H|first [discriminate|assumption]])
  | H : eval_node _ ?s _ _ = (?r, ?s') |- _ =>
      lazymatch goal with | _ : s_masks s <= s_masks s' |- _ => fail | _ => idtac end;
      assert (s_masks s <= s_masks s') by (apply MM_le; eapply masks_node; [exact H|first [discriminate|assumption]])
  | H : eval_formula _ ?s _ _ = (?r, ?s') |- _ =>
      lazymatch goal with | _ : s_masks s <= s_masks s' |- _ => fail | _ => idtac end;
      assert (s_masks s <= s_masks s') by (apply MM_le; eapply masks_formula; [exact H|first [discriminate|assumption]])
  | H : exec_body _ ?s _ _ _ _ _ = (?r, ?s', _) |- _ =>
      lazymatch goal with | _ : s_masks s <= s_masks s' |- _ => fail | _ => idtac end;
      assert (s_masks s <= s_masks s') by (eapply MB_le; eapply masks_body; [exact H|first [discriminate|assumption]])
  end.
Ltac mk :=
  repeat match goal with H : (_, _) = (_, _) |- _ => inversion H; clear H end; subst;
  mk_facts; unfold pop_tainted in *;
  repeat match goal with x := _ : state |- _ => subst x end;
  simpl in *; rewrite ?rollback_frame_masks, ?pop_frame_masks in *; simpl in *; lia.
(** open every conclusion that holds when nothing was counted *)
Ltac openA :=
  repeat match goal with
  | A : s_masks _ = s_masks _ -> _ |- _ => specialize (A ltac:(mk))
  end.
