(** C09: the specification value does not depend on the cached flags.
    (True since the None check applies to uncached cells as well — fix
    008a3ab for finding D33; before it the statement was false.) *)
From Coq Require Import List ZArith Bool Arith Lia.
From MX Require Import Exec.Model Exec.Spec Exec.Basics Exec.SpecMono Exec.Sim Exec.Top Exec.Cover Exec.Quiet
  Exec.Edits4 Exec.Edits6 Exec.Diff.
Import ListNotations.

Definition same_cell (a b : cell) : Prop :=
  cl_body a = cl_body b /\ cl_nparams a = cl_nparams b /\ cl_defaults a = cl_defaults b /\
  cl_allow_none a = cl_allow_none b.

(** the two definition sets differ at most in cached flags *)
Definition flags_only (c1 c2 : list (cid * cell)) : Prop :=
  forall c, match lookup_cell c1 c, lookup_cell c2 c with
            | Some a, Some b => same_cell a b
            | None, None => True
            | _, _ => False
            end.

(** user-assigned values sit on cells that are cached *)
Definition inputs_cached (cells : list (cid * cell)) (inp : list (item * val)) : Prop :=
  forall i v, lookup_data inp i = Some v ->
    exists cl, lookup_cell cells (fst i) = Some cl /\ cl_cached cl = true.

Lemma bind_pos_same a b vs : same_cell a b -> bind_pos a vs = bind_pos b vs.
Proof. intros (_ & N & Df & _). unfold bind_pos. now rewrite N, Df. Qed.

Lemma none_check_same a b v : same_cell a b -> none_check a v = none_check b v.
Proof. intros (_ & _ & _ & A). unfold none_check. now rewrite A. Qed.

Theorem flags_irrelevant c1 c2 refs inp :
  flags_only c1 c2 -> inputs_cached c1 inp -> inputs_cached c2 inp -> forall f,
  (forall args locs e, sp_expr f (c1, refs) inp args locs e = sp_expr f (c2, refs) inp args locs e) /\
  (forall args locs es, sp_args f (c1, refs) inp args locs es = sp_args f (c2, refs) inp args locs es) /\
  (forall i, sp_node f (c1, refs) inp i = sp_node f (c2, refs) inp i) /\
  (forall args locs rest, sp_body f (c1, refs) inp args locs rest = sp_body f (c2, refs) inp args locs rest).
Proof.
  intros FO I1 I2. induction f as [|f (IHe & IHa & IHn & IHb)]; [repeat split; reflexivity|].
  repeat split.
  - intros args locs e. destruct e; simpl; try reflexivity.
    + rewrite (IHe args locs e1), (IHe args locs e2). reflexivity.
    + rewrite (IHe args locs e1), (IHe args locs e2), (IHe args locs e3). reflexivity.
    + rewrite (IHa args locs args0). destruct (sp_args f (c2, refs) inp args locs args0) as [vs|k|]; try reflexivity.
      specialize (FO c).
      destruct (lookup_cell c1 c) as [a|], (lookup_cell c2 c) as [b|]; try contradiction; [|reflexivity].
      rewrite (bind_pos_same a b vs FO). destruct (bind_pos b vs); [apply IHn|reflexivity].
  - intros args locs es. destruct es as [|e rest]; simpl; [reflexivity|].
    now rewrite (IHe args locs e), (IHa args locs rest).
  - intros i. simpl. pose proof (FO (fst i)) as F.
    destruct (lookup_cell c1 (fst i)) as [a|] eqn:E1, (lookup_cell c2 (fst i)) as [b|] eqn:E2; try contradiction; [|reflexivity].
    assert (Hin : (if cl_cached a then lookup_data inp i else None) = (if cl_cached b then lookup_data inp i else None)).
    { destruct (lookup_data inp i) as [v|] eqn:El; [|now destruct (cl_cached a), (cl_cached b)].
      destruct (I1 i v El) as (a' & Ea & Ca). destruct (I2 i v El) as (b' & Eb & Cb).
      rewrite E1 in Ea. rewrite E2 in Eb. inversion Ea; inversion Eb; subst. now rewrite Ca, Cb. }
    rewrite Hin. destruct (if cl_cached b then lookup_data inp i else None); [reflexivity|].
    destruct F as (Fb & _). rewrite Fb, (IHb (snd i) [] (cl_body b)).
    destruct (sp_body f (c2, refs) inp (snd i) [] (cl_body b)); try reflexivity.
    apply none_check_same. pose proof (FO (fst i)) as F'. now rewrite E1, E2 in F'.
  - intros args locs rest. destruct rest as [|s more]; simpl; [reflexivity|].
    destruct s as [e|e h|e c].
    + rewrite (IHe args locs e). destruct (sp_expr f (c2, refs) inp args locs e); try reflexivity. apply IHb.
    + rewrite (IHe args locs e). destruct (sp_expr f (c2, refs) inp args locs e); try reflexivity; [apply IHb|].
      destruct (catchable k); [|reflexivity].
      rewrite (IHe args locs h). destruct (sp_expr f (c2, refs) inp args locs h); try reflexivity. apply IHb.
    + rewrite (IHe args locs e), (IHe args locs c).
      destruct (sp_expr f (c2, refs) inp args locs e); try reflexivity;
        destruct (sp_expr f (c2, refs) inp args locs c); try reflexivity. apply IHb.
Qed.

(** in every quiescent state the inputs sit on cached cells *)
Lemma Quiet_inputs_cached st : Quiet st -> inputs_cached (s_cells st) (input_data st).
Proof.
  intros ((_ & C & _) & _) i v Hl. rewrite lookup_input_data in Hl.
  destruct (mem_item i (s_inputs st)); [|discriminate].
  assert (Hh : has st i) by (unfold has; congruence).
  pose proof (cv_cached _ C i Hh) as Hc. unfold is_cached in Hc.
  destruct (lookup_cell (s_cells st) (fst i)) as [cl|]; [|discriminate]. now exists cl.
Qed.

(** * Two states that differ only in cached flags answer alike *)
Theorem flags_never_change_a_result fuel st1 st2 i r1 r2 st1' st2' :
  Quiet st1 -> Quiet st2 ->
  flags_only (s_cells st1) (s_cells st2) -> s_refs st1 = s_refs st2 ->
  (forall j, lookup_data (input_data st1) j = lookup_data (input_data st2) j) ->
  eval_top fuel st1 i = (r1, st1') -> eval_top fuel st2 i = (r2, st2') ->
  r1 <> OutOfFuel -> r2 <> OutOfFuel -> r1 <> Err KDeep -> r2 <> Err KDeep ->
  s_masks st1' = s_masks st1 -> s_masks st2' = s_masks st2 -> r1 = r2.
Proof.
  intros Q1 Q2 FO Hrefs Hinp E1 E2 N1 N2 K1 K2 Hm1 Hm2.
  pose proof Q1 as ((I1 & _) & _). pose proof Q2 as ((I2 & _) & _).
  destruct (eval_top_sim _ _ _ _ _ E1 N1 I1) as (_ & _ & G1). specialize (G1 Hm1).
  destruct (eval_top_sim _ _ _ _ _ E2 N2 I2) as (_ & _ & G2). specialize (G2 Hm2).
  assert (Hex : forall st r, r <> OutOfFuel -> r <> Err KDeep ->
            agrees r (fun g => spec_eval g st i) -> exists g, spec_eval g st i = r).
  { intros st r N K G. destruct r as [v|k|]; simpl in G; [exact G| |congruence].
    destruct G as [->|G]; [congruence|exact G]. }
  destruct (Hex st1 r1 N1 K1 G1) as (g1 & X1). destruct (Hex st2 r2 N2 K2 G2) as (g2 & X2).
  unfold spec_eval, defs_of in X1, X2.
  (* same inputs, then same flags-insensitive evaluation *)
  assert (Hsame : forall g, sp_node g (s_cells st1, s_refs st1) (input_data st1) i =
                            sp_node g (s_cells st2, s_refs st2) (input_data st2) i).
  { intros g. rewrite <- Hrefs.
    transitivity (sp_node g (s_cells st1, s_refs st1) (input_data st2) i).
    - apply (Diff.sp_ext (s_cells st1, s_refs st1) _ _ Hinp g).
    - apply (flags_irrelevant (s_cells st1) (s_cells st2) (s_refs st1) (input_data st2) FO); [|now apply Quiet_inputs_cached].
      intros j v Hl. rewrite <- Hinp in Hl. exact (Quiet_inputs_cached st1 Q1 j v Hl). }
  rewrite Hsame in X1.
  pose proof (sp_node_mono _ (Nat.max g1 g2) _ _ _ _ X1 N1 ltac:(lia)) as B1.
  pose proof (sp_node_mono _ (Nat.max g1 g2) _ _ _ _ X2 N2 ltac:(lia)) as B2. congruence.
Qed.
