(** The specification evaluator: no cache, no graphs, no stack.  A formula
    is interpreted as a pure function; only user-assigned inputs are looked
    up.  (The None check of cached cells and the arity rules are part of the
    meaning of a call.) *)
From Coq Require Import List ZArith Bool Arith.
From MX Require Import Exec.Model.
Import ListNotations.

Definition defs := (list (cid * cell) * list (rid * (option nat * val)))%type.

Definition none_check (cl : cell) (v : val) : res val :=
  match v with
  | VNone => if cl_allow_none cl then Val v else Err KNone
  | _ => Val v
  end.

Fixpoint sp_expr (fuel : nat) (D : defs) (inp : list (item * val)) (args : key) (locs : list val) (e : expr)
  {struct fuel} : res val :=
  match fuel with
  | O => OutOfFuel
  | S f =>
      match e with
      | EConst v => Val v
      | EPar i => match nth_error args i with Some v => Val v | None => Err KName end
      | ELoc i => match nth_error locs i with Some v => Val v | None => Err KName end
      | EBin o a b =>
          match sp_expr f D inp args locs a with
          | Val va => match sp_expr f D inp args locs b with
                      | Val vb => arith o va vb
                      | r => r
                      end
          | r => r
          end
      | EIfPos c t e' =>
          match sp_expr f D inp args locs c with
          | Val (VInt z) => if Z.ltb 0 z then sp_expr f D inp args locs t else sp_expr f D inp args locs e'
          | Val VNone => Err KType
          | r => r
          end
      | ECall c es =>
          match sp_args f D inp args locs es with
          | Val vs =>
              match lookup_cell (fst D) c with
              | None => Err KName
              | Some cl => match bind_pos cl vs with
                           | None => Err KType
                           | Some k => sp_node f D inp (c, k)
                           end
              end
          | Err k => Err k
          | OutOfFuel => OutOfFuel
          end
      | ERefN r | ERefA r =>
          match lookup_ref (snd D) r with Some (_, v) => Val v | None => Err KName end
      | ERaise k => Err k
      end
  end
with sp_args (fuel : nat) (D : defs) (inp : list (item * val)) (args : key) (locs : list val) (es : list expr)
  {struct fuel} : res (list val) :=
  match fuel with
  | O => OutOfFuel
  | S f =>
      match es with
      | [] => Val []
      | e :: rest =>
          match sp_expr f D inp args locs e with
          | Val v => match sp_args f D inp args locs rest with
                     | Val vs => Val (v :: vs)
                     | r => r
                     end
          | Err k => Err k
          | OutOfFuel => OutOfFuel
          end
      end
  end
with sp_node (fuel : nat) (D : defs) (inp : list (item * val)) (i : item) {struct fuel} : res val :=
  match fuel with
  | O => OutOfFuel
  | S f =>
      match lookup_cell (fst D) (fst i) with
      | None => Err KName
      | Some cl =>
          match (if cl_cached cl then lookup_data inp i else None) with
          | Some v => Val v
          | None =>
              match sp_body f D inp (snd i) [] (cl_body cl) with
              | Val v => none_check cl v
              | r => r
              end
          end
      end
  end
with sp_body (fuel : nat) (D : defs) (inp : list (item * val)) (args : key) (locs : list val) (rest : list stmt)
  {struct fuel} : res val :=
  match fuel with
  | O => OutOfFuel
  | S f =>
      match rest with
      | [] => Val (last locs VNone)
      | SAssign e :: more =>
          match sp_expr f D inp args locs e with
          | Val v => sp_body f D inp args (locs ++ [v]) more
          | r => r
          end
      | STry e h :: more =>
          match sp_expr f D inp args locs e with
          | Val v => sp_body f D inp args (locs ++ [v]) more
          | Err k =>
              if catchable k then
                match sp_expr f D inp args locs h with
                | Val v => sp_body f D inp args (locs ++ [v]) more
                | r => r
                end
              else Err k
          | OutOfFuel => OutOfFuel
          end
      | SFin e c :: more =>
          (* the clean-up is always evaluated; its failure replaces a pending one *)
          match sp_expr f D inp args locs e with
          | Val v =>
              match sp_expr f D inp args locs c with
              | Val _ => sp_body f D inp args (locs ++ [v]) more
              | Err k2 => Err k2
              | OutOfFuel => OutOfFuel
              end
          | Err k =>
              match sp_expr f D inp args locs c with
              | Val _ => Err k
              | Err k2 => Err k2
              | OutOfFuel => OutOfFuel
              end
          | OutOfFuel => OutOfFuel
          end
      end
  end.

(** the user-assigned part of the cache *)
Definition input_data (st : state) : list (item * val) :=
  filter (fun p => mem_item (fst p) (s_inputs st)) (s_data st).
Definition defs_of (st : state) : defs := (s_cells st, s_refs st).

(** the value the model denotes for element [i] in state [st] *)
Definition spec_eval (fuel : nat) (st : state) (i : item) : res val :=
  sp_node fuel (defs_of st) (input_data st) i.
