"""Imports exported packages WITHOUT modelx (sys.modules['modelx'] = None makes
any `import modelx` raise ImportError) and answers the queries.
argv[1] = directory containing the packages; stdin = [{"pkg":..., "queries":[...]}]"""
import sys, json, importlib
sys.modules['modelx'] = None
sys.setrecursionlimit(3000)
import c15gen as G

root = sys.argv[1]
sys.path.insert(0, root)


def walk(obj, path):
    for seg in path:
        if seg[0] == "attr":
            obj = getattr(obj, seg[1])
        elif seg[0] == "item":
            obj = obj[seg[1][0]] if len(seg[1]) == 1 else obj[tuple(seg[1])]
        elif seg[0] == "call":
            obj = obj(*seg[1])
    return obj


out = {}
for p in json.load(sys.stdin):
    r = {"vals": [], "import_err": None}
    try:
        mod = importlib.import_module(p["pkg"])
        m = mod.mx_model
    except BaseException as e:
        r["import_err"] = "%s: %s" % (type(e).__name__, str(e)[:200])
        r["vals"] = [["err", "import:" + type(e).__name__]] * len(p["queries"])
        out[p["pkg"]] = r
        continue
    for q in p["queries"]:
        try:
            r["vals"].append(G.canon(getattr(walk(m, q["path"]), q["cell"])(*q["args"])))
        except RecursionError:
            r["vals"].append(["err", "RecursionError"])
        except Exception as e:
            r["vals"].append(["err", type(e).__name__])
    try:
        import modelx  # noqa
        r["modelx_blocked"] = False
    except ImportError:
        r["modelx_blocked"] = True
    out[p["pkg"]] = r
print("@@NOMX " + json.dumps(out))
