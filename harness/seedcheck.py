"""Confirm a seeded change produced by an independent sub-agent and run the property's check against it.
usage: seedcheck.py <ID> <worktree> [--also ID2,ID3] [--name label]
Writes /verif/seeded/<label>/{patch.diff,demo.py,meta.json}."""
import sys, os, json, subprocess, shutil, time, argparse
V = "/verif"
ap = argparse.ArgumentParser(); ap.add_argument("pid"); ap.add_argument("wt"); ap.add_argument("--also", default=""); ap.add_argument("--name")
ap.add_argument("--needs", default=""); ap.add_argument("--tier", default="quick")
a = ap.parse_args()
label = a.name or a.pid
def sh(cmd, **kw):
    return subprocess.run(cmd, shell=True, text=True, stdout=subprocess.PIPE, stderr=subprocess.STDOUT, **kw)
env = "PYTHONPATH=%s PYTHONHASHSEED=0" % a.wt
meta = {"property": a.pid, "worktree": a.wt, "needs_to_manifest": a.needs, "ran": []}
# 0. bring the scratch worktree up to /repo's current HEAD (fix: commits made since it was created)
head = sh("git -C /repo rev-parse HEAD").stdout.strip().splitlines()[-1]
cur = sh("git -C %s rev-parse HEAD" % a.wt).stdout.strip().splitlines()[-1]
if head != cur:
    r = sh("cd %s && git stash -q && git checkout -q --detach %s && git stash pop -q" % (a.wt, head))
    meta["rebased_onto"] = head; meta["rebase_output"] = r.stdout[-200:]
    sh("cd %s && git diff -- modelx > patch.diff" % a.wt)
# 1. demo with the change
r = sh("cd %s && %s /venv/bin/python demo.py" % (a.wt, env)); meta["demo_with_change_rc"] = r.returncode; meta["demo_with_change_tail"] = r.stdout[-400:]
# 2. demo without
sh("cd %s && git stash -q" % a.wt)
r0 = sh("cd %s && %s /venv/bin/python demo.py" % (a.wt, env)); meta["demo_without_change_rc"] = r0.returncode
sh("cd %s && git stash pop -q" % a.wt)
# 3. imports + baseline
r = sh("cd %s && MODELX_REPO=%s /venv/bin/python harness/baseline.py" % (V, a.wt)); meta["baseline"] = r.stdout.strip().splitlines()[-1:] ; meta["baseline_rc"] = r.returncode
meta["confirmed"] = meta["demo_with_change_rc"] != 0 and meta["demo_without_change_rc"] == 0 and meta["baseline_rc"] == 0
# 4. our checks
res = {}
for pid in [a.pid] + [x for x in a.also.split(",") if x]:
    t0 = time.time()
    r = sh("cd %s && MODELX_REPO=%s ./check %s --tier %s" % (V, a.wt, pid, a.tier))
    lines = [l for l in r.stdout.splitlines() if l.startswith(("VIOLATION", "OK ", "CHECK-BROKEN"))]
    res[pid] = {"rc": r.returncode, "lines": lines[:4], "wall_s": round(time.time() - t0, 1)}
    for l in lines:
        if "replay=" in l:
            p = l.split("replay=")[1].split()[0]
            try:
                d = json.load(open(p)); res[pid]["first_detail"] = str(d.get("detail"))[:300]; res[pid]["kind"] = d.get("kind")
            except Exception: pass
            break
meta["checks"] = res
meta["caught_by"] = [p for p, v in res.items() if v["rc"] == 1]
d = os.path.join(V, "seeded", label); os.makedirs(d, exist_ok=True)
shutil.copy(os.path.join(a.wt, "patch.diff"), d); shutil.copy(os.path.join(a.wt, "demo.py"), d)
meta["ran"] = ["demo.py with and without the change (git stash)", "harness/baseline.py with MODELX_REPO=<worktree> (869 stable tests)",
               "MODELX_REPO=<worktree> ./check <ID> --tier " + a.tier]
json.dump(meta, open(os.path.join(d, "meta.json"), "w"), indent=1)
print(json.dumps({k: meta[k] for k in ("confirmed", "caught_by", "baseline", "demo_with_change_rc", "demo_without_change_rc")}, indent=0))
for p, v in res.items(): print(p, v["rc"], v["lines"][:2], v.get("first_detail", "")[:200])
