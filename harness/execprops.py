"""Property oracles (P) and runners for the Exec-layer properties
C01 C02 C05 C06 C08 C09 C17.  Every check = build+audit of its theorems
(fw.main) + tie (T) of Exec/Model.v against modelx + the oracle below."""
import copy, json
import fw, execlib
from fw import Outcome
from pyspec import Spec

EDITS = ("setv", "clearat", "clear", "clearall", "setf", "setcached", "setref", "recalc", "setallow", "tracecycle")


def apply_def_edit(w, op):
    t = op[0]
    if t == "setf":
        w["cells"][op[1]] = dict(op[2], cached=w["cells"][op[1]]["cached"])
    elif t == "setcached":
        w["cells"][op[1]]["cached"] = op[2]
    elif t == "setref":
        w["refs"][op[1]]["val"] = op[2]
    elif t == "setallow":        # (P)-only operation: cells.allow_none = flag
        w["cells"][op[1]]["allow_none"] = op[2]


def worlds_along(case):
    """world (definitions) after each op"""
    w = copy.deepcopy(case["world"])
    out = []
    for op in case["ops"]:
        apply_def_edit(w, op)
        out.append(copy.deepcopy(w))
    return out


def data_of(ob):
    return {(d[0], tuple(d[1])): d[2] for d in ob["data"]}


def inputs_of(ob):
    return {(d[0], tuple(d[1])) for d in ob["inputs"]}


def out_key(x):
    return tuple(x[:2]) if x[0] in ("val", "err") else (x[0],)


def same_result(a, b, none_ok=True):
    """results of the same query in two runs that must agree; the depth limit and (for different cached
    flags) the None check are implementation limits, not values"""
    a, b = out_key(a), out_key(b)
    if a == b:
        return True
    if ("err", "deep") in (a, b):
        return True
    if none_ok and (("err", "none") in (a, b)) and (("val", None) in (a, b)):
        return True
    return False


def queries(world, rng, n=12):
    qs = []
    for c in world["cells"]:
        for _ in range(2):
            qs.append(["eval", c["cid"], [rng.randint(0, 3) for _ in range(c["nparams"])], "call"])
    rng.shuffle(qs)
    return qs[:n]


def script_for(case, note=""):
    return ("# %s\n# run:  cd /verif && ./check <ID> --replay <this file>\n" % note) + json.dumps(case)


# --------------------------------------------------------------------------
# oracles; each returns a list of failure dicts for one (case, result)
# --------------------------------------------------------------------------
def oracle_spec_values(case, res, check_once=True):
    """C01: every evaluation returns the uncached specification value (pyspec with inputs only);
    no held element's formula runs again"""
    fails = []
    ws = worlds_along(case)
    prev = None
    for k, (op, ob) in enumerate(zip(case["ops"], res["obs"])):
        if op[0] == "eval":
            before = res["obs"][k - 1] if k else {"data": [], "inputs": []}
            inp = {i: data_of(before)[i] for i in inputs_of(before)}
            sp = Spec(ws[k], data=inp).top(op[1], op[2])
            exp = ["val", sp[1]] if sp[0] == "val" else ["err", sp[1]]
            if not same_result(ob["out"], exp, none_ok=False):
                fails.append({"op_index": k, "detail": "evaluation returned %r, uncached specification gives %r" % (ob["out"], exp)})
                break
            if check_once and k:
                held = set(data_of(before))
                rerun = [e for e in ob["log"] if (e[0], tuple(e[1])) in held and ws[k]["cells"][e[0]]["cached"]]
                if rerun:
                    fails.append({"op_index": k, "detail": "formula of an element holding a value ran again: %r" % rerun})
                    break
    return fails


def oracle_failure(case, res):
    """C05: after a failing evaluation nothing on the failing chain holds a value, completed values stay,
    the error object is the original one (kind), later evaluations are unaffected (checked by oracle_spec_values)"""
    fails = []
    for k, (op, ob) in enumerate(zip(case["ops"], res["obs"])):
        if op[0] == "eval" and ob["out"][0] == "err":
            d = data_of(ob)
            for c, key, ln in ob["tb"] or []:
                if (c, tuple(key)) in d:
                    fails.append({"op_index": k, "detail": "element %r on the failing chain holds a value" % ((c, key),)})
            if k:
                before = data_of(res["obs"][k - 1])
                lost = {i: v for i, v in before.items() if d.get(i, "missing") != v}
                if lost:
                    fails.append({"op_index": k, "detail": "values completed before the failure changed or vanished: %r" % lost})
            if not ob["tb"]:
                fails.append({"op_index": k, "detail": "failing call left no traceback"})
        if fails:
            break
    return fails


def oracle_traceback(case, res):
    """C17: get_traceback() = executing chain of the specification evaluation with the line numbers"""
    fails = []
    ws = worlds_along(case)
    for k, (op, ob) in enumerate(zip(case["ops"], res["obs"])):
        if op[0] == "eval" and ob["out"][0] == "err" and ob["out"][1] != "deep":
            before = res["obs"][k - 1] if k else {"data": [], "inputs": []}
            sp = Spec(ws[k], data=data_of(before)).top(op[1], op[2])
            if sp[0] == "err" and sp[1] == "deep":
                # the unbounded specification diverges, the implementation answered another error: a clean-up
                # (try/finally) replaced the depth-limit error.  The chain is then a function of the depth limit:
                # evaluate the specification with the limit of the world
                sp = Spec(ws[k], data=data_of(before), maxdepth=ws[k]["maxdepth"]).top(op[1], op[2])
                if sp[0] != "err" or sp[1] != ob["out"][1].split(":")[0]:
                    continue
            if sp[0] != "err":
                continue        # reported by the value oracle
            exp = [[c, list(key), ln] for c, key, ln in sp[2]]
            if ob["tb"] != exp:
                fails.append({"op_index": k, "detail": "traceback %r, executing chain %r" % (ob["tb"], exp)})
                break
    return fails


def oracle_graph(case, res):
    """C08: preds of every held computed element = direct reads; graph nodes = held elements; acyclic;
    attribute-reference precedents cover the references read by attribute"""
    import networkx as nx
    fails = []
    ws = worlds_along(case)
    for k, (op, ob) in enumerate(zip(case["ops"], res["obs"])):
        d = data_of(ob)
        inp = inputs_of(ob)
        items = {tuple([n[0], tuple(n[1])]) for n in ob["nodes"] if len(n) == 2}
        if items != set(d):
            fails.append({"op_index": k, "detail": "graph item nodes %r differ from held elements %r" % (sorted(items ^ set(d)), "")})
            break
        g = nx.DiGraph()
        for a, b in ob["edges"]:
            g.add_edge(json.dumps(a), json.dumps(b))
        if not nx.is_directed_acyclic_graph(g):
            fails.append({"op_index": k, "detail": "dependency graph has a cycle"})
            break
        preds = {}
        for a, b in ob["edges"]:
            preds.setdefault((b[0], tuple(b[1])), set()).add((a[0], tuple(a[1])) if len(a) == 2 else (a[0],))
        attr = {}
        for r, (c, key) in ob["redges"]:
            attr.setdefault((c, tuple(key)), set()).add(r)
        w = ws[k]
        for it in d:
            if it in inp or not w["cells"][it[0]]["cached"]:
                if it in inp and preds.get(it):
                    fails.append({"op_index": k, "detail": "input %r has predecessors" % (it,)})
                continue
            memo = dict(d)
            del memo[it]
            sp = Spec(w, data=memo).top(it[0], it[1])
            if sp[0] != "val":
                continue
            exp = set(sp[2])
            got = preds.get(it, set())
            if got != exp:
                fails.append({"op_index": k, "detail": "preds of %r are %r, its formula read %r" % (it, sorted(got, key=str), sorted(exp, key=str))})
                break
            if not set(sp[3]) <= attr.get(it, set()):
                fails.append({"op_index": k, "detail": "attribute references read by %r: %r, recorded precedents %r" % (it, sp[3], attr.get(it))})
                break
        if fails:
            break
    return fails


def oracle_value_edit(case, res):
    """C06: a value edit removes exactly the element and its graph descendants (minus what the
    recalculation option recomputes); inputs persist through clear(), ref changes, edits of others"""
    import networkx as nx
    fails = []
    recalc = False
    for k, (op, ob) in enumerate(zip(case["ops"], res["obs"])):
        if op[0] == "recalc":
            recalc = op[1]
        if k == 0:
            continue
        prev = res["obs"][k - 1]
        before, after = data_of(prev), data_of(ob)
        g = nx.DiGraph()
        for a, b in prev["edges"]:
            g.add_edge(json.dumps(a), json.dumps(b))
        if op[0] in ("setv", "clearat") and ob["out"] == ["ok"]:
            it = (op[1], tuple(op[2]))
            node = json.dumps([it[0], list(it[1])])
            desc = set()
            if it in before and node in g:
                desc = {tuple([json.loads(n)[0], tuple(json.loads(n)[1])]) for n in nx.descendants(g, node) if len(json.loads(n)) == 2}
            expect_removed = (desc | {it}) & set(before)
            removed = {i for i in before if i not in after} | ({it} if it in before and op[0] == "clearat" and it in after else set())
            if op[0] == "setv":
                removed = {i for i in before if i not in after and i != it}
                expect_removed = desc & set(before)
                if after.get(it, "missing") != op[3] or it not in inputs_of(ob):
                    fails.append({"op_index": k, "detail": "assigned value not held as input: %r" % (after.get(it, "missing"),)})
                if recalc:
                    # dependents that were recomputed may be back: they must have been executed by this op
                    relog = {(e[0], tuple(e[1])) for e in ob["log"]}
                    if not (removed <= expect_removed and (expect_removed - removed) <= relog):
                        fails.append({"op_index": k, "detail": "recalc: removed %r expected %r recomputed %r" % (sorted(removed), sorted(expect_removed), sorted(relog))})
                    continue
            if removed != expect_removed:
                fails.append({"op_index": k, "detail": "%s %r discarded %r, dependents per graph %r" % (op[0], it, sorted(removed), sorted(expect_removed))})
            kept = set(before) - expect_removed - {it}
            changed = {i for i in kept if after.get(i, "missing") != before[i]}
            if changed:
                fails.append({"op_index": k, "detail": "values of independent elements changed: %r" % sorted(changed)})
            if op[0] == "clearat" and ob["log"]:
                fails.append({"op_index": k, "detail": "clearing ran formulas %r" % ob["log"]})
        # inputs persist
        if op[0] in ("clear", "setref", "eval") or (op[0] in ("setv", "clearat")):
            lost = {i for i in inputs_of(prev) if (i not in inputs_of(ob) or after.get(i) != before.get(i))
                    and not (op[0] in ("setv", "clearat") and i == (op[1], tuple(op[2])))}
            if lost:
                fails.append({"op_index": k, "detail": "%s lost user-assigned values %r" % (op[0], sorted(lost))})
        if fails:
            break
    return fails


# --------------------------------------------------------------------------
# differential oracles (implementation vs implementation)
# --------------------------------------------------------------------------
def edits_only_twin(case, k, qs):
    return {"world": case["world"], "ops": [o for o in case["ops"][:k] if o[0] in EDITS] + qs}


def live_twin(case, k, qs):
    return {"world": case["world"], "ops": case["ops"][:k] + qs}


def oracle_no_stale(cases, rng, cuts=2):
    """C02: the same queries on the live model and on a model that replayed only the edits"""
    jobs, meta = [], []
    for ci, c in enumerate(cases):
        ks = {len(c["ops"])} | {rng.randint(1, len(c["ops"])) for _ in range(cuts - 1)}
        for k in sorted(ks):
            ws = worlds_along({"world": c["world"], "ops": c["ops"][:k]})
            qs = queries(ws[-1] if ws else c["world"], rng)
            jobs += [live_twin(c, k, qs), edits_only_twin(c, k, qs)]
            meta.append((ci, k, qs))
    res = fw.run_driver("exec", jobs)
    fails = []
    for j, (ci, k, qs) in enumerate(meta):
        live, fresh = res[2 * j], res[2 * j + 1]
        lo = [ob["out"] for ob in live["obs"][-len(qs):]]
        fo = [ob["out"] for ob in fresh["obs"][-len(qs):]]
        for q, a, b in zip(qs, lo, fo):
            if not same_result(a, b, none_ok=False):
                fails.append({"case": jobs[2 * j], "cut": k, "query": q,
                              "detail": "live model answers %r, a model that replayed only the edits answers %r" % (a, b),
                              "script": script_for(jobs[2 * j], "C02: compare with the edits-only replay")})
                break
    return fails, len(meta)


def flip_flags(case, rng):
    c2 = copy.deepcopy(case)
    flips = []
    for c in c2["world"]["cells"]:
        if rng.random() < 0.5:
            c["cached"] = not c["cached"]
            flips.append(c["cid"])
    cur = {c["cid"]: c["cached"] for c in c2["world"]["cells"]}
    ops = []
    for o in c2["ops"]:
        if o[0] == "setcached":
            if rng.random() < 0.5:
                continue                      # drop the flag change in the twin
            if cur[o[1]] == o[2]:
                continue
            cur[o[1]] = o[2]
        if o[0] == "setf":
            o = ["setf", o[1], dict(o[2])]
        if o[0] in ("setv",) and not cur[o[1]]:
            continue                          # assignment needs a cached cells: skipped in both (see caller)
        ops.append(o)
    c2["ops"] = ops
    return c2, flips


def oracle_flags(cases, rng):
    """C09: two assignments of the cached flag, same history of edits: same answers; uncached cells hold nothing"""
    jobs, meta = [], []
    for ci, c in enumerate(cases):
        base = copy.deepcopy(c)
        base["ops"] = [o for o in base["ops"] if o[0] != "setv"]      # inputs need cached cells; keep both runs comparable
        twin, flips = flip_flags(base, rng)
        ws = worlds_along(base)
        qs = queries(ws[-1] if ws else base["world"], rng)
        evals = [o for o in base["ops"] if o[0] == "eval"]
        base["ops"] = base["ops"] + qs
        twin["ops"] = twin["ops"] + qs
        jobs += [base, twin]
        meta.append((ci, qs, flips))
    res = fw.run_driver("exec", jobs)
    fails = []
    for j, (ci, qs, flips) in enumerate(meta):
        a, b = res[2 * j], res[2 * j + 1]
        ea = [ob["out"] for op, ob in zip(jobs[2 * j]["ops"], a["obs"]) if op[0] == "eval"]
        eb = [ob["out"] for op, ob in zip(jobs[2 * j + 1]["ops"], b["obs"]) if op[0] == "eval"]
        for n, (x, y) in enumerate(zip(ea, eb)):
            if not same_result(x, y):
                fails.append({"case": jobs[2 * j], "twin": jobs[2 * j + 1], "flipped": flips,
                              "detail": "evaluation #%d returns %r, with cached flags of cells %r flipped %r" % (n, x, flips, y),
                              "script": script_for({"a": jobs[2 * j], "b": jobs[2 * j + 1]}, "C09: same history, two flag assignments")})
                break
        for run, job in ((a, jobs[2 * j]), (b, jobs[2 * j + 1])):
            ws = worlds_along(job)
            for w, ob in zip(ws, run["obs"]):
                bad = [d for d in ob["data"] if not w["cells"][d[0]]["cached"]]
                if bad:
                    fails.append({"case": job, "detail": "uncached cells hold values %r" % bad, "script": script_for(job)})
                    break
    return fails, len(meta)


def probe_after_mismatch(cases, rng):
    jobs, meta = [], []
    for c in cases:
        ws = worlds_along(c)
        w = ws[-1] if ws else c["world"]
        follow = []
        for r in w["refs"]:
            follow.append([["setref", r["rid"], r["val"] + 7]])
        for cl in w["cells"]:
            if cl["cached"]:
                k = [rng.randint(0, 3) for _ in range(cl["nparams"])]
                follow.append([["setv", cl["cid"], k, 41]])
                follow.append([["clearat", cl["cid"], k]])
        if w["refs"]:
            follow.append([["setref", r["rid"], r["val"] + 7] for r in w["refs"]])
        # the elements the history itself asked for are the likeliest to be stale
        asked = []
        for op in c["ops"]:
            if op[0] == "eval" and [op[1], op[2]] not in asked:
                asked.append([op[1], op[2]])
        # each follow-up edit is tried cold and after re-requesting what the history asked for (many stale-value
        # defects need the value to be held at the time of the edit)
        warm = [["eval", a[0], a[1], "call"] for a in asked][:12]
        for k in range(1, len(c["ops"]) + 1):
            for f in follow + [warm + f for f in follow]:
                base = {"world": c["world"], "ops": c["ops"][:k] + f}
                ws2 = worlds_along(base)
                live_cells = {cl["cid"]: cl for cl in ws2[-1]["cells"]}
                qs = [["eval", a[0], a[1], "call"] for a in asked
                      if a[0] in live_cells and len(a[1]) == live_cells[a[0]]["nparams"]][:12]
                qs += queries(ws2[-1], rng, n=8)
                jobs += [live_twin(base, len(base["ops"]), qs), edits_only_twin(base, len(base["ops"]), qs)]
                meta.append(qs)
    if not jobs:
        return []
    res = fw.run_driver("exec", jobs)
    fails = []
    for j, qs in enumerate(meta):
        live, fresh = res[2 * j], res[2 * j + 1]
        lo = [ob["out"] for ob in live["obs"][-len(qs):]]
        fo = [ob["out"] for ob in fresh["obs"][-len(qs):]]
        for q, a, b in zip(qs, lo, fo):
            if not same_result(a, b, none_ok=False):
                fails.append({"case": jobs[2 * j], "query": q,
                              "detail": "found by probing a history on which model and implementation diverge: live model answers %r, "
                                        "a model that replayed only the edits answers %r" % (a, b),
                              "script": script_for(jobs[2 * j], "compare with the edits-only replay")})
                break
        if len(fails) >= 3:
            break
    return fails


# --------------------------------------------------------------------------
# generic runner
# --------------------------------------------------------------------------
def cell(cid, body, nparams=0, cached=True, space=0, allow_none=False, defaults=()):
    return {"cid": cid, "space": space, "nparams": nparams, "defaults": list(defaults), "cached": cached,
            "allow_none": allow_none, "body": body}


def witness_D20():
    """caught failure of a callee leaves no dependency: c0 = try c1() except -> -1 ; c1 = 1 // r0 with r0 = 0;
    then r0 = 5: a model that replayed only the edits answers 0, the live model still -1"""
    w = {"nspaces": 2, "maxdepth": 50, "refs": [{"rid": 0, "space": 1, "val": 0}],
         "cells": [cell(0, [["try", ["call", 1, []], ["const", -1]]]),
                   cell(1, [["assign", ["bin", "fdiv", ["const", 1], ["refn", 0]]]], space=1)]}
    case = {"world": w, "ops": [["eval", 0, [], "call"], ["setref", 0, 5]]}
    qs = [["eval", 0, [], "call"]]
    res = fw.run_driver("exec", [live_twin(case, 2, qs), edits_only_twin(case, 2, qs)])
    a, b = res[0]["obs"][-1]["out"], res[1]["obs"][-1]["out"]
    return not same_result(a, b, none_ok=False), "live model answers %r, edits-only replay %r" % (a, b)


def witness_D33():
    """an uncached cells may return None where a cached one raises NoneReturnedError"""
    def w(flag):
        return {"nspaces": 1, "maxdepth": 50, "refs": [],
                "cells": [cell(0, [["assign", ["call", 1, []]], ["assign", ["const", 1]]]),
                          cell(1, [["assign", ["const", None]]], cached=flag)]}
    ops = [["eval", 0, [], "call"]]
    res = fw.run_driver("exec", [{"world": w(True), "ops": ops}, {"world": w(False), "ops": ops}])
    a, b = res[0]["obs"][-1]["out"], res[1]["obs"][-1]["out"]
    return out_key(a) != out_key(b), "cached callee: %r, uncached callee: %r" % (a, b)


def witness_deep_chain():
    """the traceback of a failure at the bottom of a LONG chain (300 nested formulas) lists every element with the line
    it was executing (seeded/C17_r5: a traceback length limit cuts the frames the nodes are paired with)"""
    n = 300
    body = [["assign", ["ifpos", ["par", 0], ["call", 0, [["bin", "sub", ["par", 0], ["const", 1]]]], ["raise", "zero"]]]]
    w = {"nspaces": 1, "maxdepth": 2 * n, "refs": [], "cells": [cell(0, body, nparams=1)]}
    res = fw.run_driver("exec", [{"world": w, "ops": [["eval", 0, [n], "call"]]}])
    ob = res[0]["obs"][-1]
    exp = [[0, [k], 3] for k in range(n, -1, -1)]
    bad = ob["out"][:2] != ["err", "zero"] or ob["tb"] != exp
    first = next((i for i, (a, b) in enumerate(zip(ob["tb"] or [], exp)) if a != b), None)
    return bad, "out %r, %d traceback entries, first differing entry %r: %r" % (
        ob["out"], len(ob["tb"] or []), first, (ob["tb"] or [None] * (n + 1))[first] if first is not None else None)


WITNESSES = {
    "C17": [("deep_chain_lines", witness_deep_chain)],
    "C02": [("D20_caught_failure_no_dependency", witness_D20)],
    "C09": [("D33_uncached_none_unchecked", witness_D33)],
}


def run_exec_property(prop, tier, rng, n_quick, n_thorough, gen_kw, weights, nops, oracles, rule, nontrivial,
                      diff=None, corpus=()):
    out = Outcome()
    for key, fn in WITNESSES.get(prop, []):
        fails, text = fn()
        fw.witness_result(out, prop, key, fails, (fn.__doc__ or "").split(":")[0].strip() + " -- " + text)
        if key in {f["key"] for f in fw.load_findings(prop)["finding"]}:
            out.notes.append("generator avoids the trigger of %s" % key)
        else:
            out.notes.append("witness of the repaired defect %s runs as a regression test" % key)
    n = n_quick if tier == "quick" else n_thorough
    gen_kw = dict(gen_kw)
    alts = gen_kw.pop("alt", [])          # [(share, overriding knobs)]: sub-profiles mixed into the stream of cases
    g = execlib.Gen(rng, **gen_kw)
    alt_gens = [(share, execlib.Gen(rng, **dict(gen_kw, **kw))) for share, kw in alts]
    import glob, os
    corpus = list(corpus)
    for f in sorted(glob.glob(os.path.join(fw.VERIF, "corpus", prop, "*.json"))):
        if not os.path.basename(f).startswith("finding_"):
            d = json.load(open(f))
            if "world" in d and "ops" in d:
                corpus.append({"world": d["world"], "ops": d["ops"]})
    cases = list(corpus)
    nalt = [0] * len(alt_gens)
    while len(cases) < n + len(corpus):
        gg, x, acc = g, rng.random(), 0.0
        for k, (share, ag) in enumerate(alt_gens):
            acc += share
            if x < acc:
                gg = ag; nalt[k] += 1
                break
        w = gg.world()
        cases.append({"world": w, "ops": execlib.gen_ops(gg, w, rng.randint(*nops), weights)})
    res = fw.run_driver("exec", cases)
    # with the recalculation option on, modelx recomputes the leaf dependents of an assigned element in the order
    # of a SET and stops at the first failure: when such an assignment fails, which dependents were recomputed is
    # not determined by the history.  The rest of such a case is dropped (the directed scenario scn_recalc makes
    # the dependent unique and is kept).
    ntrunc = 0
    for c, r in zip(cases, res):
        on = False
        for k, (op, ob) in enumerate(zip(c["ops"], r["obs"])):
            if op[0] == "recalc":
                on = bool(op[1])
            if op[0] == "setv" and on and ob["out"][0] == "err" and not (len(op) > 4 and op[4] == "single"):
                c["ops"], r["obs"] = c["ops"][:k], r["obs"][:k]
                ntrunc += 1
                break
    opk, outk = {}, {}
    broken = set()
    toodeep = set()
    for ci, (c, r) in enumerate(zip(cases, res)):
        for op, ob in zip(c["ops"], r["obs"]):
            opk[op[0]] = opk.get(op[0], 0) + 1
            ok = ob["out"][0] if ob["out"][0] != "err" else "err:" + ob["out"][1].split(":")[0]
            outk[ok] = outk.get(ok, 0) + 1
            if ob["out"][0] == "err" and ob["out"][1].startswith("other"):
                broken.add(ci)
            if len(ob.get("tb") or []) > c["world"]["maxdepth"] + 2 and ci not in toodeep:
                # the configured recursion limit bounds every executing chain (seeded/C05_r5)
                toodeep.add(ci)
                out.p_failures.append({"case": c, "op_index": c["ops"].index(op),
                                       "detail": "a traceback of %d elements with the recursion limit set to %d: the limit is not enforced"
                                                 % (len(ob["tb"]), c["world"]["maxdepth"]),
                                       "script": script_for(c, prop + ": recursion limit")})
    for ci in sorted(broken)[:3]:
        bad = [(k, ob["out"]) for k, ob in enumerate(res[ci]["obs"]) if ob["out"][0] == "err" and ob["out"][1].startswith("other")]
        out.p_failures.append({"case": cases[ci], "op_index": bad[0][0],
                               "detail": "an operation of the modelled vocabulary raised an unexpected exception (the session is not in a consistent, usable state): %r" % (bad[:2],),
                               "script": script_for(cases[ci], prop + ": unexpected exception")})
    good = [i for i in range(len(cases)) if i not in broken and i not in toodeep]
    # (P)
    for i in good:
        for orc in oracles:
            fl = orc(cases[i], res[i])
            for f in fl[:1]:
                out.p_failures.append(dict(f, case=cases[i], oracle=orc.__name__,
                                           script=script_for(cases[i], prop + ": " + orc.__name__)))
    ndiff = 0
    if diff:
        fl, ndiff = diff([cases[i] for i in good], rng)
        out.p_failures += fl
    # (T)
    out.extra["cases_with_try_finally"] = sum(1 for i in good if execlib.has_fin(cases[i]))
    # histories with the (P)-only operation cells.allow_none = flag have no term of Exec/Model.v
    pgood = list(good)
    good = [i for i in good if not execlib.has_ponly_op(cases[i])]
    out.extra["cases_with_allow_none_toggles_P_only"] = len(pgood) - len(good)
    bad = execlib.tie(prop, [cases[i] for i in good], [res[i] for i in good])
    for b in bad[:5]:
        i = good[b]
        out.tie_mismatches.append({"case": cases[i], "impl_obs_first": res[i]["obs"][:1],
                                   "detail": "Exec/Model.v step differs from modelx; first differing op: " + execlib.explain(prop, cases[i], res[i])})
    if bad and not out.p_failures:
        # the model no longer describes the code: search around the diverging histories for an input on which
        # the property itself fails (follow-up edits of every reference / input, then the edits-only differential)
        out.p_failures += probe_after_mismatch([cases[good[b]] for b in bad[:4]], rng)
        out.notes.append("correspondence mismatch: probed %d diverging histories with follow-up edits after every prefix" % min(len(bad), 4))
    nohyp = execlib.hypotheses(prop, [cases[i] for i in good], [res[i] for i in good])
    out.extra["cases_meeting_theorem_hypotheses"] = len(good) - len(nohyp)
    if alt_gens:
        out.extra["sub_profiles"] = [{"share": sh, "knobs": kw, "cases": nalt[k]} for k, (sh, kw) in enumerate(alts)]
    out.extra["histories_cut_at_a_failing_recalculation"] = ntrunc
    nonehits = sum(1 for c, r in zip(cases, res) for op, ob in zip(c["ops"], r["obs"]) if op[0] == "eval" and ob["out"] == ["val", None] and not ob["log"])
    out.extra["cache_hits_serving_None"] = nonehits
    out.extra["theorem_hypotheses"] = "refn_ok (by-name reads of visible references), no formula re-entered while executing"
    out.evaluations = len(cases)
    out.traces_validated = len(good) - len(bad)
    out.distinct_nontrivial = len({json.dumps(c, sort_keys=True) for c, r in zip(cases, res) if nontrivial(c, r)})
    out.rule = rule
    c0 = cases[len(corpus)] if len(cases) > len(corpus) else cases[0]
    out.samples = [{"formulas": [execlib.render_cell(x, c0["world"]) for x in c0["world"]["cells"]][:3],
                    "refs": c0["world"]["refs"], "ops": [o[:4] if o[0] != "setf" else o[:2] for o in c0["ops"]][:12]}]
    out.distribution = {"ops": opk, "outcomes": outk, "differential_pairs": ndiff, "cases": len(cases)}
    return out


def replay_exec(prop, data, oracles):
    case = data["case"] if "case" in data else data
    res = fw.run_driver("exec", [case])[0]
    for k, (op, ob) in enumerate(zip(case["ops"], res["obs"])):
        print(k, op[:4] if op[0] != "setf" else op[:2], "->", ob["out"], "log", ob["log"], "tb", ob["tb"])
    for orc in oracles:
        print(orc.__name__, orc(case, res))
    print("tie mismatches:", execlib.tie(prop + "replay", [case], [res]))
    return 0
