"""Re-run the checks against every stored seeded change on /repo's CURRENT HEAD (after fix: commits the patches are
re-applied to a scratch worktree); writes build/reseed.json and prints one line per change.
usage: reseed.py [name ...]   (default: all of /verif/seeded/*)"""
import sys, os, json, subprocess, glob
V = "/verif"
names = sys.argv[1:] or sorted(os.path.basename(d) for d in glob.glob(os.path.join(V, "seeded", "*")))
def sh(cmd):
    return subprocess.run(cmd, shell=True, text=True, stdout=subprocess.PIPE, stderr=subprocess.STDOUT)
out = {}
for n in names:
    d = os.path.join(V, "seeded", n)
    meta = json.load(open(os.path.join(d, "meta.json")))
    pid = meta["property"]
    wt = "/tmp/reseed_" + n
    sh("git -C /repo worktree remove --force %s" % wt)
    sh("git -C /repo worktree add --detach %s HEAD" % wt)
    r = sh("git -C %s apply %s/patch.diff" % (wt, d))
    if r.returncode != 0:
        out[n] = {"status": "patch does not apply", "detail": r.stdout[-300:]}
    else:
        rd = sh("cd %s && cp %s/demo.py . && PYTHONPATH=%s PYTHONHASHSEED=0 /venv/bin/python demo.py" % (wt, d, wt))
        rc = sh("cd %s && MODELX_REPO=%s ./check %s" % (V, wt, pid))
        lines = [l for l in rc.stdout.splitlines() if l.startswith(("VIOLATION", "OK ", "CHECK-BROKEN"))]
        kind = "missed" if rc.returncode == 0 else ("T-only" if any("no-failing-input-found" in l for l in lines) else "P") if rc.returncode == 1 else "broken"
        out[n] = {"property": pid, "demo_fails": rd.returncode != 0, "check_rc": rc.returncode, "caught": kind, "lines": lines[:2]}
        # keep the stored record current: the catch matrix in DESIGN.md is generated from meta.json
        head = sh("git -C /repo rev-parse --short HEAD").stdout.strip().splitlines()[-1]
        meta.setdefault("checks", {})[pid] = {"rc": rc.returncode, "lines": lines[:3]}
        meta["rechecked_on_repo_head"] = head
        meta["demo_with_change_rc_on_head"] = rd.returncode
        json.dump(meta, open(os.path.join(d, "meta.json"), "w"), indent=1)
    sh("git -C /repo worktree remove --force %s" % wt)
    print(n, json.dumps(out[n])[:260], flush=True)
json.dump(out, open(os.path.join(V, "build", "reseed.json"), "w"), indent=1)
# the checks rewrote the evidence files for the scratch trees: the caller re-runs ./check <ID> on /repo afterwards
