"""Generator of model-building programs for C04 (write/read round trip).

A case is a JSON program for harness/drivers/serial.py.  The generator keeps a
small symbolic mirror of the model it is building so that formulas, bases,
references and inputs mostly refer to things that exist.

Known-defect triggers of the pinned tree that the generator AVOIDS (each is a
decidable predicate on the case; witnesses live in corpus/C04/finding_*.json):
  D24  input assigned to a derived cells             -> inputs only on defined cells
  D33  refmode != auto on a non-object reference      -> refmode only on object refs
  D36  a reference name defined in two spaces that share a sub space, in an order the reader
       cannot replay (references are set after all bases)  -> later definition dropped
(see findings.d/C04.txt).  `avoid=False` switches the avoidance off (used to
look for the defects, never by the check)."""
import json

SPACE_NAMES = ["A", "B", "C", "S", "S2", "Sub", "Base", "P", "Q", "Aa"]
CELLS_NAMES = ["foo", "bar", "baz", "f1", "f2", "qux", "rec", "fo"]
REF_NAMES = ["r1", "r2", "x", "y", "ob", "ob2", "lit", "dat", "r"]
PARAM_SETS = [["n"], ["n", "k"], ["i"]]

SAFE_DOCS = ["", "doc", "A space.", "two\nlines", "  indented\n    more\n", "quote ' single", "dq \" inside",
             "two \"\" dq x", "ünï©ode ✓ λ", "tab\there", "ends with quote'", "#hash", "{brace} %s %d",
             "\"starts with dq", "a''' b", "trailing space ", "\n", "x" * 120]
UNSAFE_DOCS = ["ends with dq\"", "has \"\"\" triple", "back\\slash", "bs at end\\", "cr\rhere", "\\n literal"]

LIT_VALUES = [0, 1, -1, 7, 2 ** 70, -(2 ** 65), True, False, None, 0.5, -1.25, 1e300, 1e-7, 3.0, -0.0,
              "", "abc", "it's", "say \"hi\"", "back\\slash", "new\nline", "tab\t", "ünï©ode ✓", "'''", "\"\"\"",
              "\x7f", "\r\n", "(\"Interface\", 1)", "None", "x" * 200]
PY_VALUES = ["float('nan')", "float('inf')", "-float('inf')", "[1, 2, 3]", "(1, 'a', None)", "{'a': 1, 'b': [2, 3]}",
             "{1, 2, 3}", "frozenset({'a'})", "[]", "()", "{}", "(1,)", "Fraction(1, 3)", "Decimal('1.10')",
             "date(2020, 2, 29)", "b'bytes\\x00'", "complex(1, -2)", "range(3)", "[[1, [2, [3]]], {'k': (1, 2)}]",
             "{(1, 2): 'tuple key'}", "OrderedDict([('z', 1), ('a', 2)])", "2 ** 100", "[float('nan')]",
             # instances of SUBCLASSES of int / float / str (seeded/C04_r4: written as the plain literal)
             "HTTPStatus.NOT_FOUND", "HTTPStatus.OK", "Signals.SIGINT", "c15lits.Rate(0.25)", "c15lits.Code('GB-LDN')",
             "c15lits.Num(7)", "c15lits.Basis.ACT360", "[HTTPStatus.OK, 200]"]
INPUT_VALUES = [0, 1, -5, 100, 2 ** 64, 2.5, "s", True]
INPUT_PY = ["(1, 2)", "[1, 2]", "{'a': 1}", "Fraction(1, 2)", "float('inf')"]


def safe_doc(d):
    """exact condition under which '\"\"\"' + d + '\"\"\"' is read back as d"""
    return ("\\" not in d) and ('"""' not in d) and (not d.endswith('"')) and ("\r" not in d) and ("\x00" not in d)


class Sp:
    def __init__(self, path, params):
        self.path = path
        self.params = params          # list of parameter names or None
        self.cells = {}               # name -> (nparams, cached, defined)
        self.refs = {}                # name -> kind ("int", "space", "cells", "other")
        self.children = []
        self.bases = []


class Gen:
    def __init__(self, rng, avoid=True, big=False):
        self.rng = rng
        self.avoid = avoid
        self.big = big
        self.ops = []
        self.spaces = {}              # tuple(path) -> Sp
        self.order = []
        self.mrefs = {}
        self.filtered = {"D24": 0, "D33": 0, "D36": 0, "D37": 0}
        self.deferred = []
        self.features = set()

    # -- helpers --------------------------------------------------------
    def pick(self, l):
        return l[self.rng.randrange(len(l))]

    def chance(self, p):
        return self.rng.random() < p

    def doc(self):
        # D9 is repaired in /repo: documentation that is not [safe_doc] (quote at the end, triple quotes, backslashes,
        # carriage returns) is generated for models, spaces and lambda cells
        if self.chance(0.25):
            return self.pick(UNSAFE_DOCS)
        return self.pick(SAFE_DOCS)

    def all_bases(self, sp, seen=None):
        seen = seen if seen is not None else []
        for b in sp.bases:
            bs = self.spaces[b]
            if bs not in seen:
                seen.append(bs)
                self.all_bases(bs, seen)
        return seen

    def has_subs(self, sp):
        return any(sp in self.all_bases(s) for s in self.order)

    def visible_cells(self, sp):
        d = {}
        for b in reversed(self.all_bases(sp)):
            for n, v in b.cells.items():
                d[n] = (v[0], v[1], False)
        d.update(sp.cells)
        return d

    def visible_refs(self, sp, with_model=True):
        d = dict(self.mrefs) if with_model else {}
        for b in reversed(self.all_bases(sp)):
            d.update(b.refs)
        d.update(sp.refs)
        return d

    def visible_params(self, sp):
        out = []
        p = sp
        while p is not None:
            if p.params:
                out += p.params
            p = self.spaces.get(tuple(p.path[:-1])) if len(p.path) > 1 else None
        return out

    # -- structure ------------------------------------------------------
    def gen_space(self, parent_path, depth):
        used = {s.path[-1] for s in self.spaces.values() if tuple(s.path[:-1]) == tuple(parent_path)}
        cand = [n for n in SPACE_NAMES if n not in used]
        if not cand:
            return None
        name = self.pick(cand)
        path = list(parent_path) + [name]
        op = {"op": "space", "parent": list(parent_path), "name": name}
        params = None
        if self.chance(0.3):
            params = self.pick(PARAM_SETS)
            form = self.rng.randrange(4)
            if params == ["n", "k"]:
                src = ["lambda n, k=2: None", "def _formula(n, k=2):\n    return None",
                       "lambda n, k=2: {'refs': {'nk': n * 10 + k}}", "lambda n, k=2: None"][form]
            else:
                p = params[0]
                src = ["lambda %s: None" % p, "def _formula(%s):\n    # comment\n    return None" % p,
                       "lambda %s: {'refs': {'%s2': %s * 2}}" % (p, p, p), "lambda %s: None" % p][form]
            op["formula"] = src
            self.features.add("space_formula_def" if src.startswith("def") else "space_formula_lambda")
        if self.chance(0.4):
            op["doc"] = self.doc()
        if self.chance(0.3):
            op["allow_none"] = self.pick([True, False])
        sp = Sp(path, params)
        # bases: earlier spaces that are neither ancestors nor descendants
        cands = [s for s in self.order if s.path != path[:len(s.path)] and s.path[:len(path)] != path]
        if cands and self.chance(0.45):
            k = 1 if self.chance(0.75) else 2
            chosen = []
            for _ in range(k):
                b = self.pick(cands)
                rel = [self.spaces[tuple(c)] for c in chosen]
                if b.path not in chosen and not any(b in self.all_bases(x) or x in self.all_bases(b) for x in rel):
                    chosen.append(b.path)
            if self.chance(0.4):
                op["bases"] = chosen
                self.ops.append(op)
                sp.bases = [tuple(c) for c in chosen]
            else:
                self.ops.append(op)
                self.deferred.append((sp, {"op": "add_bases", "space": path, "bases": chosen}, [tuple(c) for c in chosen]))
            self.features.add("bases")
            for c in chosen:
                if len(c) != len(path) or c[:-1] != path[:-1]:
                    self.features.add("bases_other_level")
        else:
            self.ops.append(op)
        self.spaces[tuple(path)] = sp
        self.order.append(sp)
        if parent_path:
            self.spaces[tuple(parent_path)].children.append(sp)
        return sp

    # -- formulas -------------------------------------------------------
    def gen_formula(self, sp, name, cached, want_def=None):
        """returns (source, nparams)"""
        r = self.rng
        k = r.randrange(1, 9)
        vc = self.visible_cells(sp)
        sibs1 = [n for n, v in vc.items() if v[0] == 1 and n != name]
        sibs0 = [n for n, v in vc.items() if v[0] == 0 and n != name]
        vr = self.visible_refs(sp)
        intrefs = [n for n, kd in vr.items() if kd == "int"]
        sprefs = [n for n, kd in vr.items() if isinstance(kd, tuple) and kd[0] == "space"]
        clrefs = [n for n, kd in vr.items() if isinstance(kd, tuple) and kd[0] == "cells"]
        params = self.visible_params(sp)
        lam = []
        lam += [("lambda x: x + %d" % k, 1), ("lambda x, y=%d: x * y" % k, 2), ("lambda: %d" % k, 0),
                ("lambda x: (x +\n    %d)" % k, 1), ("lambda x: 'q\"uote' * x", 1), ("lambda x: \"a\\\\b\" + str(x)", 1),
                ("lambda x: None", 1), ("lambda   x :x*%d" % k, 1), ("lambda x: [i for i in range(x)]", 1),
                ("lambda x: {'k': x, 'l': (x, x)}", 1), ("lambda x: x / %d" % k, 1)]
        dfs = []
        dfs += [("def %s(x):\n    return x * %d" % (name, k), 1),
                ("def %s(x, y=%d):\n    \"\"\"%s\"\"\"\n    return x - y" % (name, k, self.defdoc()), 2),
                ("def %s(x):\n    # comment\n    if x > 0:\n        return %s(x - 1) + 1  # trailing\n    return 0" % (name, name), 1),
                ("def %s(x):\n    '''single quoted doc'''\n    t = [i for i in range(x)]\n    return sum(t)" % name, 1),
                ("def %s():\n    return %d" % (name, k), 0),
                ("def %s(x):\n    return x  # final comment" % name, 1),
                ("def %s(x):\n    g = lambda y: y + %d\n\n    return g(x)" % (name, k), 1),
                ("def %s(x):\n    return None" % name, 1),
                # a form feed (and NEL) inside a literal, with a comment on the last line (FunctionDefParser re-attaches it)
                ("def %s(x):\n    t = 'a\x0cb\x85c'\n    return len(t) + x  # last" % name, 1),
                ("def %s(x, y):\n    s = \"str with # hash and \\\\ backslash\"\n    return len(s) + x + y" % name, 2)]
        if sibs1:
            s = r.choice(sibs1)
            lam.append(("lambda x: %s(x) + 1" % s, 1))
            dfs.append(("def %s(x):\n    return %s(x) * 2" % (name, s), 1))
        if sibs0:
            lam.append(("lambda x: %s() + x" % r.choice(sibs0), 1))
        if intrefs:
            rf = r.choice(intrefs)
            lam.append(("lambda x: %s if x > 0 else -%s" % (rf, rf), 1))
            dfs.append(("def %s(x):\n    return %s + x" % (name, rf), 1))
        for rf in sprefs[:2]:
            tgt = vr[rf][1]
            tsp = self.spaces.get(tuple(tgt))
            if tsp:
                c1 = [n for n, v in self.visible_cells(tsp).items() if v[0] == 1]
                if c1:
                    lam.append(("lambda x: %s.%s(x)" % (rf, r.choice(c1)), 1))
        for rf in clrefs[:2]:
            if vr[rf][2] == 1:
                lam.append(("lambda x: %s(x) - 1" % rf, 1))
        for p in params[:2]:
            lam.append(("lambda t: %s * t" % p, 1))
            dfs.append(("def %s(t):\n    return %s + t" % (name, p), 1))
        lam.append(("lambda t: t if t <= 0 else %s(t - 1) + %d" % (name, k), 1))
        if want_def is None:
            want_def = self.chance(0.45)
        return self.pick(dfs if want_def else lam)

    def defdoc(self):
        d = self.pick(["the doc", "multi\n    line doc", "with 'quotes'", "ünï", "x"])
        return d

    def gen_cells(self, sp):
        used = set(self.visible_cells(sp))      # a derived cells cannot be overridden by new_cells
        # D1 is repaired in /repo: names a sub space already sees through another base are generated again.  Names a
        # sub space DEFINES stay blocked: creating the base cells afterwards leaves the sub's cells in an order that a
        # read model does not reproduce (member order is not part of C04, but the write-read-write chain clause
        # compares file texts)
        for s2 in self.order:
            if sp in self.all_bases(s2):
                used |= set(s2.cells)
        cand = [n for n in CELLS_NAMES if n not in used]
        if not cand:
            return
        name = self.pick(cand)
        cached = not self.chance(0.3)
        want_def = None     # D8 (an uncached lambda cells came back cached) is repaired in /repo: lambdas generated
        src, npar = self.gen_formula(sp, name, cached, want_def)
        op = {"op": "cells", "space": sp.path, "name": name, "formula": src}
        an = self.pick([None, None, True, False])
        # D34 (allow_none assigned to a cells that already has derived copies did not reach them) is repaired in /repo
        if an is not None:
            op["allow_none"] = an
        if not cached:
            op["is_cached"] = False
            self.features.add("uncached")
        if src.startswith("lambda"):
            self.features.add("lambda_cells")
            if self.chance(0.3):
                op["doc"] = self.doc()      # "" included: D35 is repaired in /repo
                self.features.add("lambda_doc")
        else:
            self.features.add("def_cells")
        self.ops.append(op)
        sp.cells[name] = (npar, cached, True)

    # -- references -----------------------------------------------------
    def gen_value(self, allow_obj=True, owner=None):
        """returns (valuespec, kind)"""
        r = self.rng.random()
        if r < 0.4:
            v = self.pick(LIT_VALUES)
            kind = "int" if (type(v) is int) else "other"
            return {"t": "lit", "v": v}, kind
        if r < 0.6 or not allow_obj or not self.order:
            if self.chance(0.1):
                return {"t": "module", "name": self.pick(["math", "json", "os.path"])}, "other"
            return {"t": "py", "e": self.pick(PY_VALUES)}, "other"
        if r < 0.93:
            sp = self.pick(self.order)
            if sp.cells and self.chance(0.5):
                c = self.pick(sorted(sp.cells))
                return {"t": "obj", "path": sp.path + [c]}, ("cells", sp.path, sp.cells[c][0])
            return {"t": "obj", "path": sp.path}, ("space", sp.path)
        sp = self.pick(self.order)
        self.features.add("mixed_container")
        return {"t": "mix", "paths": [sp.path], "e": self.pick(["[o[0], 1]", "{'sp': o[0]}", "(o[0], (o[0],))"])}, "other"

    def item_args(self, sp):
        n = len(sp.params)
        if sp.params == ["n", "k"] and self.chance(0.5):
            return [self.rng.randrange(1, 4)]
        return [self.rng.randrange(1, 4) for _ in range(n)]

    def gen_ref(self, sp):
        """sp None -> model level"""
        names = self.mrefs if sp is None else sp.refs
        taken = set(names)
        if sp is not None:
            for s2 in self.order:       # a sub space that already has the name rejects / hides the new one
                if sp in self.all_bases(s2):
                    taken |= set(self.visible_refs(s2, False))
        cand = [n for n in REF_NAMES if n not in taken]
        if not cand:
            return
        name = self.pick(cand)
        val, kind = self.gen_value()
        op = {"op": "ref", "owner": [] if sp is None else sp.path, "name": name, "value": val}
        if sp is not None:
            mode = self.pick(["auto", "auto", "absolute", "relative"])
            if mode == "relative" and val["t"] == "obj" and val["path"][:len(sp.path)] != sp.path and self.chance(0.8):
                mode = "absolute"       # relative references out of the owner's tree are mostly rejected
            if val["t"] != "obj" or any(isinstance(s, list) for s in val["path"]):
                if mode != "auto" and self.avoid:
                    # D33: the mode of a non-object reference is not written
                    self.filtered["D33"] += 1
                    mode = "auto"
            op["refmode"] = mode
            if mode == "auto" and self.chance(0.3):
                op["how"] = "attr"
            self.features.add("refmode_" + mode)
        self.features.add("ref_" + val["t"])
        self.ops.append(op)
        names[name] = kind

    def preorder(self):
        out = []

        def walk(sp):
            out.append(sp)
            for c in sp.children:
                walk(c)
        for sp in self.order:
            if len(sp.path) == 1:
                walk(sp)
        return out

    def fix_d37(self):
        """D37 (C10 domain, repaired in /repo): an auto/relative reference to a child space (or to something below it)
        was re-bound in sub spaces to a counterpart that does not exist there (child spaces are not inherited);
        whether the derived reference ended up null depended on the order of the edits.  Generated again (counted)."""
        for o in self.ops:
            if o["op"] == "ref" and o["owner"] and o["value"]["t"] == "obj" and o.get("refmode") != "absolute":
                sp = self.spaces[tuple(o["owner"])]
                tp = o["value"]["path"]
                inside = tp[:len(sp.path)] == sp.path and (len(tp) > len(sp.path) + 1 or tuple(tp) in self.spaces) and tp != sp.path
                if inside and self.has_subs(sp):
                    self.filtered["D37"] += 1      # counted only: D37 is repaired in /repo (65b8db4), the shape is generated
                # D36_relative_ref_base_first: a RELATIVE reference to an object outside the owner's tree can only
                # exist next to sub spaces that override the name; the reader sets the base's reference first and fails
                if o.get("refmode") == "relative" and tp[:len(sp.path)] != sp.path and self.has_subs(sp):
                    self.filtered["D36"] += 1
                    o["refmode"] = "absolute"

    def drop_d36(self):
        """D36: the reader sets references after all bases, space by space in tree order; creating
        reference N in X is refused when X does not have N yet but one of its sub spaces does."""
        seen = {tuple(sp.path): set() for sp in self.order}
        for sp in self.preorder():
            subs = [s2 for s2 in self.order if sp in self.all_bases(s2)]
            for n in list(sp.refs):
                key = tuple(sp.path)
                if n not in seen[key] and any(n in seen[tuple(y.path)] for y in subs):
                    self.filtered["D36"] += 1
                    self.ops = [o for o in self.ops if not (o["op"] == "ref" and o["owner"] == sp.path and o["name"] == n)]
                    del sp.refs[n]
                    continue
                seen[key].add(n)
                for y in subs:
                    seen[tuple(y.path)].add(n)

    # -- inputs ---------------------------------------------------------
    def gen_input_value(self):
        if self.chance(0.8):
            return {"t": "lit", "v": self.pick(INPUT_VALUES)}
        return {"t": "py", "e": self.pick(INPUT_PY)}

    def gen_key(self, npar):
        ks = []
        for _ in range(npar):
            r = self.rng.random()
            ks.append(self.rng.randrange(0, 6) if r < 0.8 else self.pick(["a", "key", -3, 2 ** 66, "S.foo", 1.5, True, None]))
        return ks

    def gen_input(self, sp):
        vc = self.visible_cells(sp)
        cs = [n for n, v in vc.items() if v[1]]
        if not cs:
            return
        c = self.pick(sorted(cs))
        if not vc[c][2]:
            if self.avoid:
                self.filtered["D24"] += 1
                return
        self.ops.append({"op": "input", "cells": sp.path + [c], "key": self.gen_key(vc[c][0]), "value": self.gen_input_value()})
        self.features.add("input")

    def gen_item_input(self, sp):
        """input inside an ItemSpace of sp (sp has parameters)"""
        steps = sp.path + [["item", self.item_args(sp)]]
        cur = sp
        # descend into children with some probability
        while cur.children and self.chance(0.35):
            cur = self.pick(cur.children)
            steps.append(cur.path[-1])
            if cur.params:
                steps.append(["item", self.item_args(cur)])
                self.features.add("nested_itemspace")
            else:
                self.features.add("itemspace_child")
        if cur.params and not isinstance(steps[-1], list):
            steps.append(["item", self.item_args(cur)])
        vc = self.visible_cells(cur)
        cs = [n for n, v in vc.items() if v[1]]
        if not cs:
            return
        c = self.pick(sorted(cs))
        self.ops.append({"op": "input", "cells": steps + [c], "key": self.gen_key(vc[c][0]), "value": self.gen_input_value()})
        self.features.add("item_input")

    # -- whole case -----------------------------------------------------
    def build(self, cid):
        r = self.rng
        name = self.pick(["M", "Model1", "mdl", "Z9"])
        mop = {"op": "model"}
        if self.chance(0.5):
            mop["doc"] = self.doc()
        if self.chance(0.3):
            mop["allow_none"] = self.pick([True, False])
        self.ops.append(mop)
        ntop = r.randrange(1, 5 if self.big else 4)
        maxsp = 10 if self.big else 7
        for _ in range(ntop):
            self.gen_space([], 1)
        # nested
        for _ in range(r.randrange(0, 6)):
            if len(self.order) >= maxsp:
                break
            par = self.pick(self.order)
            if len(par.path) < 3:
                self.gen_space(par.path, len(par.path) + 1)
        # members, interleaved; the deferred add_bases happen somewhere in between
        nmem = r.randrange(2, 14 if self.big else 10)
        cut = r.randrange(0, nmem + 1)
        for i in range(nmem + 1):
            if i == cut:
                for sp, op, bs in self.deferred:
                    self.ops.append(op)
                    sp.bases = bs
            if i == nmem:
                break
            sp = self.pick(self.order)
            x = r.random()
            if x < 0.5:
                self.gen_cells(sp)
            elif x < 0.8:
                self.gen_ref(sp)
            else:
                self.gen_ref(None)
        for _ in range(r.randrange(0, 5)):
            self.gen_input(self.pick(self.order))
        psp = [s for s in self.order if s.params]
        # top-level parametrised spaces only (an ItemSpace of a nested one is reached from its static parent)
        for _ in range(r.randrange(0, 4)):
            if psp:
                self.gen_item_input(self.pick(psp))
        if self.avoid:
            self.drop_d36()
            self.fix_d37()
        if self.chance(0.3) and self.order:
            self.ops.append({"op": "setdoc", "target": self.pick(self.order).path, "doc": self.doc()})
        # probes
        probes = []
        for sp in self.order:
            vc = self.visible_cells(sp)
            for n, v in sorted(vc.items()):
                for _ in range(2):
                    args = [r.randrange(0, 5) for _ in range(v[0])]
                    probes.append([sp.path + [n], args])
                    if sp.params:
                        probes.append([sp.path + [["item", self.item_args(sp)], n], args])
        # replay of the inputs as probes (value must come back)
        for op in self.ops:
            if op["op"] == "input":
                probes.append([op["cells"], op["key"]])
        r.shuffle(probes)
        probes = probes[:40]
        return {"id": cid, "name": name, "ops": self.ops, "probes": probes,
                "eval_before": self.chance(0.5), "chain": self.chance(0.35),
                "features": sorted(self.features), "filtered": self.filtered}


def gen_case(rng, cid, avoid=True, big=False):
    return Gen(rng, avoid, big).build(cid)


def canonical_key(case):
    return json.dumps([case["ops"], case["name"]], sort_keys=True)


DOC_ALPHABET = ['"', '"', '"', "\\", "a", "b", " ", "\n", "'", "n", "x", "0", "é", "\t", "#", "{", "u", "N"]


def random_doc(rng):
    """documentation-like text biased towards quotes and backslashes (Serial/Lexer.v tie)"""
    n = rng.randrange(0, 9)
    return "".join(rng.choice(DOC_ALPHABET) for _ in range(n))
