"""C14  Saving never loses the last good save; failed saves and loads leave no residue.

Implementation side: harness/drivers/backup.py (fault injection by monkey-patching
in the driver process; every call of a patched primitive is one fault point).
Model side: coq/theories/Backup/Model.v ([check_case] replays the same operations
with the same fault points and compares trace, exception, flags, registry and what
each of <path>, <path>_BAK1.._BAK3 holds).

Known defects of the pinned tree whose trigger the generator avoids (witnesses in
corpus/C14/finding_*.json, replayed through the (P) oracle on every run):
  (D17_dir_double_fault, a faulted *directory* save immediately followed by another faulted
   save, is repaired in /repo and generated again: cases tagged double-dir*)
  (load_fail_renames_existing, a load failing after the "_name" line while a model of the same
   name is open, is repaired in /repo and generated again)
"""
import os, json, glob, itertools
import fw
from fw import cnat, cbool, clist, ctuple, copt, capp, Outcome

KINDS_QUICK = ["plain", "nopickle", "nested", "module", "dyn"]
KINDS = KINDS_QUICK
CORPUS = os.path.join(fw.VERIF, "corpus", "C14")
TMP = os.path.join(fw.BUILD, "C14tmp")
REQ = ["Backup.Model"]
CASE_T = "list (op * option obs)"

TRUSTED = ["C14: fault injection = OSError raised by monkey-patched pathlib.Path.rename/mkdir/unlink, shutil.rmtree/move, "
           "ziputil.write_file/read_file/copy_file/make_root, tempfile.TemporaryDirectory, (IOSpec|Model)(P|Unp)ickler.dump/load "
           "in the driver process (harness/drivers/backup.py); atomicity of rename/move/rmtree is assumed (a fault leaves the primitive undone)"]
ASSUMPTIONS = ["Path.rename / shutil.move / rmtree are atomic: an injected fault raises before the primitive runs",
               "a save's member sequence (shape) is taken from a clean save of the same model and is the same for every generation",
               "max_backups = 3 (DEFAULT_MAX_BACKUPS); theorems are for the four paths <path>, _BAK1.._BAK3"]


# --------------------------------------------------------------------------
# shapes (the content dependent part of a save / load) from clean traces
# --------------------------------------------------------------------------
SOP = {"open": "SOpen", "fill": "SFill", "dump": "SDump", "copy": "SCopy", "tmpdir": "STmp", "cleanup": "SCleanup",
       "ropen": "SROpen", "rfill": "SRFill", "load": "SLoad"}


def sop(t):
    if t[0] == "mkdir":
        return "(SMkdir %s)" % cbool(bool(t[1]))
    if t[0] not in SOP:
        return "SCopy"      # not a member operation of the model: the traces will disagree (tie mismatch)
    return SOP[t[0]]


def top(t):
    k = t[0]
    if k == "mv":
        return "(TMv %d %d)" % (t[1], t[2])
    if k == "rm":
        return "(TRm %d)" % t[1]
    if k == "mkdir":
        return "(TMkdir %s)" % cbool(bool(t[1]))
    if k == "move":
        return "(TMove %d)" % (t[1] if t[1] is not None else 99)
    simple = {"tmpdir": "TTmpdir", "mkroot": "TMkroot", "open": "TOpen", "fill": "TFill", "dump": "TDump",
              "copy": "TCopy", "cleanup": "TCleanup", "ropen": "TROpen", "rfill": "TRFill", "load": "TLoad"}
    if k in simple:
        return simple[k]
    return "(TRm 98)"        # an operation the model does not know: can never agree


class Shapes:
    """clean-trace shapes per (kind, fmt)"""

    def __init__(self):
        self.save, self.load = {}, {}
        self.frame_bad = []     # clean traces whose fixed frame is not the modelled one (-> tie mismatch)

    @staticmethod
    def strip(tr, pro, epi):
        ok = tr[:len(pro)] == pro and (not epi or tr[-len(epi):] == epi) and len(tr) >= len(pro) + len(epi)
        if ok:
            return tr[len(pro):len(tr) - len(epi)], True
        i = 0
        while i < len(pro) and i < len(tr) and tr[i] == pro[i]:
            i += 1
        return tr[i:], False

    def calibrate(self, kinds):
        cases = [{"model": k, "saves": [{"fmt": f, "fault": None}], "observe": "none", "loads": [{"fault": None, "name": "R"}]}
                 for k in kinds for f in ("zip", "dir")]
        res = fw.run_driver("backup", cases, chunk=1)
        for c, r in zip(cases, res):
            if "driver_error" in r:
                raise fw.Broken("calibration failed for %r: %s" % (c, r.get("tb")))
            k, f = c["model"], c["saves"][0]["fmt"]
            tr = r["saves"][0]["trace"]
            if f == "zip":
                pro, epi = [["tmpdir"], ["mkdir", 1], ["mkroot"]], [["move", 0], ["cleanup"]]
            else:
                pro, epi = [["mkdir", 1]], []
            self.save[(k, f)], ok = self.strip(tr, pro, epi)
            if not ok or r["saves"][0]["exc"]:
                self.frame_bad.append({"case": c, "detail": "clean %s save of %s: operations %r (exception %r) do not have the modelled frame"
                                       % (f, k, tr, r["saves"][0]["exc"])})
            lt = r["loads"][0]["trace"]
            if f == "zip":
                pro, epi = [["ropen"], ["rfill"], ["tmpdir"], ["ropen"], ["rfill"]], [["cleanup"]]
            else:
                pro, epi = [["ropen"], ["rfill"], ["ropen"], ["rfill"]], []
            self.load[(k, f)], ok = self.strip(lt, pro, epi)
            if not ok or r["loads"][0]["exc"]:
                self.frame_bad.append({"case": c, "detail": "clean load of a %s save of %s: operations %r (exception %r) do not have the modelled frame"
                                       % (f, k, lt, r["loads"][0]["exc"])})

    def nsave(self, k, f):
        return len(self.save[(k, f)]) + (5 if f == "zip" else 1)

    def nload(self, k, f):
        return len(self.load[(k, f)]) + (6 if f == "zip" else 4)


# --------------------------------------------------------------------------
# case generation
# --------------------------------------------------------------------------
def sv(fmt, fault=None, **kw):
    d = {"fmt": fmt, "fault": fault}
    d.update(kw)
    return d


def calm(saves):
    """the former trigger of D17 (a faulted dir save directly followed by a faulted save) is repaired in /repo: every
    sequence is generated"""
    return True


def d17_shaped(saves):
    for a, b in zip(saves, saves[1:]):
        if a["fmt"] == "dir" and (a["fault"] is not None or a.get("natural")) and (b["fault"] is not None or b.get("natural")):
            return True
    return False


def gen_cases(tier, rng, sh, out):
    cases, filtered = [], 0
    kinds = KINDS_QUICK if tier == "quick" else KINDS

    def add(kind, saves, final, tag, observe_from=0):
        nonlocal filtered
        if not calm(saves):
            filtered += 1
            return
        cases.append({"model": kind, "saves": saves, "final": final, "tag": tag, "observe_from": observe_from})

    # A. every fault point of one save after n clean saves (pure and mixed formats)
    for kind in kinds:
        if tier != "quick":
            prefixes = [0, 1, 2, 3, 4, 5]
        else:
            prefixes = [0, 2, 4] if kind in ("plain", "module") else [1, 4]
        for f in ("zip", "dir"):
            for n in prefixes:
                for k in range(sh.nsave(kind, f) + min(n, 4) + 1):
                    add(kind, [sv(f) for _ in range(n)] + [sv(f, k)], f, "single", observe_from=max(0, n - 1))
        mixes = [["zip", "dir"], ["dir", "zip"]] if tier == "quick" else [list(p) for p in itertools.product(("zip", "dir"), repeat=2)] + [["dir", "zip", "dir"], ["zip", "dir", "zip"]]
        for pre in mixes:
            for f in ("zip", "dir"):
                if tier == "quick" and kind not in ("plain", "module"):
                    continue
                for k in range(sh.nsave(kind, f) + len(pre) + 1):
                    add(kind, [sv(x) for x in pre] + [sv(f, k)], pre[0], "mixed")
    # B. two faulted saves in a row (zip: every pair; dir first was the D17 trigger: every second pair)
    for kind in (["plain"] if tier == "quick" else ["plain", "module", "nested"]):
        nd = sh.nsave(kind, "dir") + 1
        nz = sh.nsave(kind, "zip") + 1
        for k1 in range(0, nd + 1, 1 if tier != "quick" else 2):
            for k2 in range(k1 % 2, nd + 1, 2):
                add(kind, [sv("dir"), sv("dir", k1), sv("dir", k2)], "dir", "double-dir")
            for k2 in range(k1 % 3, nz + 1, 3):
                add(kind, [sv("zip"), sv("dir", k1), sv("zip", k2)], "zip", "double-dir-zip")
        add(kind, [sv("dir"), sv("dir", 3), sv("dir", 4), sv("dir", 5), sv("dir", 6)], "dir", "four-failed-dir")
    for kind in (["plain"] if tier == "quick" else ["plain", "module", "nested"]):
        n1 = sh.nsave(kind, "zip") + 1
        for k1 in range(n1 + 1):
            for k2 in range(k1 % 2 if tier == "quick" else 0, n1 + 1, 2 if tier == "quick" else 1):
                add(kind, [sv("zip"), sv("zip", k1), sv("zip", k2)], "zip", "double-zip")
        if tier != "quick" or kind == "plain":
            nd = sh.nsave(kind, "dir") + 1
            for k1 in range(0, n1 + 1, 1 if tier != "quick" else 3):
                for k2 in range(0, nd + 1, 1 if tier != "quick" else 2):
                    add(kind, [sv("dir"), sv("zip", k1), sv("dir", k2)], "dir", "double-zip-dir")
    # C. random sequences of 1..4 saves (then a clean one), faults anywhere, natural pickling failures
    nrand = 200 if tier == "quick" else 4000
    tries = 0
    while nrand > 0 and tries < 100000:
        tries += 1
        kind = rng.choice(kinds)
        saves = []
        for _ in range(rng.randint(1, 4)):
            f = rng.choice(("zip", "dir"))
            r = rng.random()
            if r < 0.45:
                saves.append(sv(f))
            elif r < 0.93 or kind == "nopickle":
                saves.append(sv(f, rng.randrange(sh.nsave(kind, f) + 5)))
            else:
                saves.append(sv(f, None, natural=True))
        if not calm(saves):
            filtered += 1
            continue
        nrand -= 1
        cases.append({"model": kind, "saves": saves, "final": rng.choice(("zip", "dir")), "tag": "random"})
    # D. backup=False saves (max_backups = 0): model fidelity only, the property is not claimed there
    for kind in (["plain"] if tier == "quick" else kinds):
        for f in ("zip", "dir"):
            for k in [None] + list(range(0, sh.nsave(kind, f) + 2, 1 if tier != "quick" else 3)):
                cases.append({"model": kind, "saves": [sv(f), sv(f, k, backup=False)], "final": f, "tag": "nobackup"})
    # E. loads: every read operation as the point of failure, both formats; damaged copies
    for kind in kinds:
        for f in ("zip", "dir"):
            n = sh.nload(kind, f)
            loads = [{"fault": None, "name": "R"}] + [{"fault": k, "name": "R"} for k in range(n + 1)] + [{"fault": None}]
            # without name=: the open model of that name is renamed aside at the "_name" line and must get its name back
            loads += [{"fault": k} for k in range(n + 1)]
            # the same failure points as a BaseException that is no Exception (KeyboardInterrupt), under the live name
            loads += [{"fault": k, "fkind": "interrupt"} for k in range(n + 1)]
            cases.append({"model": kind, "saves": [sv(f)], "loads": loads, "final": None, "tag": "loads"})
            nmembers = 12
            dmg = [{"corrupt": {"what": w, "index": i}, "name": "R"} for i in range(nmembers) for w in ("delete", "truncate")]
            cases.append({"model": kind, "saves": [sv(f)], "loads": dmg, "final": None, "tag": "damaged", "ponly": True})
    out.notes.append("D17 is repaired in /repo: %d generated sequences hold a faulted directory save directly followed by a faulted save"
                     % sum(1 for c in cases if d17_shaped(c["saves"])))
    return cases


# --------------------------------------------------------------------------
# emitting a case for the model
# --------------------------------------------------------------------------
def emit_slot(o):
    if o["k"] == "absent":
        return "OAbsent"
    rd = None
    if o.get("read", ["fail"])[0] == "ok":
        vals = [v if isinstance(v, int) and not isinstance(v, bool) and 0 <= v < 4000 else 4999 for v in o["read"][1]]
        rd = clist([cnat(v) for v in vals])
    return "(OEnt %s %s %s)" % (cbool(o["k"] == "dir"), cnat(o["n"]), copt(rd))


def emit_obs(r, with_slots=True):
    rv = r["regview"]
    slots = copt(clist([emit_slot(o) for o in r["slots"]])) if with_slots and "slots" in r else "None"
    return "(mkO %s %s %s %s %s)" % (cbool(r["exc"] is not None), clist([top(t) for t in r["trace"]]),
                                    cbool(any(r["flags"])), slots,
                                    ctuple([cbool(rv[0]), cbool(rv[1]), cnat(rv[2])]))


def natural_fault(r):
    """index of the pickling operation that failed by itself"""
    idx = [i for i, t in enumerate(r["trace"]) if t[0] == "dump"]
    return idx[-1] if idx and r["exc"] else None


def emit_case(c, r, sh):
    items = []
    kind = c["model"]

    def save_term(s, res):
        fl = s["fault"]
        if s.get("natural"):
            fl = natural_fault(res)
        shape = clist([sop(t) for t in sh.save[(kind, s["fmt"])]])
        return "(OSave %s %s %s %s)" % (cbool(s.get("backup", True)), "Zip" if s["fmt"] == "zip" else "Dir", shape,
                                      copt(None if fl is None else cnat(fl)))
    for s, res in zip(c["saves"], r["saves"]):
        items.append(ctuple([save_term(s, res), copt(emit_obs(res))]))
    last_fmt = None
    for s, res in zip(c["saves"], r["saves"]):
        pass
    for ld, res in zip(c.get("loads", []), r.get("loads", [])):
        f = "Zip" if res.get("fmt_loaded") == "zip" else "Dir"
        shape = clist([sop(t) for t in sh.load[(kind, res["fmt_loaded"])]])
        t = 1 if ld.get("name") else 0
        items.append(ctuple(["(OLoad %d %s %s %s)" % (t, f, shape, copt(None if ld.get("fault") is None else cnat(ld["fault"]))),
                             copt(emit_obs(res, False))]))
        items.append(ctuple(["OReset", "None"]))
    if c.get("final"):
        items.append(ctuple([save_term({"fmt": c["final"], "fault": None}, r["final"]), copt(emit_obs(r["final"]))]))
    return clist(items)


# --------------------------------------------------------------------------
# (P) the property itself, evaluated on what the implementation did
# --------------------------------------------------------------------------
def complete_gen(o):
    """generation of a completely written, readable copy, else None"""
    if o["k"] == "absent" or o.get("read", ["fail"])[0] != "ok":
        return None
    vals = o["read"][1]
    if vals and all(isinstance(v, int) and v == vals[0] for v in vals) and vals[0] > 0:
        return vals[0]
    return None


def sig(o):
    return (o["k"], o.get("n"), complete_gen(o))


def rotate(slots):
    """what _increment_backups should make of the four slots (specification: shift into the first hole,
    drop what falls off the end)"""
    if slots[0]["k"] == "absent":
        return list(slots)
    new, carry = [{"k": "absent"}], slots[0]
    for i, x in enumerate(slots[1:], 1):
        new.append(carry)
        if x["k"] == "absent":
            return new + list(slots[i + 1:])
        carry = x
    return new


def oracle_saves(c, r, strict=True):
    """returns a list of failure strings"""
    fails = []
    last_ok = None
    prev = None
    steps = list(zip(c["saves"], r["saves"], range(1, len(c["saves"]) + 1)))
    if c.get("final"):
        steps.append(({"fmt": c["final"], "fault": None}, r["final"], len(c["saves"]) + 1))
    allzip = True
    for s, res, g in steps:
        where = "after save %d (%s, fault=%r%s)" % (g, s["fmt"], s.get("fault"), ", natural" if s.get("natural") else "")
        allzip = allzip and s["fmt"] == "zip"
        backup = s.get("backup", True)
        if res["exc"] is None:
            last_ok = g
        if any(res["flags"]):
            fails.append("%s: serializing flags still set %r" % (where, res["flags"]))
        if res["regview"] != [True, False, 0]:
            fails.append("%s: registry changed by a save: %r" % (where, res["models"]))
        if s.get("fault") is None and not s.get("natural") and res["exc"] is not None:
            fails.append("%s: a save without an injected fault raised %s" % (where, res["exc"]))
        if "slots" not in res:
            prev = None
            continue
        sl = res["slots"]
        gens = [complete_gen(o) for o in sl]
        for i, o in enumerate(sl):
            if o.get("residue"):
                fails.append("%s: reading slot %d left models registered: %r" % (where, i, o["residue"]))
            if o.get("flags"):
                fails.append("%s: reading slot %d left the serializing flags set" % (where, i))
        if backup and strict:
            if last_ok is not None and not any(x is not None and x >= last_ok for x in gens[:2]):
                fails.append("%s: the most recent completely written copy (generation %d) is neither at <path> nor at _BAK1: %r"
                             % (where, last_ok, gens))
            known = [x for x in gens if x is not None]
            if any(a <= b for a, b in zip(known, known[1:])):
                fails.append("%s: generations are not in decreasing order: %r" % (where, gens))
            if prev is not None:
                pg = [complete_gen(o) for o in prev]
                lost = [x for x in pg[:3] if x is not None and x not in gens]
                if lost:
                    fails.append("%s: earlier complete generation(s) %r dropped (before %r, after %r)" % (where, lost, pg, gens))
                if res["exc"] is None and [sig(o) for o in sl[1:]] != [sig(o) for o in rotate(prev)[1:]]:
                    fails.append("%s: a successful save did not shift the backups in order (before %r, after %r)"
                                 % (where, [sig(o) for o in prev], [sig(o) for o in sl]))
        if res["exc"] is None and gens[0] != g:
            fails.append("%s: the save returned normally but <path> does not hold generation %d: %r" % (where, g, sl[0]))
        if sl[0]["k"] == "file" and (gens[0] is None or not sl[0].get("zipok")):
            fails.append("%s: <path> holds a partially written / unreadable archive: %r" % (where, sl[0]))
        if allzip and sl[0]["k"] == "dir":
            fails.append("%s: zip saves only, but <path> is a directory" % where)
        if res.get("extra"):
            fails.append("%s: stray files next to the model path: %r" % (where, res["extra"]))
        prev = sl
    return fails


def oracle_loads(c, r):
    fails, renames = [], []
    for i, (ld, res) in enumerate(zip(c.get("loads", []), r.get("loads", []))):
        where = "load %d %r" % (i, ld)
        if any(res["flags"]):
            fails.append("%s: serializing flags still set" % where)
        if res["exc"] is not None:
            if res["new"]:
                fails.append("%s: failed with %s but left model(s) %r registered" % (where, res["exc"], res["new"]))
            if res["gone"]:
                fails.append("%s: failed and removed open model(s) %r" % (where, res["gone"]))
            if res["renamed"]:
                renames.append("%s: failed with %s but renamed open model(s) %r" % (where, res["exc"], res["renamed"]))
        else:
            if len(res["new"]) != 1:
                fails.append("%s: succeeded but registered %r" % (where, res["new"]))
            v = res["vals"]
            if not ld.get("corrupt") and not (isinstance(v, list) and v and all(x == 1 for x in v)):
                fails.append("%s: a clean load returned %r" % (where, v))
        if res["after"][0] != "ok" or not all(x == 1 for x in res["after"][1]):
            fails.append("%s: a clean load afterwards does not work: %r" % (where, res["after"]))
    return fails, renames


def script_for(c):
    c2 = {k: v for k, v in c.items() if k not in ("tag",)}
    return ("# stand-alone: runs the case on the real modelx with fault injection, prints the observations\n"
            "echo '%s' | PYTHONPATH=%s:%s/harness PYTHONHASHSEED=0 /venv/bin/python %s/harness/drivers/backup.py\n"
            % (json.dumps([c2]), fw.repo(), fw.VERIF, fw.VERIF))


# --------------------------------------------------------------------------
def run_cases(cases):
    """every run works below its own directory /verif/build/C14tmp/run_<pid> and removes it"""
    import shutil
    mine = os.path.join(TMP, "run_%d" % os.getpid())
    os.makedirs(mine, exist_ok=True)
    os.environ["C14_TMP"] = mine
    try:
        return fw.run_driver("backup", cases, chunk=max(1, min(40, (len(cases) + fw.JOBS - 1) // fw.JOBS)))
    finally:
        shutil.rmtree(mine, ignore_errors=True)
        try:
            os.rmdir(TMP)
        except OSError:
            pass


def witnesses(out, sh):
    for path in sorted(glob.glob(os.path.join(CORPUS, "finding_*.json"))):
        w = json.load(open(path))
        key = w["key"]
        res = run_cases([w["case"]])[0]
        if "driver_error" in res:
            raise fw.Broken("witness %s: %s" % (key, res["tb"]))
        fails = oracle_saves(w["case"], res)
        lf, renames = oracle_loads(w["case"], res)
        fails += lf + renames
        hit = [f for f in fails if w["expect"] in f]
        other = [f for f in fails if w["expect"] not in f]
        fw.witness_result(out, "C14", key, bool(hit), w["text"], {"case": w["case"], "script": script_for(w["case"])})
        for f in other:
            out.p_failures.append({"case": w["case"], "detail": "witness %s: %s" % (key, f), "script": script_for(w["case"])})
        out.extra.setdefault("witnesses", {})[key] = {"still_fails": bool(hit), "observed": hit[:1]}


def run(tier, seed, rng):
    out = Outcome()
    out.rule = ("one case = a tiny model (5 kinds: plain / no pickle / nested spaces + pickled reference / module IOSpec / ItemSpace input) "
                "and a sequence of saves (zip or directory; each a new generation) of which any may fail at a chosen operation index "
                "(enumerated exhaustively for single faults after 0-4 clean saves and for pairs of zip faults; random mixes), followed by a "
                "clean save; plus loads failing at every read operation and loads of damaged copies.  Non-trivial = at least one injected or "
                "natural fault actually fired; distinct by (model kind, operation list).")
    sh = Shapes()
    sh.calibrate(KINDS_QUICK if tier == "quick" else KINDS)
    # corpus first
    corpus = []
    for path in sorted(glob.glob(os.path.join(CORPUS, "case_*.json"))):
        corpus.append(dict(json.load(open(path)), tag="corpus"))
    cases = corpus + gen_cases(tier, rng, sh, out)
    res = run_cases(cases)
    terms, idx = [], []
    dist = {}
    fired = set()
    for i, (c, r) in enumerate(zip(cases, res)):
        if "driver_error" in r:
            raise fw.Broken("driver error on %r: %s" % (c, r.get("tb")))
        dist[c["tag"]] = dist.get(c["tag"], 0) + 1
        for ld, lr in zip(c.get("loads", []), r.get("loads", [])):
            lr["fmt_loaded"] = c["saves"][-1]["fmt"]
        fails = oracle_saves(c, r, strict=(c["tag"] != "nobackup"))
        lf, renames = oracle_loads(c, r)
        for f in fails + lf + renames:
            out.p_failures.append({"case": c, "detail": f, "script": script_for(c)})
        anyf = any(s["fired"] or (s["exc"] and not s["fired"]) for s in r["saves"]) or any(l["exc"] for l in r.get("loads", []))
        if anyf:
            fired.add(json.dumps({k: c[k] for k in ("model", "saves", "loads", "final") if k in c}, sort_keys=True))
        if not c.get("ponly"):
            terms.append(emit_case(c, r, sh))
            idx.append(i)
    bad = fw.run_coq_cases("C14", REQ, CASE_T, "check_case", terms, shard=120)
    for j in bad:
        i = idx[j]
        out.tie_mismatches.append({"case": cases[i], "impl": res[i], "detail": "Backup/Model.v and the implementation disagree",
                                   "script": script_for(cases[i])})
    out.tie_mismatches += sh.frame_bad
    witnesses(out, sh)
    out.evaluations = len(cases)
    out.traces_validated = len(terms) - len(bad)
    out.distinct_nontrivial = len(fired)
    nsaves = sum(len(c["saves"]) + (1 if c.get("final") else 0) for c in cases)
    nloads = sum(len(c.get("loads", [])) for c in cases)
    out.distribution = {"by_tag": dist, "saves": nsaves, "loads": nloads,
                        "faults_fired": sum(1 for r in res for s in r["saves"] if s["fired"]) + sum(1 for r in res for l in r.get("loads", []) if l["fired"]),
                        "natural_failures": sum(1 for r in res for s in r["saves"] if s["exc"] and not s["fired"]),
                        "fault_ops": _opdist(res),
                        "shape_len": {"%s/%s" % k: len(v) for k, v in sh.save.items()}}
    out.samples = [{k: v for k, v in c.items()} for c in (cases[len(corpus) + 3:len(corpus) + 4] + cases[-3:-2] + [c for c in cases if c["tag"] == "random"][:1])]
    return out


def _opdist(res):
    """which kind of operation was the point of failure, over all fired faults"""
    d = {}
    for r in res:
        for s in r["saves"]:
            if s["fired"] and "fault_index" in s:
                k = s["trace"][s["fault_index"]][0]
                d[k] = d.get(k, 0) + 1
        for l in r.get("loads", []):
            if l["fired"]:
                k = "load:" + l["trace"][l["fault_index"]][0] if "fault_index" in l else "load:?"
                d[k] = d.get(k, 0) + 1
    return d


def replay(data):
    c = data.get("case")
    if not c:
        print(json.dumps(data, indent=1)[:3000])
        return 0
    r = run_cases([c])[0]
    print(json.dumps(r, indent=1)[:6000])
    fails = oracle_saves(c, r) if "saves" in r else []
    lf, ren = oracle_loads(c, r) if "loads" in r else ([], [])
    for f in fails + lf + ren:
        print("P-FAILURE:", f)
    return 1 if fails or lf or ren else 0
