"""C02 no stale value survives any edit — tie of Exec/Model.v + oracle; see execprops.py"""
import execprops as E

EXTRA_MODS = ["Exec.Check"]
ORACLES = [E.oracle_spec_values]
ASSUMPTIONS = ["formula vocabulary of Exec/Model.v (integers/None, calls, references by name/attribute, conditional, try/except, raising expressions)",
               "CPython evaluation order, inspect.Signature.bind, traceback line numbers are modelled, exercised by the correspondence"]


def run(tier, seed, rng):
    return E.run_exec_property("C02", tier, rng, 110, 2000, {'alt': [(0.4, {'p_raise': 0.15, 'p_try': 0.4})], 'p_derived': 0.3, 'maxdepth': (30, 60), 'p_ref': 0.35}, {'eval': 6, 'setv': 2, 'clearat': 1, 'clear': 1, 'clearall': 1, 'setf': 2, 'setcached': 1, 'scn_ref': 1, 'setref': 3}, (10, 30), ORACLES,
        'worlds with references read by name and by attribute path (own space, other space, model level, through uncached cells); histories interleaving evaluations with value, formula, flag and reference edits; compared with a model that replayed only the edits, at the end and at a random cut' + "; non-trivial = an edit and a later cache hit; distinct by JSON of the case",
        lambda c, r: any(op[0] in ('setref','setf','setv','setcached') for op in c['ops']) and any(ob['out'][0]=='val' and not ob['log'] for ob in r['obs']), diff=E.oracle_no_stale)


def replay(data):
    return E.replay_exec("C02", data, ORACLES)
