"""C02 no stale value survives any edit — tie of Exec/Model.v + oracle; see execprops.py

WIDE class ((P) only, NOT tied to the Coq model; generator harness/c02widelib.py, driver drivers/c02wide.py; 150
histories quick / 2000 thorough from a generator seeded after the model-tied cases were drawn, so those are unchanged):
the vocabulary Exec/Model.v does not have - several static spaces (some nested), inheritance (bases at creation,
add_bases / remove_bases, diamonds), space-valued references (`O1.f0(x)`, `O1.k`, `O1.Ch.k`), model-level references by
name and through a space (`O1.g`), shadowing / un-shadowing of a model-level reference in a space, one parametrised space
whose ItemSpaces [1] [2] (and their child spaces) read the same things, creation / deletion / renaming of cells and
spaces, parameter-formula changes, allow_none / is_cached flags, input values - interleaved with evaluations.
Oracle: at comparison points (after every edit / after about half of them / at three edits, by history, and at the end)
a FRESH model replays the edits of the history so far and nothing else; every edit must have had the same outcome in
both ("edit diverged" otherwise); every cells of every static space and of the ItemSpaces [1] [2] of every
parametrised space is asked over the argument grid 0 1 2 in both models and must give the same value or exception
class ("stale value" otherwise, minimised, with a stand-alone script).  corpus/C02/wide_*.json: directed histories of
this class (among them the three repaired defects shadow_global_attr, rederived_ref_attr and the skipped dynamic copy).

Known defects found by this class (findings.d/C02.txt, reproducers findings.d/C02_wide_<n>.py, witnesses
corpus/C02/finding_wide_<n>.json replayed on every run); the generator does not draw their trigger (decidable
predicates on its mirror of the definitions, counted in distribution.wide_class_P_only.not_drawn):
  C02_wide_1  a value that read a MODEL-LEVEL reference through a space by attribute path (`O.g`, `O.Ch.g`) survives the
              deletion of that space (or of a space containing it) and the renaming of the child space on the path; so
              does a value that called an UNCACHED cells through the renamed child space (`O.Ch.f(1)`): the spaces on an
              attribute path are no precedents
  C02_wide_2  add_bases that makes a space derive a reference which shadows a model-level one leaves the values that
              read the model-level reference through that space (`O.g`)
  C02_wide_3  cells.allow_none = ... on a cells of a parametrised space does not reach the copies of the cells in the
              ItemSpaces that exist (they are not discarded): P[2].f(2) still raises NoneReturnedError
  C02_wide_4  switching allow_none off (cells, space or model) leaves the None values computed while it was on, and
              what was computed from them
"""
import os, json, glob, random, collections
import fw
import execprops as E
import c02widelib as WL

EXTRA_MODS = ["Exec.Check"]
ORACLES = [E.oracle_spec_values]
ASSUMPTIONS = ["formula vocabulary of Exec/Model.v (integers/None, calls, references by name/attribute, conditional, try/except, try/finally, raising expressions)",
               "CPython evaluation order, inspect.Signature.bind, traceback line numbers are modelled, exercised by the correspondence",
               "wide class (several spaces, inheritance, space-valued references and attribute paths through them, model-level references and "
               "their shadowing, ItemSpaces, creation / deletion / renaming of cells and spaces, parameter formulas, flags): judged by the (P) "
               "oracle only (live model against a model that replayed only the edits: same edit outcomes, same definitions, same answer of "
               "every cells over the grid); no Coq model covers it; ItemSpaces [1] [2] only, formulas of one expression over small integers, "
               "call graph acyclic by construction (ranked cells names), no evaluation through kept handles; the triggers of the known "
               "findings C02_wide_1 ... C02_wide_4 are not drawn; a history is cut where the library's answer to an edit is not the one "
               "the generator's mirror foresaw (counted)"]
CORPUS = os.path.join(fw.VERIF, "corpus", "C02")
WIDE_WITNESSES = [
    ("C02_wide_1", "finding_wide_1.json",
     "a value that read a model-level reference through a space by attribute path (O.g, O.Ch.g) survives the deletion of that space "
     "and the renaming of the child space on the path"),
    ("C02_wide_2", "finding_wide_2.json",
     "add_bases deriving a reference that shadows a model-level one leaves the values that read the model-level reference through that space"),
    ("C02_wide_3", "finding_wide_3.json",
     "allow_none set on a cells of a parametrised space does not reach its copies in the ItemSpaces that exist"),
    ("C02_wide_4", "finding_wide_4.json",
     "switching allow_none off leaves the None values computed while it was on"),
]


def run(tier, seed, rng):
    out = E.run_exec_property("C02", tier, rng, 110, 2000, {'p_fin_world': 0.2, 'alt': [(0.4, {'p_raise': 0.15, 'p_try': 0.4})], 'p_derived': 0.3, 'maxdepth': (30, 60), 'p_ref': 0.35}, {'eval': 6, 'setv': 2, 'clearat': 1, 'clear': 1, 'clearall': 1, 'setf': 2, 'setcached': 1, 'scn_ref': 1, 'scn_unc': 1, 'scn_unc2': 1, 'setref': 3}, (10, 30), ORACLES,
        'worlds with references read by name and by attribute path (own space, other space, model level, through uncached cells); histories interleaving evaluations with value, formula, flag and reference edits; compared with a model that replayed only the edits, at the end and at a random cut' + "; non-trivial = an edit and a later cache hit; distinct by JSON of the case",
        lambda c, r: any(op[0] in ('setref','setf','setv','setcached') for op in c['ops']) and any(ob['out'][0]=='val' and not ob['log'] for ob in r['obs']), diff=E.oracle_no_stale)
    # wide class ((P) only): its own generator, seeded after every draw of the model-tied cases
    run_wide(out, tier, random.Random(rng.getrandbits(64)))
    return out


# --------------------------------------------------------------------------
# wide class
# --------------------------------------------------------------------------
def wide_payload(case, f):
    ops = f.get("minimal_ops") or [WL.strip(o) for o in case["ops"]]
    return {"case": {"wide": True, "ops": ops}, "failure_kind": f["kind"],
            "detail": "wide class, %s: %s" % (f["kind"], f.get("minimal_detail") or f["detail"]),
            "first_seen": f["detail"], "minimised": "minimal_ops" in f, "operations_before_minimising": len(case["ops"]),
            "script": f.get("script", "")}


def path_tags(op, name, item):
    """kinds of dependency path (generator's mirror) from the edited object to the cells [name] that lost a value"""
    paths = op.get("paths") or {}
    tags = list(paths.get(name, []))
    if item:
        for k, v in paths.items():
            if k.endswith("._pf") and (name + ".").startswith(k[:-3]):
                tags += v
    if not tags:
        own = ".".join(op.get("p") or []) + "." + str(op.get("name"))
        if name == own or (op["op"] == "rencells" and name == ".".join(op["p"]) + "." + op["to"]):
            tags = ["(the edited cells itself)"]
        elif op["op"] in ("renspace", "delspace", "sflag") and (name + ".").startswith(".".join(op["p"]) + "."):
            tags = ["(cells inside the renamed / deleted / re-flagged space)"]
        else:
            tags = ["(no direct path: a caller further up, or a wholesale clear - re-inheritance, discarded ItemSpace)"]
    return [t + (" [held in an ItemSpace]" if item else "") for t in tags]


def run_wide(out, tier, rng):
    import time
    t0 = time.time()
    n = 150 if tier == "quick" else 2000
    corpus = []
    for p in sorted(glob.glob(os.path.join(CORPUS, "wide_*.json"))):
        d = json.load(open(p))
        corpus.append(dict(d["case"], name=os.path.basename(p)))
    cases = corpus + [dict(WL.gen_case(rng), generated=True) for _ in range(n)]
    witnesses = []
    for key, fname, text in WIDE_WITNESSES:
        p = os.path.join(CORPUS, fname)
        if os.path.exists(p):
            witnesses.append((key, text, json.load(open(p))["case"]))
    jobs = cases + [dict(w[2], minimise=False) for w in witnesses]
    res = fw.run_driver("c02wide", jobs, chunk=10 if tier == "quick" else 40)
    wres, res = res[len(cases):], res[:len(cases)]

    for c, r in zip(cases, res):
        for f in r["pfail"]:
            out.p_failures.append(wide_payload(c, f))
    for (key, text, wc), r in zip(witnesses, wres):
        fails = bool(r["pfail"])
        fw.witness_result(out, "C02", key, fails, text + (" -- " + r["pfail"][0]["detail"] if fails else ""),
                          {"case": wc, "script": r["pfail"][0].get("script", "") if fails else ""})
        if not fails:
            out.notes.append("wide class: witness of %s passes (defect repaired in /repo or no longer reproducible)" % key)

    tot, kinds, setup_kinds, feats, modes, notdrawn, tags = (collections.Counter() for _ in range(7))
    invalidating = set()
    nops = 0
    for i, (c, r) in enumerate(zip(cases, res)):
        tot.update(r["stats"])
        nops += len(r["outs"])
        feats.update(c.get("features", []))
        modes[c.get("mode", "corpus")] += 1
        notdrawn.update(c.get("notes", {}))
        for j, op in enumerate(c["ops"]):
            if op.get("kind") and j < len(r["outs"]):
                (setup_kinds if j < c.get("setup", 0) else kinds)[op["kind"]] += 1
        for idx, lost in r["lost"].items():
            op = c["ops"][int(idx)]
            tot["edits_that_invalidated_a_held_value"] += 1
            tot["cells_that_lost_held_values"] += len(lost)
            if int(idx) >= c.get("setup", 0):
                invalidating.add(i)
            for name, item in lost:
                tags.update(path_tags(op, name, item))
    answers = {k[8:]: v for k, v in tot.items() if k.startswith("answers:")}
    outcomes = {k[14:]: v for k, v in tot.items() if k.startswith("edit_outcomes:")}
    unforeseen = {k[11:]: v for k, v in tot.items() if k.startswith("unforeseen:")}
    out.distribution["wide_class_P_only"] = {
        "histories": len(cases), "corpus_histories": len(corpus), "comparison_modes": dict(modes),
        "operations": nops, "evaluations_in_histories": tot["evaluations"], "edits": tot["edits"],
        "comparison_points": tot["comparison_points"], "comparisons(answers of live and edits-only model)": tot["comparisons"],
        "answers_compared": answers, "edit_outcomes": outcomes,
        "edit_kinds(history part)": dict(sorted(kinds.items())), "edit_kinds(world set-up part)": dict(sorted(setup_kinds.items())),
        "worlds_with": dict(feats),
        "edits_that_invalidated_a_held_value": tot["edits_that_invalidated_a_held_value"],
        "cells_that_lost_held_values_at_an_edit": tot["cells_that_lost_held_values"],
        "histories_in_which_an_edit_invalidated_a_cached_value": len(invalidating),
        "dependency_paths_between_the_edited_object_and_a_value_held_before_the_edit": dict(sorted(tags.items())),
        "not_drawn": dict(notdrawn),
        "histories_cut:edit_outcome_not_foreseen_by_the_generator": tot["histories_cut:edit_outcome_not_foreseen_by_the_generator"],
        "unforeseen_edit_outcomes": unforeseen,
        "histories_stopped:definitions_differ_after_an_edit_both_refused": tot["stopped:definitions_differ_after_an_edit_both_refused"],
        "histories_stopped:definitions_differ_but_no_answer_does": tot["stopped:definitions_differ_but_no_answer_does"],
        "definitions_that_differed": {k[19:]: v for k, v in tot.items() if k.startswith("definitions_differ:")},
        "witnesses_of_known_findings_replayed": [w[0] for w in witnesses], "wall_s": round(time.time() - t0, 1)}
    out.evaluations += len(cases)
    out.distinct_nontrivial += len({json.dumps([WL.strip(o) for o in cases[i]["ops"]], sort_keys=True) for i in invalidating})
    out.rule += (".  WIDE class ((P) only): worlds of 2-4 static spaces (nested children, bases, diamonds), one parametrised space, integer and "
                 "space-valued references at space and model level, 1-3 cells per space reading them by name / attribute path / calls through "
                 "space references; histories of 12-26 operations after the set-up (half evaluations; edits: values, formulas, new / deleted / "
                 "renamed cells and spaces, references new / changed / deleted / shadowing / un-shadowing, add_bases / remove_bases, parameter "
                 "formula, flags) compared with an edits-only replay at >= 4 points; non-trivial = an edit of the history part invalidated a "
                 "value held before it")
    out.notes.append("wide class: %d histories, (P) only - outside Exec/Model.v (no theorem covers it); not drawn (known findings "
                     "C02_wide_1 ... C02_wide_4): %s; histories cut at an edit outcome the generator's mirror did not foresee: %d"
                     % (len(cases), json.dumps(dict(notdrawn), sort_keys=True), tot["histories_cut:edit_outcome_not_foreseen_by_the_generator"]))
    gen = [c for c in cases if c.get("generated")]
    if gen:
        out.samples.append({"wide": True, "ops": [WL.render(o) if o["op"] != "sweep" else "<compare>" for o in gen[0]["ops"][gen[0]["setup"]:][:14]] + ["..."]})


def replay(data):
    case = data["case"] if "case" in data else data
    if isinstance(case, dict) and case.get("wide"):
        r = fw.run_driver("c02wide", [dict(case, minimise=False)])[0]
        for op, o in zip([o for o in case["ops"]], r["outs"]):
            print(WL.render(op) if op["op"] != "sweep" else "<compare with the edits-only replay>", "->", o)
        print(json.dumps([{k: v for k, v in f.items() if k != "script"} for f in r["pfail"]], indent=1))
        return 1 if r["pfail"] else 0
    return E.replay_exec("C02", data, ORACLES)
