"""C17 the error traceback is exactly the executing chain — tie of Exec/Model.v + oracle; see execprops.py"""
import execprops as E

EXTRA_MODS = ["Exec.Check"]
ORACLES = [E.oracle_traceback]
ASSUMPTIONS = ["formula vocabulary of Exec/Model.v (integers/None, calls, references by name/attribute, conditional, try/except, try/finally, raising expressions)",
               "CPython evaluation order, inspect.Signature.bind, traceback line numbers are modelled, exercised by the correspondence"]


def run(tier, seed, rng):
    return E.run_exec_property("C17", tier, rng, 150, 3000, {'p_fin_world': 0.4, 'p_shared_exc': 0.25, 'p_raise': 0.2, 'p_try': 0.3, 'p_uncached': 0.3, 'p_none': 0.08, 'maxdepth': (5, 30), 'recursion': 0.5}, {'eval': 1}, (8, 30), ORACLES,
        'worlds with many raising expressions, try/except handlers (handled failures before unhandled ones), try/finally clean-up expressions that evaluate cells while a failure passes (40% of the worlds; SFin of Exec/Model.v, tied), in 25% of the worlds every KeyError / ZeroDivisionError is ONE shared exception object, uncached cells, None results, recursion' + "; non-trivial = a traceback of depth >= 2; distinct by JSON of the case",
        lambda c, r: any(ob['tb'] and len(ob['tb'])>=2 for ob in r['obs']), diff=None)


def replay(data):
    return E.replay_exec("C17", data, ORACLES)
