"""C11 Rejected edits change nothing; the inheritance relation stays well-formed.

Suite (shared with C12, harness/nameslib.py, driver drivers/names.py): histories of public-API edits over a
pool of 4 names + the invalid names '', '1a', 'for', '_x', 'a b', 'a.b' on nested spaces with inheritance,
and the enumerated rejection-reason x operation matrix.  After EVERY operation the whole model is described
through the public API.
(P) whenever the call raised: description before == description after (spaces, bases, cells + formulas +
    is_derived + inputs, references + values, dir(), getattr kinds, nodes + edges of the inheritance graph;
    what a DERIVED member shows is C03's business and not compared);
    after every ACCEPTED call (and on the new model) the inheritance structure is well-formed, evaluated on the
    implementation's description alone (nameslib.wf_oracle, independent of the Coq model):
      W1 for every space S and every B in S.bases: B is a live space and every cells / reference name B holds is
         held by S as the same kind of member (container and getattr);
      W2 every member flagged derived is held by some base and DEFINED by some base (nothing derived from nothing);
      W3 nodes of the space manager's graph == live spaces, edges == (direct base, space) pairs, no self base
         (this tree does not derive child spaces, so there is no member clause for them);
      W4 model._impl._check_sanity() / mxsys._check_sanity() pass (AssertionError ignored where two spaces share
         a bare name: the self-check is wrong there, finding N9 of C12);
    after every operation the direct-base relation is acyclic, every space has a C3 linearisation equal to
    space.bases, every space / cells name satisfies is_valid_name.
    The first failing histories are minimised on the implementation (nameslib.shrink).  When (T) breaks and (P)
    is silent, nameslib.probe runs follow-up operations around the disagreeing histories through (P).
(T) Names/Model.v `step` on the same operations gives the same accept / reject (reason class) and the same
    name maps (Names/Tie.v tie_check, evaluated by coqc); util.is_valid_name == Names/Model.v is_valid_name
    on ASCII strings.

Generator: random histories, the rejection-reason x operation matrix, and the scenario "rename around an
override" (nameslib.Gen.override_history); what every RenameCells was aimed at (override / base / derived /
lone x free / taken / invalid name x outcome) is counted on the implementation's descriptions and recorded in
the evidence (distribution).

Known defects of the pinned tree (generator avoids the triggers - decidable predicates on the ideal state and
the operation, nameslib.Mirror.triggers; witnesses corpus/C11/finding_*.json replayed through (P)):
  D11  new_cells(valid name, malformed formula) raises but leaves a formula-less cells      (cells.py:649-660)
  D12  rejected formula assignment: a derived cells has become defined / the input is gone    (cells.py:934-951)
  D3   accepted remove_bases / del space dies half-way with IndexError                        (model.py:1747-1794)
  D34  remove_bases / del space never test the MRO of the descendants: TypeError half-way
  N4   space.rename accepts any string ('', '1a', 'for', '_x', 'a b', 'a.b')                 (model.py:1315)
  N8   del of a space that has a sub space inside its own child tree: KeyError half-way       (model.py:1770-1794)
"""
import nameslib

EXTRA_MODS = ["Names.Tie"]
TRUSTED = ["Python mirror of the ideal model (harness/nameslib.py Mirror) steers generation and evaluates defect triggers only; "
           "it is never an oracle",
           "C3 linearisation: MX.C3.Model.mro (another layer, tied to SpaceGraph.get_mro by C03) is the model's source of "
           "space.bases; the tie compares it with space.bases after every operation"]
ASSUMPTIONS = ["ideal model: validation before mutation / roll-back; the pinned tree deviates on the triggers listed in the "
               "module docstring (recorded as findings, witnesses replayed)",
               "which source texts are malformed is decided by the implementation (ast); the model receives a bit",
               "names are ASCII strings; values of cells and inputs are outside the model (Exec layer)"]


def run(tier, seed, rng):
    return nameslib.run_check("C11", tier, seed, rng)


def replay(data):
    return nameslib.replay_check("C11", data)
