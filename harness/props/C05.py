"""C05 failed evaluation leaves a consistent, retryable state — tie of Exec/Model.v + oracle; see execprops.py"""
import execprops as E

EXTRA_MODS = ["Exec.Check"]
ORACLES = [E.oracle_failure, E.oracle_spec_values]
ASSUMPTIONS = ["formula vocabulary of Exec/Model.v (integers/None, calls, references by name/attribute, conditional, try/except, try/finally, raising expressions)",
               "CPython evaluation order, inspect.Signature.bind, traceback line numbers are modelled, exercised by the correspondence"]


def run(tier, seed, rng):
    return E.run_exec_property("C05", tier, rng, 150, 3000, {'p_raise': 0.15, 'p_try': 0.25, 'maxdepth': (3, 12), 'p_none': 0.08, 'recursion': 0.5}, {'eval': 8, 'setf': 2, 'tracecycle': 1}, (8, 30), ORACLES,
        'worlds with raising expressions (ValueError, KeyError, ZeroDivisionError, TypeError), None results, low recursion limits (3-12) and try/except; evaluations interleaved with formula repairs' + "; non-trivial = at least one failing and one succeeding formula execution; distinct by JSON of the case",
        lambda c, r: sum(1 for ob in r['obs'] if ob['out'][0]=='err')>=1 and any(ob['out'][0]=='val' and ob['log'] for ob in r['obs']), diff=None)


def replay(data):
    return E.replay_exec("C05", data, ORACLES)
