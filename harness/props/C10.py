"""C10 object-valued references rebind relatively or stay absolute as their mode says.

Suites
  getrel   (T) RelRef/Model.v get_relative == SpaceGraph.get_relative called directly on stand-alone
           inheritance graphs (random trees of dotted names, random ordered bases; the observed get_mro
           is the C3 table the model is given)
  history  grid (3 modes x target placements x nesting depth of definer / deriver <= 3 x definer level
           x derivation by new_space(bases=) / add_bases x order of edits x tail: mode change, base
           removal + re-adding, write/read, ItemSpace of definer / deriver) + random edit histories, run on the
           real library (harness/drivers/relref.py):
           (T) the edits, their acceptance, every (space, reference) binding (mode, bound object, derived,
               is_relative) and every ItemSpace binding are compared inside Coq with `run`/`lookup`/`dyn_of`
           (P) the property text evaluated by the driver on the live objects: a derived reference has the
               mode of its defining reference; absolute -> `is` the original object; auto/relative with the
               target inside the definer's tree -> `is` the corresponding object of the deriving space;
               outside -> `is` the original object; ItemSpace: inside the base's tree -> `is` the
               corresponding dynamic object; same (bases, refs) state => same observation (base changes
               undone, write_model/read_model, zip)
Known defects of the pinned tree: triggers are computed by harness/c10model.py (a mirror of the ideal
model) and such histories are dropped (counted in distribution.filtered); witnesses in corpus/C10/finding_*.json
are replayed by every run.  Recorded and avoided now: dangling_target (a reference whose corresponding object is
created LATER is not re-bound).  Repaired in /repo and generated (corpus/fixed/C10_*.py, regress histories
corpus/C10/case_<key>.json): stale_mode, relative_change_unchecked, dangling_target_overwrite,
dyn_derived_nonrelative, suffix_root, stale_outer_root.
Existence of the corresponding object is a precondition PER BINDING: a derived relative binding whose corresponding
object does not exist must be a null object in the library (mode, derived, is_relative as the mirror says; checked
in Python) and is left out of the Coq comparison; ItemSpaces are observed for trees without such a binding; an edit
that deletes the object a binding denotes (remove_bases taking derived cells away) ends the history."""
import os, json, glob, collections, itertools
import fw
import c10model as MM
from fw import cstr, clist, ctuple, cbool, Outcome

CORPUS = os.path.join(fw.VERIF, "corpus", "C10")
EXTRA_MODS = []
TRUSTED = ["the C3 order (space.bases / SpaceGraph.get_mro) is an INPUT of the model: the observed table is fed to Coq "
           "(C3 itself is property C03)",
           "harness: drivers/relref.py (observation through ReferenceProxy / attribute access / fullname), c10model.py "
           "(generator-side mirror that decides which histories avoid recorded defects)"]
ASSUMPTIONS = ["histories avoid the trigger of the recorded defect dangling_target (a binding whose corresponding object is "
               "created later is not re-bound) and half-way failures of add_bases/remove_bases/del (C11)",
               "existence of the corresponding object in the deriving space is a precondition (generator), not modelled in Coq: "
               "a derived relative binding without corresponding object must be a null object (checked in Python, left out of the "
               "Coq comparison); ItemSpaces are observed for trees without such bindings; histories end at an edit that deletes "
               "the object a binding denotes"]
REQ = ["RelRef.Model"]
MODE_C = {"auto": "Auto", "relative": "Relative", "absolute": "Absolute"}


# ==========================================================================
# Coq emitters
# ==========================================================================
def cpath(p):
    return clist([cstr(x) for x in p])


def ctable(t):
    return clist([ctuple([cpath(k), clist([cpath(b) for b in v])]) for k, v in sorted(t.items())])


def cbind(b):
    if b[0] == "NoRef":
        return "NoRef"
    if b[0] == "Def":
        return "(Def %s %s)" % (MODE_C.get(b[1], "Auto"), cpath(b[2]))
    if b[0] == "Der":
        return "(Der %s %s %s)" % (MODE_C.get(b[1], "Auto"), cpath(b[2]), cbool(b[3]))
    return b[0]


def cdbind(e):
    if e[0] == "dyn":
        return "(DDyn %s)" % cpath(e[1])
    if e[0] == "static":
        return "(DStatic %s)" % cpath(e[1])
    if e[0] == "errscope":
        return "DErrScope"
    return "DNone"


# ==========================================================================
# suite getrel
# ==========================================================================
NAMES = ["A", "B", "C", "S", "S2", "x"]


def gen_getrel(rng, n):
    cases = []
    while len(cases) < n:
        nodes = set()
        for _ in range(rng.randint(2, 7)):
            p = tuple(rng.choice(NAMES) for _ in range(rng.randint(1, 4)))
            for k in range(1, len(p) + 1):
                nodes.add(p[:k])
        nodes = sorted(nodes)
        rng.shuffle(nodes)
        bases = {}
        for i, s in enumerate(nodes):
            cand = nodes[:i]
            # bias: aligned bases (same last name) so that the roots loop has something to find
            al = [c for c in cand if c[-1] == s[-1]]
            bs = []
            for _ in range(rng.choice([0, 1, 1, 2])):
                c = rng.choice(al) if al and rng.random() < 0.6 else (rng.choice(cand) if cand else None)
                if c is not None and c not in bs:
                    bs.append(c)
            bases[s] = bs
        try:
            tbl = {s: MM.c3(bases, s)[1:] for s in nodes}
        except MM.Inconsistent:
            continue
        for _ in range(6):
            sub = rng.choice(nodes)
            r = rng.random()
            if r < 0.5 and tbl[sub]:
                bas = rng.choice(tbl[sub])
            elif r < 0.8:
                # a child of a base under a child of the sub with the same name
                bas = rng.choice(nodes)
            else:
                bas = tuple(rng.choice(NAMES) for _ in range(rng.randint(1, 3)))
            r = rng.random()
            if r < 0.5:
                value = bas[:rng.randint(1, len(bas))] + tuple(rng.choice(NAMES + ["foo"]) for _ in range(rng.randint(0, 2)))
            elif r < 0.9:
                value = rng.choice(nodes) + ((rng.choice(["foo", "bar"]),) if rng.random() < 0.5 else ())
            else:
                value = ()
            # suffix_root is repaired in /repo: suffix pairs (X.C / C) are generated
            cases.append({"kind": "getrel", "nodes": [".".join(x) for x in nodes],
                          "bases": {".".join(k): [".".join(b) for b in v] for k, v in bases.items()},
                          "sub": ".".join(sub), "bas": ".".join(bas), "value": ".".join(value)})
    return cases[:n]


def suite_getrel(tier, rng, out):
    n = 500 if tier == "quick" else 8000
    cases = gen_getrel(rng, n)
    res = fw.run_driver("relref", cases)
    terms, kinds = [], collections.Counter()
    for c, r in zip(cases, res):
        if "crash" in r:
            raise fw.Broken("relref driver crashed: " + r["crash"])
        tbl = {tuple(k.split(".")): [tuple(b.split(".")) for b in v] for k, v in r["mro"].items()}
        rr = r["res"]
        kinds[rr[0]] += 1
        g = {"some": lambda: "(GSome (to_path %s))" % cstr(rr[1]), "none": lambda: "GNone", "fail": lambda: "GFail"}.get(rr[0])
        if g is None:
            out.p_failures.append({"case": c, "detail": "SpaceGraph.get_relative raised %s" % rr[1],
                                   "script": getrel_script(c)})
            terms.append(ctuple([ctable(tbl), cstr(c["sub"]), cstr(c["bas"]), cstr(c["value"]), "GFail"]))
            continue
        terms.append(ctuple([ctable(tbl), cstr(c["sub"]), cstr(c["bas"]), cstr(c["value"]), g()]))
    bad = fw.run_coq_cases("C10getrel", REQ, "table * string * string * string * gr", "check_getrel", terms)
    for i in bad:
        c = cases[i]
        # (P) around the disagreement: the characterisation theorem evaluated on the implementation's answer
        detail = "get_relative: model and SpaceGraph.get_relative disagree: impl %r" % (res[i]["res"],)
        out.tie_mismatches.append({"case": c, "impl": res[i], "detail": detail})
        pf = getrel_property(c, res[i])
        if pf:
            out.p_failures.append({"case": c, "detail": pf, "script": getrel_script(c)})
    out.evaluations += len(cases)
    out.traces_validated += len(cases) - len(bad)
    out.distinct_nontrivial += len({(json.dumps(c["bases"], sort_keys=True), c["sub"], c["bas"], c["value"])
                                    for c, r in zip(cases, res) if r["res"][0] == "some"})
    out.distribution["getrel"] = {"cases": len(cases), "result": dict(kinds)}
    out.samples.append({k: cases[0][k] for k in ("bases", "sub", "bas", "value")})


def getrel_property(c, r):
    """C10_get_relative_char on the implementation's own answer and its own get_mro"""
    tbl = {tuple(k.split(".")): [tuple(b.split(".")) for b in v] for k, v in r["mro"].items()}
    sub, bas = tuple(c["sub"].split(".")), tuple(c["bas"].split("."))
    value = tuple(c["value"].split(".")) if c["value"] else ()
    rt = MM.roots(lambda s, b: s == b or b in tbl.get(s, ()), sub, bas)
    rr = r["res"]
    if rt is None:
        return None if rr[0] in ("fail", "none") else "no aligned pair of ancestors is related by inheritance but a relative name %r is returned" % (rr,)
    sr, br = rt
    if MM.is_prefix(br, value):
        exp = ".".join(sr + value[len(br):])
        return None if rr == ["some", exp] else "value %s is inside the tree of %s: expected %s, got %r" % (c["value"], ".".join(br), exp, rr)
    return None if rr[0] == "none" else "value %s is outside the tree of %s but %r is returned" % (c["value"], ".".join(br), rr)


def getrel_script(c):
    return ("from modelx.core.model import SpaceGraph\ng = SpaceGraph()\nc = %r\n"
            "[g.add_node(n) for n in c['nodes']]\n"
            "[g.add_edge(b, s, index=i + 1) for s, bs in c['bases'].items() for i, b in enumerate(bs)]\n"
            "print(g.get_relative(c['sub'], c['bas'], c['value']))\n" % (c,))


# ==========================================================================
# suite history: generators
# ==========================================================================
PLACES = ["self", "cells", "child", "child_cells", "gchild_cells", "outside", "outside_cells", "ancestor", "ancestor_cells"]
TAILS = ["none", "modechange", "rebase", "roundtrip", "zip", "item_def", "item_der", "retarget", "chain", "chain_item"]
DEF_CHAIN = ["A", "B", "C"]
DER_CHAIN = ["E", "F", "D"]


def grid_raw(ddef, dder, mode, place, level, derive, order, tail):
    """raw op list of one grid cell (may contain edits the mirror refuses: they are dropped)"""
    P = tuple(DEF_CHAIN[:ddef])
    D = tuple(DER_CHAIN[3 - dder:])
    O = ("O",)
    ops = []
    for k in range(1, ddef + 1):
        ops.append(["space", list(P[:k]), []])
    ops += [["cells", list(P), "foo"], ["space", list(P + ("Ch",)), []], ["cells", list(P + ("Ch",)), "bar"],
            ["space", list(P + ("Ch", "G")), []], ["cells", list(P + ("Ch", "G")), "baz"],
            ["space", list(O), []], ["cells", list(O), "qux"]]
    if ddef > 1:
        ops.append(["cells", list(P[:-1]), "anc"])
    definer = P if level == "top" else P + ("Ch",)
    deriver = D if level == "top" else D + ("Ch",)
    tg = {"self": definer, "cells": definer + (("foo",) if level == "top" else ("bar",)),
          "child": definer + (("Ch",) if level == "top" else ("G",)),
          "child_cells": definer + (("Ch", "bar") if level == "top" else ("G", "baz")),
          "gchild_cells": P + ("Ch", "G", "baz"),
          "outside": O, "outside_cells": O + ("qux",),
          "ancestor": definer[:-1] if len(definer) > 1 else O,
          "ancestor_cells": (definer[:-1] + (("anc",) if level == "top" else ("foo",))) if len(definer) > 1 and not (level == "top" and ddef == 1) else O + ("qux",)}[place]
    via = {"auto": "attr", "absolute": "kw", "relative": "kw"}[mode] if (ddef + dder) % 2 else "set_ref"
    setref = ["setref", list(definer), "r", mode, list(tg), via]
    dparents = [["space", list(D[:k]), []] for k in range(1, dder)]
    if order == "refs_last":
        ops += dparents
        if derive == "new":
            ops += [["space", list(D), [list(P)]], ["space", list(D + ("Ch",)), [list(P + ("Ch",))]],
                    ["space", list(D + ("Ch", "G")), [list(P + ("Ch", "G"))]]]
        else:
            ops += [["space", list(D), []], ["space", list(D + ("Ch",)), []], ["space", list(D + ("Ch", "G")), []],
                    ["addb", list(D), [list(P)]], ["addb", list(D + ("Ch",)), [list(P + ("Ch",))]],
                    ["addb", list(D + ("Ch", "G")), [list(P + ("Ch", "G"))]]]
        ops.append(setref)
    else:
        ops.append(setref)
        ops += dparents
        if derive == "new":
            ops += [["space", list(D), [list(P)]], ["space", list(D + ("Ch",)), [list(P + ("Ch",))]],
                    ["space", list(D + ("Ch", "G")), [list(P + ("Ch", "G"))]]]
        else:
            ops += [["space", list(D), []], ["space", list(D + ("Ch",)), []], ["space", list(D + ("Ch", "G")), []]]
            if level == "top":   # inner first: the corresponding objects exist when D derives r
                ops += [["addb", list(D + ("Ch", "G")), [list(P + ("Ch", "G"))]], ["addb", list(D + ("Ch",)), [list(P + ("Ch",))]],
                        ["addb", list(D), [list(P)]]]
            else:                # outer first: the roots (D, P) exist when D.Ch derives r
                ops += [["addb", list(D), [list(P)]], ["addb", list(D + ("Ch", "G")), [list(P + ("Ch", "G"))]],
                        ["addb", list(D + ("Ch",)), [list(P + ("Ch",))]]]
    ops.append(["obs"])
    if tail == "modechange":
        for m2 in MM.MODES:
            if m2 != mode:
                ops += [["setref", list(definer), "r", m2, list(tg), "set_ref"], ["obs"]]
        ops += [["setref", list(definer), "r", mode, list(tg), "set_ref"], ["obs"]]
    elif tail == "retarget":
        ops += [["setref", list(definer), "r", mode, list(definer), "set_ref"], ["obs"],
                ["setref", list(definer), "r", mode, list(O + ("qux",)), "set_ref"], ["obs"],
                ["delref", list(definer), "r"], ["obs"]]
    elif tail == "rebase":
        ops += [["rmb", list(deriver), [list(definer)]], ["obs"], ["addb", list(deriver), [list(definer)]], ["obs"],
                ["addb", list(deriver), [list(O)]], ["obs"], ["rmb", list(deriver), [list(O)]], ["obs"]]
    elif tail in ("roundtrip", "zip"):
        ops += [["roundtrip", "dir" if tail == "roundtrip" else "zip"], ["obs"]]
    elif tail in ("chain", "chain_item"):
        # a second derivation step: Z derives from the deriver (C10_static_chain)
        Z = ("Z",)
        zs = [["space", list(Z), []], ["space", list(Z + ("Ch",)), []], ["space", list(Z + ("Ch", "G")), []]]
        inner = [["addb", list(Z + ("Ch", "G")), [list(D + ("Ch", "G"))]], ["addb", list(Z + ("Ch",)), [list(D + ("Ch",))]]]
        outer = [["addb", list(Z), [list(D)]]]
        ops += zs + (inner + outer if level == "top" else outer + inner) + [["obs"]]
        if tail == "chain_item":
            ops += [["params", list(Z)], ["obs"]]
        else:
            ops += [["rmb", list(deriver), [list(definer)]], ["obs"], ["addb", list(deriver), [list(definer)]], ["obs"]]
    elif tail == "item_def":
        ops += [["params", list(P)], ["obs"]]
    elif tail == "item_der":
        ops += [["params", list(D)], ["obs"], ["roundtrip", "dir"], ["obs"]]
    return ops


def grid_cells(tier, rng):
    combos = list(itertools.product(MM.MODES, PLACES, ("top", "nested"), ("new", "addb"), ("refs_last", "refs_first")))
    out = []
    if tier == "quick":
        for i, (mode, place, level, derive, order) in enumerate(combos):
            ddef, dder = 1 + i % 3, 1 + (i // 3) % 3
            out.append((ddef, dder, mode, place, level, derive, order, TAILS[i % len(TAILS)]))
        for _ in range(120):
            mode, place, level, derive, order = rng.choice(combos)
            out.append((rng.randint(1, 3), rng.randint(1, 3), mode, place, level, derive, order, rng.choice(TAILS)))
    else:
        for i, (mode, place, level, derive, order) in enumerate(combos):
            for ddef in (1, 2, 3):
                for dder in (1, 2, 3):
                    out.append((ddef, dder, mode, place, level, derive, order, TAILS[(i + ddef + 3 * dder) % len(TAILS)]))
        for _ in range(1500):
            mode, place, level, derive, order = rng.choice(combos)
            out.append((rng.randint(1, 3), rng.randint(1, 3), mode, place, level, derive, order, rng.choice(TAILS)))
    return out


SP_NAMES = ["A", "B", "S", "S2", "Ch", "G"]
CELL_NAMES = ["foo", "bar"]
REF_NAMES = ["r", "q"]


def random_raw(rng):
    """a random edit history; validity is decided edit by edit by the mirror"""
    st = MM.Mirror()
    ops = []

    def push(op):
        nonlocal st
        new, acc, trig, invalid, _ = MM.apply(st, op)
        if invalid:
            return False
        ops.append(op)
        if acc and not trig:
            st = new
        return True

    def objects():
        tbl = st.table()
        objs = []
        for s in st.bases:
            objs.append(s)
            for c in sorted(st.all_cells(tbl, s)):
                objs.append(s + (c,))
        return objs

    for _ in range(rng.randint(3, 7)):
        sp = st.spaces()
        parent = rng.choice([()] + [s for s in sp if len(s) < 3]) if sp else ()
        name = rng.choice(SP_NAMES)
        # aligned bases make the roots loop interesting
        cand = [s for s in sp if s[-1] == name] if rng.random() < 0.5 else sp
        bs = rng.sample(cand, min(len(cand), rng.choice([0, 0, 1, 1, 2])))
        push(["space", list(parent + (name,)), [list(b) for b in bs]])
        if rng.random() < 0.6 and st.spaces():
            push(["cells", list(rng.choice(st.spaces())), rng.choice(CELL_NAMES)])
    if not st.spaces():
        return None
    for _ in range(rng.randint(4, 10)):
        sp = st.spaces()
        r = rng.random()
        if r < 0.4:
            s = rng.choice(sp)
            objs = objects()
            inside = [o for o in objs if MM.is_prefix(s, o)]
            tg = rng.choice(inside) if inside and rng.random() < 0.6 else rng.choice(objs)
            mode = rng.choice(MM.MODES)
            push(["setref", list(s), rng.choice(REF_NAMES), mode, list(tg), rng.choice(["set_ref", "attr", "kw"])])
        elif r < 0.5:
            defs = sorted(st.defs)
            if defs:
                s, n = rng.choice(defs)
                push(["delref", list(s), n])
        elif r < 0.65:
            s = rng.choice(sp)
            cand = [b for b in sp if b != s]
            al = [b for b in cand if b[-1] == s[-1]]
            if cand:
                push(["addb", list(s), [list(rng.choice(al) if al and rng.random() < 0.6 else rng.choice(cand))]])
        elif r < 0.72:
            cand = [s for s in sp if st.bases[s]]
            if cand:
                s = rng.choice(cand)
                push(["rmb", list(s), [list(rng.choice(st.bases[s]))]])
        elif r < 0.82:
            parent = rng.choice([()] + [s for s in sp if len(s) < 3])
            name = rng.choice(SP_NAMES)
            cand = [s for s in sp if s[-1] == name] if rng.random() < 0.6 else sp
            bs = rng.sample(cand, min(len(cand), rng.choice([0, 1, 1])))
            push(["space", list(parent + (name,)), [list(b) for b in bs]])
        elif r < 0.87:
            push(["cells", list(rng.choice(sp)), rng.choice(CELL_NAMES)])
        elif r < 0.93:
            push(["params", list(rng.choice(sp))])
            ops.append(["obs"])
        elif r < 0.97:
            ops.append(["obs"])
            ops.append(["roundtrip", rng.choice(["dir", "zip"])])
            ops.append(["obs"])
        else:
            ops.append(["obs"])
    ops.append(["obs"])
    return ops


def reassign_raw(rng):
    """directed: an object-valued base reference is RE-ASSIGNED while sub spaces derive the name from another
    definition - an override in the middle of a chain (Base.x; Sub(Base) overrides x; GSub(Sub)) and / or a base of
    higher priority (C(A, Base) with A.x defined) - and while plain derivers exist too"""
    ops = [["space", ["Base"], []]]
    for c in ("foo", "bar", "baz"):
        ops.append(["cells", ["Base"], c])
    m0, m1, m2 = rng.choice(MM.MODES), rng.choice(MM.MODES), rng.choice(["auto", "auto", "relative", "absolute"])
    how = lambda: rng.choice(["set_ref", "attr", "kw"])
    ops.append(["setref", ["Base"], "x", m0 if m0 != "relative" or True else "auto", ["Base", "foo"], how()])
    ops.append(["space", ["Plain"], [["Base"]]])                       # derives x from Base all along
    shape = rng.choice(["chain", "prio", "both"])
    if shape in ("chain", "both"):
        ops.append(["space", ["Sub"], [["Base"]]])
        ops.append(["setref", ["Sub"], "x", m1, rng.choice([["Sub", "bar"], ["Base", "bar"], ["Sub"]]), how()])
        ops.append(["space", ["GSub"], [["Sub"]]])
        if rng.random() < 0.4:
            ops.append(["params", ["GSub"]])
    if shape in ("prio", "both"):
        ops.append(["space", ["A"], []])
        ops.append(["cells", ["A"], "foo"])
        ops.append(["setref", ["A"], "x", rng.choice(MM.MODES), ["A", "foo"], how()])
        ops.append(["space", ["C"], [["A"], ["Base"]]])
    ops.append(["obs"])
    tg = rng.choice([["Base", "baz"], ["Base", "bar"], ["Base"]])
    ops.append(["setref", ["Base"], "x", m2, tg, how()])            # the re-assignment
    ops.append(["obs"])
    if rng.random() < 0.5:
        ops.append(["setref", ["Base"], "x", rng.choice(MM.MODES), ["Base", "foo"], how()])
        ops.append(["obs"])
    if rng.random() < 0.3:
        ops.append(["roundtrip", rng.choice(["dir", "zip"])])
        ops.append(["obs"])
    return ops


def prepare(raw, filt, tag):
    """run the mirror over a raw history: drop invalid edits, drop the history when an edit touches a
    recorded defect, compute ideal acceptance / tables / ItemSpace expectations / state keys"""
    st = MM.Mirror()
    ops, meta = [], []
    debris = False      # a failed ItemSpace construction stays registered in _named_itemspaces (C07/C13 domain)
    for op in raw:
        k = op[0]
        if k == "obs":
            roots, dynexp = [], []
            for root in sorted(st.params):
                entries, scope_err, trig = MM.dyn_expect(st, root)
                if trig:
                    for t in trig:
                        filt["item:" + t] += 1
                    continue
                debris = debris or scope_err
                roots.append(list(root))
                dynexp.append({"root": list(root), "ok": not scope_err, "entries": [[list(q), n, list(e)] for q, n, e in entries]})
            dang = [[list(k_[0]), k_[1], list(static_to_bind([k_[0], k_[1], b[0] == "Der", b[1], ["deleted"], b[3] if b[0] == "Der" else None]))]
                    for k_, b in sorted(st.dangling().items())]
            key = json.dumps([sorted((list(k_), [list(b) for b in v]) for k_, v in st.bases.items()),
                              sorted((list(k_[0]), k_[1], v[0], list(v[1])) for k_, v in st.defs.items()),
                              sorted((list(k_), sorted(v)) for k_, v in st.cells.items()), roots])
            if ops and ops[-1][0] == "obs":
                continue
            ops.append(["obs", roots])
            meta.append({"dyn": dynexp, "key": key, "dangling": dang})
            continue
        if k == "roundtrip":
            trig = MM.roundtrip_triggers(st)
            if debris:
                trig = trig | {"after_failed_itemspace"}
            if trig:
                for t in trig:
                    filt["roundtrip:" + t] += 1
                continue
            ops.append(op)
            meta.append({})
            continue
        new, acc, trig, invalid, tbl1 = MM.apply(st, op)
        if invalid:
            filt["edit:" + invalid.split(" (")[0]] += 1
            continue
        if trig:
            for t in trig:
                filt["history:" + t] += 1
            if any(o[0] == "obs" for o in ops):      # keep what was observed before the defect is touched
                filt["histories truncated"] += 1
                break
            return None
        ops.append(op)
        meta.append({"acc": acc, "tbl": None if tbl1 is None else {".".join(k_): [".".join(b) for b in v] for k_, v in tbl1.items()}})
        st = new
    if not any(o[0] == "obs" for o in ops):
        return None
    while ops[-1][0] != "obs":                       # nothing is observed after these
        ops.pop(); meta.pop()
    return {"kind": "history", "ops": ops, "refnames": sorted(st.refnames) or ["r"], "meta": meta, "tag": tag}


# ==========================================================================
# suite history: evaluation
# ==========================================================================
def coq_op(op, accepted, tbl):
    k = op[0]
    if k in ("space", "addb", "rmb"):
        t = {tuple(a.split(".")): [tuple(b.split(".")) for b in v] for a, v in tbl.items()}
        return ctuple(["(GraphOp %s %s)" % (cpath(op[1]), ctable(t)), cbool(accepted)])
    if k == "setref":
        return ctuple(["(SetRef %s %s %s %s)" % (cpath(op[1]), cstr(op[2]), MODE_C[op[3]], cpath(op[4])), cbool(accepted)])
    if k == "delref":
        return ctuple(["(DelRef %s %s)" % (cpath(op[1]), cstr(op[2])), cbool(accepted)])
    return None


def static_to_bind(e):
    sp, n, derived, mode, d, rel = e
    tgt = d[1] if d[0] == "obj" else ["<%s>" % d[0]]
    if mode not in MODE_C:
        return ("Der", "auto", ["<mode %s>" % mode], False)
    return ("Der", mode, tgt, rel) if derived else ("Def", mode, tgt)


def history_script(case):
    c = {k: case[k] for k in ("kind", "ops", "refnames")}
    return ("# stand-alone reproducer: PYTHONPATH=/repo python this.py   (prints the driver's observations;\n"
            "# 'p' lists the violated clauses of the property)\n"
            "import json, subprocess, sys\ncase = json.loads(%r)\n"
            "p = subprocess.run([sys.executable, '/verif/harness/drivers/relref.py'], input=json.dumps([case]), text=True, capture_output=True)\n"
            "r = json.loads([l for l in p.stdout.splitlines() if l.startswith('@@RESULT ')][0][9:])[0]\n"
            "print(json.dumps(r['ops'])); [print(k, json.dumps(v['p']), json.dumps(v['static']), json.dumps(v['dyn'])) for k, v in r['obs'].items()]\n"
            % json.dumps(c))


def evaluate_history(case, r):
    """-> (coq terms [(term, obs index)], P failures [str])"""
    pf, terms = [], []
    if "crash" in r:
        return [], ["driver crashed: " + r["crash"][-300:]]
    ops, meta = case["ops"], case["meta"]
    prefix = []
    allspaces = set()
    lastobs = {}
    for i, (op, mt, status) in enumerate(zip(ops, meta, r["ops"])):
        k = op[0]
        if k in ("space", "addb", "rmb", "setref", "delref"):
            acc = status == "ok"
            if status not in ("ok", "scope"):
                pf.append("edit %d %s raised %s where the rule defines every binding" % (i, json.dumps(op), status))
            tbl = r["tables"].get(str(i)) if acc else None
            if tbl is None:
                tbl = mt["tbl"]
            if k in ("space", "addb", "rmb") and acc and mt["tbl"] is not None and tbl != mt["tbl"] and mt["acc"]:
                pf_note = "C3 table after edit %d differs from the mirror's C3" % i
                case.setdefault("notes", []).append(pf_note)
            if tbl is not None:
                allspaces = set(tbl)
            t = coq_op(op, acc, tbl)
            if t is not None:
                prefix.append(t)
        elif k in ("cells", "params"):
            if status != "ok":
                pf.append("edit %d %s raised %s" % (i, json.dumps(op), status))
        elif k == "roundtrip":
            if status != "ok":
                pf.append("write/read round trip (%s) failed: %s" % (op[1], status[:300]))
        elif k == "obs":
            if not status.startswith("ok"):
                pf.append("observation failed: " + status[:300])
                continue
            o = r["obs"][str(i)]
            for x in o["p"]:
                pf.append("obs@%d: %s" % (i, x))
            seen = {(tuple(e[0]), e[1]): static_to_bind(e) for e in o["static"]}
            obs_terms = []
            # existence of the corresponding object is a precondition of the model, per binding: where it does not
            # exist the library must hold a null object (same mode, derived, is_relative); not compared in Coq
            dang = {(tuple(sp_), n): tuple(b) for sp_, n, b in mt.get("dangling", [])}
            for k_, b in dang.items():
                got = seen.get(k_, ("NoRef",))
                if tuple(got) != b:
                    pf.append("obs@%d: %s.%s has no corresponding object: expected a null object %r, observed %r"
                              % (i, ".".join(k_[0]), k_[1], b, tuple(got)))
            for sp in sorted(allspaces):
                for n in case["refnames"]:
                    if (tuple(sp.split(".")), n) in dang:
                        continue
                    b = seen.get((tuple(sp.split(".")), n), ("NoRef",))
                    obs_terms.append(ctuple([cpath(sp.split(".")), cstr(n), cbind(b)]))
            dyn_terms = []
            exp = {tuple(d["root"]): d for d in mt["dyn"]}
            for root, ok, err, entries in o["dyn"]:
                d = exp[tuple(root)]
                if ok:
                    es = [ctuple([cpath(q), cstr(n), cdbind(e if e[0] in ("dyn", "static") else ("none",))]) for q, n, e in entries]
                    # every reference the mirror expects must have been observed
                    if {(tuple(q), n) for q, n, _ in entries} != {(tuple(q), n) for q, n, _ in d["entries"]}:
                        pf.append("obs@%d: ItemSpace of %s shows references %s, expected %s" % (
                            i, ".".join(root), sorted((".".join(q), n) for q, n, _ in entries), sorted((".".join(q), n) for q, n, _ in d["entries"])))
                else:
                    if err != "scope":
                        pf.append("obs@%d: creating the ItemSpace of %s raised %s" % (i, ".".join(root), err))
                    es = [ctuple([cpath(q), cstr(n), "DNone"]) for q, n, _ in d["entries"]]
                dyn_terms.append(ctuple([cpath(root), cbool(ok), clist(es)]))
            terms.append((ctuple([clist(prefix), clist(obs_terms), clist(dyn_terms)]), i))
            # same (bases, refs, cells) state => same observation
            key = mt["key"]
            snap = (sorted(map(json.dumps, o["static"])), sorted(json.dumps(x) for x in o["dyn"]))
            if key in lastobs and lastobs[key][0] != snap:
                a, b = lastobs[key][0], snap
                da = [x for x in a[0] + a[1] if x not in b[0] + b[1]][:2]
                db = [x for x in b[0] + b[1] if x not in a[0] + a[1]][:2]
                pf.append("obs@%d differs from obs@%d although bases and defined references are the same "
                          "(base change undone / write-read): %s -> %s" % (i, lastobs[key][1], da, db))
            lastobs.setdefault(key, (snap, i))
    if "sanity" in r:
        pf.append("_check_sanity failed at the end: " + r["sanity"])
    return terms, pf


def features(case):
    f = set()
    for op in case["ops"]:
        if op[0] == "setref":
            f.add("mode:" + op[3])
        if op[0] in ("addb", "rmb", "delref", "roundtrip", "params"):
            f.add("op:" + op[0])
    for mt in case["meta"]:
        if mt.get("acc") is False:
            f.add("rejected")
        for d in mt.get("dyn", []):
            f.add("item" if d["ok"] else "item_scope_error")
        if mt.get("dangling"):
            f.add("dangling")
    return f


def load_witnesses():
    return [json.load(open(p)) for p in sorted(glob.glob(os.path.join(CORPUS, "finding_*.json")))]


def load_regress():
    return [json.load(open(p)) for p in sorted(glob.glob(os.path.join(CORPUS, "case_*.json")))]


def suite_history(tier, rng, out):
    filt = collections.Counter()
    cases = []
    for c in load_regress():
        pc = prepare(c["raw"], collections.Counter(), "corpus")
        if pc is not None:
            cases.append(pc)
    ngrid = 0
    for cell in grid_cells(tier, rng):
        pc = prepare(grid_raw(*cell), filt, "grid:" + "/".join(map(str, cell)))
        if pc is None:
            filt["grid cells dropped"] += 1
            continue
        cases.append(pc)
        ngrid += 1
    nrand = 150 if tier == "quick" else 4000
    made = 0
    while made < nrand:
        raw = random_raw(rng)
        if raw is None:
            continue
        pc = prepare(raw, filt, "random")
        made += 1
        if pc is None:
            filt["random histories dropped"] += 1
            continue
        cases.append(pc)
    ndir = 0
    for _ in range(40 if tier == "quick" else 600):
        pc = prepare(reassign_raw(rng), filt, "reassign")
        if pc is None:
            filt["directed histories dropped"] += 1
            continue
        cases.append(pc); ndir += 1
    wit = load_witnesses()
    wcases = [{"kind": "script", "script": w["script"]} for w in wit]
    send = [{k: c[k] for k in ("kind", "ops", "refnames")} for c in cases] + wcases
    res = fw.run_driver("relref", send, chunk=max(1, min(40, (len(send) + fw.JOBS - 1) // fw.JOBS)))
    # ---- witnesses of the recorded defects
    for w, r in zip(wit, res[len(cases):]):
        fails = r.get("fails") or r.get("crash")
        fw.witness_result(out, "C10", w["key"], bool(fails), w["text"],
                          {"case": {"witness": w["key"]}, "detail0": fails, "script": w["script"] + "\nimport modelx as mx\nprint(check(mx))\n"})
    # ---- generated histories
    terms, owner = [], []
    feat = collections.Counter()
    canon = set()
    nder = 0
    for ci, (c, r) in enumerate(zip(cases, res)):
        ts, pf = evaluate_history(c, r)
        for t, i in ts:
            terms.append(t)
            owner.append((ci, i))
        for x in pf[:3]:
            out.p_failures.append({"case": {k: c[k] for k in ("ops", "refnames", "tag")}, "detail": x, "script": history_script(c)})
        for f in features(c):
            feat[f] += 1
        nontriv = any(e[2] and e[3] != "absolute" for o in r.get("obs", {}).values() for e in o["static"]) or \
            any(d[1] and d[3] for o in r.get("obs", {}).values() for d in o["dyn"])
        if nontriv:
            k = json.dumps(c["ops"])
            if k not in canon:
                canon.add(k)
                nder += 1
    bad = fw.run_coq_cases("C10hist", REQ,
                           "list (op * bool) * list (path * string * bind) * list (path * bool * list (path * string * dbind))",
                           "check_history", terms, shard=120)
    badcases = {}
    for i in bad:
        ci, oi = owner[i]
        badcases.setdefault(ci, oi)
    for ci, oi in badcases.items():
        c, r = cases[ci], res[ci]
        out.tie_mismatches.append({"case": {k: c[k] for k in ("ops", "refnames", "tag")}, "impl": {"ops": r["ops"], "obs": r["obs"].get(str(oi))},
                                   "expected_acceptance": [m.get("acc") for m in c["meta"]],
                                   "detail": "history: Coq model (run/lookup/dyn_of) and library disagree at observation %d" % oi,
                                   "script": history_script(c)})
    out.evaluations += len(terms)
    out.traces_validated += len(terms) - len(bad)
    out.distinct_nontrivial += nder
    out.distribution["history"] = {"histories": len(cases), "grid": ngrid, "random": len(cases) - ngrid - ndir, "directed_reassign": ndir,
                                   "observation_points": len(terms), "features": dict(feat),
                                   "filtered": dict(filt), "witnesses": len(wit)}
    for c in cases[:1] + cases[-1:]:
        out.samples.append({"tag": c["tag"], "ops": c["ops"][:14]})
    out.notes.append("filtered (recorded defects avoided): " + json.dumps(dict(filt), sort_keys=True))


def run(tier, seed, rng):
    out = Outcome()
    out.rule = ("get_relative / on_inherit / ItemSpace binding / edit histories: implementation == RelRef model evaluated in Coq; "
                "property text (`is` the corresponding / original object, modes kept, state-determined) holds on the live objects")
    suite_getrel(tier, rng, out)
    suite_history(tier, rng, out)
    return out


def replay(data):
    """re-run a stored failing case on the current tree; exit 1 if it still fails"""
    c = data.get("case", {})
    if "witness" in c:
        w = [x for x in load_witnesses() if x["key"] == c["witness"]][0]
        r = fw.run_driver("relref", [{"kind": "script", "script": w["script"]}])[0]
        print(r)
        return 1 if r.get("fails") else 0
    if "sub" in c:
        r = fw.run_driver("relref", [c])[0]
        pf = getrel_property(c, r)
        print(r, pf)
        return 1 if pf else 0
    pc = prepare(c["ops"], collections.Counter(), "replay")
    if pc is None:
        pc = {"kind": "history", "ops": c["ops"], "refnames": c["refnames"], "meta": [{} for _ in c["ops"]], "tag": "replay"}
        r = fw.run_driver("relref", [{k: pc[k] for k in ("kind", "ops", "refnames")}])[0]
        pf = [x for o in r.get("obs", {}).values() for x in o["p"]]
    else:
        r = fw.run_driver("relref", [{k: pc[k] for k in ("kind", "ops", "refnames")}])[0]
        ts, pf = evaluate_history(pc, r)
        if not pf and ts:
            bad = fw.run_coq_cases("C10replay", REQ,
                                   "list (op * bool) * list (path * string * bind) * list (path * bool * list (path * string * dbind))",
                                   "check_history", [t for t, _ in ts])
            if bad:
                pf = ["model and library disagree at observation(s) %s" % bad]
    print("\n".join(pf) or "no failure")
    return 1 if pf else 0
