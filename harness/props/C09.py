"""C09 the cached flag never changes any result — tie of Exec/Model.v + oracle; see execprops.py"""
import execprops as E

EXTRA_MODS = ["Exec.Check"]
ORACLES = [E.oracle_spec_values]
ASSUMPTIONS = ["formula vocabulary of Exec/Model.v (integers/None, calls, references by name/attribute, conditional, try/except, try/finally, raising expressions)",
               "CPython evaluation order, inspect.Signature.bind, traceback line numbers are modelled, exercised by the correspondence"]


def run(tier, seed, rng):
    return E.run_exec_property("C09", tier, rng, 110, 2000, {'p_fin_world': 0.2, 'alt': [(0.4, {'p_raise': 0.15, 'p_try': 0.4})], 'p_derived': 0.3, 'maxdepth': (30, 60), 'p_ref': 0.35, 'p_uncached': 0.35, 'p_none': 0.06, 'p_allow_none': 0.3}, {'eval': 6, 'clearat': 1, 'clear': 1, 'setf': 2, 'setcached': 2, 'setref': 3, 'scn_unc': 1, 'scn_unc2': 1, 'setallow': 1, 'scn_allow': 1}, (10, 30), ORACLES,
        'worlds as C02 with a third of the cells uncached; each history is run under two assignments of the cached flag (random subset flipped, flag changes dropped or kept) and all answers compared; uncached cells must hold no values' + "; non-trivial = an uncached cells and a reference edit; distinct by JSON of the case",
        lambda c, r: any(not x['cached'] for x in c['world']['cells']) and any(op[0]=='setref' for op in c['ops']), diff=E.oracle_flags)


def replay(data):
    return E.replay_exec("C09", data, ORACLES)
