"""C15  An exported package computes the same values as the model.

Three-way check per generated model (documented export subset):
 (P)  values of the exported package, imported in a sub-process where `import modelx`
      is blocked, == values of the model, for every cells and several arguments, in
      static / derived / nested / ItemSpace spaces, also with every cached flag flipped;
      includes "probe" cells (pr1..pr3) over references whose values are instances of SUBCLASSES of
      int/float/str (IntEnum / StrEnum members of http and signal, float/str/int subclasses of
      harness/c15lits.py): type(r).__name__, .name, .value, subclass methods, arithmetic; values are
      compared with their exact type (c15gen.canon tags them ["sub", module.qualname, base value]).
      Such references must be pickled by the exporter, never written as literals.  They are opaque
      in the (E) tables and probe queries are (P)-only (no strings / enum members in Gallina);
 (T)  the output of the real FormulaTransformer on every generated formula, parsed back
      into the formula grammar, == Gallina [transform] (Export/Model.v) on the same
      formula (vm_compute, expr_eqb): this ties [classify_global]/[replace] to
      symtable + libcst as used by transformer.py.
 (E)  the Gallina evaluator on the implementation's own dumped state (namespaces, formulas
      and ItemSpaces of every static / derived / dynamic space object, Export/Run.v
      [mk_model]): [call_cells] in the modelx world [Wo] AND in the exported world [Wt] ==
      the value the implementation returned, for every query with an int / list value.
      This ties the evaluator the theorems speak about to CPython + modelx.

Known defects of the pinned tree (generator avoids their triggers; witnesses in corpus/C15):
  D29_kwarg_name   a keyword-argument NAME that is also read as a rewritten global in the same scope
  (modelx itself rejects global names in default values of cells parameters: never generated)
Repaired in /repo (the shapes are generated; witnesses stay in corpus/C15, reproducers in corpus/fixed/C15_<key>.py):
  comp_scope       a list comprehension that follows a sibling lambda/def/genexp in its function (py>=3.12) looked its
                   names up in the sibling's symbol table; now in the table of the enclosing scope
  comp_var         the variable of a list comprehension that is also read as a global in the formula (py>=3.12) was
                   rewritten to self.k; now it is local to the comprehension.  Still not generated (c15gen.triggers
                   cpython3121_comp_sibling, NOT a modelx defect): a name bound by one inlined comprehension and read as a
                   global only in a later inlined comprehension of the same function - CPython 3.12.1 compiles it as a
                   local of the function, the model itself raises UnboundLocalError
  ifexp_order      `a if c else b` with function scopes in both a and c: libcst lists the scopes of a first, symtable those
                   of c, the symbol tables were paired crosswise (SyntaxError at import / AssertionError at export); the
                   transformer now sorts the scopes of c before those of a
  self_local       a parameter / local variable / nested function / lambda parameter / comprehension variable named `self`
                   hid the instance parameter of the generated method.  Such a formula is outside the export subset
                   (Export/Model.v no_self is a hypothesis of every C15 theorem, Run.v stbl_okb checks it; export_model now
                   documents the limitation): export must REFUSE the model with a ValueError naming 'self'.  The generator
                   names a fresh local `self` with probability P_SELF; for such a model (refusal_expected) (P) demands the
                   refusal of both exports instead of comparing values, (T) ties the other spaces only, (E) is not run
  builtin_child    a child space / ItemSpace parameter named like a built-in was not prefixed: child spaces ord / vars and
                   parameters id abs pow len hash sorted are generated.  The exporter now hands references + child spaces +
                   parameters (own and enclosing) + cells to FormulaTransformer: the dump mirrors that list ("xtop"); Run.v
                   wants s_top inside the namespace, so the static space of a parametrised tree gets the list without the
                   parameters ("top"); queries on such a space object are left to (P) when an absent parameter is named
                   like a built-in: the name then is the built-in function, which the Gallina evaluator cannot compare
                   with an integer or does not know at all (e_case)
"""
import os, json, glob, builtins, hashlib
import fw
from fw import Outcome
import c15gen as G
import c15lits

PROP = "C15"
EXTRA_MODS = ["Export.Run"]
CORPUS = os.path.join(fw.VERIF, "corpus", PROP)
PY_BUILTINS = sorted(n for n in builtins.__dict__.keys() if n[:2] != '__' or n[-2:] != '__')

TRUSTED = ["CPython name resolution (function globals then builtins, closures), libcst, symtable, pickle and pprint are "
           "modelled, not verified; the formula evaluator of Export/Model.v is a model of CPython on the grammar, compared "
           "with the implementation's values on every run (evaluator tie)"]
ASSUMPTIONS = ["(T) and (E) cover formulas inside the grammar of Export/Model.v (all generated ones are); anything else is covered by (P) only",
               "closures capture their environment by value in the Gallina evaluator (generated formulas assign every local once, before any "
               "capture; a nested def sees itself)",
               "module globals of the generated package (_mx_sys, _m_<space>) and the extra underscore attributes of space objects are not modelled",
               "default values of cells parameters and pandas/IOSpec-backed references are covered by (P) only / not generated",
               "references whose values are instances of subclasses of int/float/str (enum members, c15lits classes) and the probe cells "
               "reading them are covered by (P) and the module-level-names check only; they are opaque values in the evaluator tie (E)"]


# --------------------------------------------------------------------------
def repro_script(case, qi=None):
    """stand-alone reproducer: builds the model with modelx, exports it, queries both"""
    L = ["import modelx as mx, sys, os, subprocess, tempfile, json, shutil"]
    lits = [v[1] for _, v in case.get("mrefs", []) if v[0] == "lit"] + \
           [rf[1][1] for sp in case["spaces"] for rf in sp["refs"] if rf[1][0] == "lit"]
    helper = os.path.join(fw.VERIF, "harness") if any(c15lits.needs_helper(k) for k in lits) else None
    if helper:
        L.append("sys.path.insert(0, %r); import c15lits   # int/float/str subclasses used as reference values" % helper)
    L += ["m = mx.new_model('M')", "S = []"]
    for sp in case["spaces"]:
        par = "m" if sp["parent"] is None else "S[%d]" % sp["parent"]
        kw = ""
        if sp["bases"]:
            kw += ", bases=[%s]" % ", ".join("S[%d]" % b for b in sp["bases"])
        if sp.get("params") is not None:
            ps = ", ".join(p if d is None else "%s=%s" % (p, d) for p, d in sp["params"])
            kw += ", formula=%r" % ("lambda %s: None" % ps)
        L.append("S.append(%s.new_space(%r%s))" % (par, sp["name"], kw))
    for i, sp in enumerate(case["spaces"]):
        for c in sp["cells"]:
            src = G.formula_source(c["name"], c["params"], c["body"], c["style"])
            L.append("if %r in S[%d].cells: S[%d].cells[%r].set_formula(%r)" % (c["name"], i, i, c["name"], src))
            L.append("else: S[%d].new_cells(%r, formula=%r, is_cached=%r)" % (i, c["name"], src, c["cached"]))

    def val(v):
        k = v[0]
        if k == "space":
            return "S[%d]" % v[1]
        if k == "cells":
            return "S[%d].%s" % (v[1], v[2])
        if k == "float":
            return "float(%r)" % v[1]
        if k == "dict":
            return repr({a: b for a, b in v[1]})
        if k == "tuple":
            return repr(tuple(v[1]))
        if k == "module":
            return "__import__(%r)" % v[1]
        if k == "lit":
            return c15lits.pyexpr(v[1])
        return repr(v[1])
    for n, v in case.get("mrefs", []):
        L.append("m.%s = %s" % (n, val(v)))
    for i, sp in enumerate(case["spaces"]):
        for rf in sp["refs"]:
            if len(rf) > 2 and rf[2]:
                L.append("S[%d].set_ref(%r, %s, refmode=%r)" % (i, rf[0], val(rf[1]), rf[2]))
            else:
                L.append("S[%d].%s = %s" % (i, rf[0], val(rf[1])))
    qs = case["queries"] if qi is None else [case["queries"][qi]]

    def qexpr(q):
        s = "ROOT"
        for seg in q["path"]:
            if seg[0] == "attr":
                s += "." + seg[1]
            elif seg[0] == "item":
                s += "[%s]" % ", ".join(map(str, seg[1]))
            else:
                s += "(%s)" % ", ".join(map(str, seg[1]))
        return s + ".%s(%s)" % (q["cell"], ", ".join(map(str, q["args"])))
    L.append("d = tempfile.mkdtemp(); m.export(os.path.join(d, 'pkg_nomx'))")
    L.append("qs = %r" % [qexpr(q) for q in qs])
    L.append("def ev(ROOT, q):\n    try: return repr(eval(q))\n    except Exception as e: return 'ERR ' + type(e).__name__")
    L.append("mine = [ev(m, q) for q in qs]")
    L.append("code = 'import sys; sys.modules[\"modelx\"]=None; sys.path.insert(0, %r)\\n' % d + " +
             (repr("sys.path.insert(0, %r)\n" % helper) + " + " if helper else "") +
             "'try:\\n    from pkg_nomx import mx_model as ROOT\\nexcept BaseException as e:\\n    print(\"IMPORT-ERR\", type(e).__name__, e); raise SystemExit\\n' + "
             "'for q in %r:\\n    try: print(repr(eval(q)))\\n    except Exception as e: print(\"ERR\", type(e).__name__)\\n' % qs")
    L.append("out = subprocess.run([sys.executable, '-c', code], stdout=subprocess.PIPE, text=True, "
             "env={k: v for k, v in os.environ.items() if k != 'PYTHONPATH'}).stdout.splitlines()")
    L.append("for q, a, b in zip(qs, mine, out + ['?'] * len(qs)): print(q, '| model:', a, '| exported:', b, '' if a == b else '   <-- DIFFERENT')")
    L.append("shutil.rmtree(d)")
    return "\n".join(L) + "\n"


def has_binder(e):
    if isinstance(e, list):
        if e and e[0] in ("lam", "comp", "let", "def"):
            return True
        return any(has_binder(x) for x in e)
    return False


def refusal_expected(case):
    """a formula of the model binds the name `self` (parameter, local, nested def, lambda parameter, comprehension
    variable): the model is outside the export subset (documented limitation; Export/Model.v no_self) and
    export must refuse it (self_local, repaired in /repo)"""
    return any(G.binds_self([p for p, _ in c["params"]], c["body"]) for sp in case["spaces"] for c in sp["cells"])


# --------------------------------------------------------------------------
def p_oracle(case, res):
    """(P) on one case: list of failure dicts, stats"""
    fails = []
    st = {"queries": 0, "compared": 0, "model_err": 0}
    if res.get("build_err"):
        return None, st
    if refusal_expected(case):
        # not a model of the export subset: both exports must be refused, by the error that names the cause
        for v in "ab":
            msg = (res.get("export_err") or {}).get(v)
            if msg is None or not (msg.startswith("ValueError:") and "'self'" in msg):
                fails.append({"case": case["id"], "detail": "a formula binds the name `self` (outside the export subset): export must refuse the "
                              "model with a ValueError naming 'self', but (variant %s) %s" % (v, "it exported the model" if msg is None else "it failed with " + msg),
                              "script": repro_script(case)})
        return fails, st
    if res.get("export_err"):
        for v, msg in res["export_err"].items():
            fails.append({"case": case["id"], "detail": "export/import of the generated package failed (variant %s): %s" % (v, msg),
                          "script": repro_script(case)})
        return fails, st
    vals = res["vals"]
    if res.get("modelx_blocked") is False:
        raise fw.Broken("modelx was importable in the export runner")
    for qi, q in enumerate(case["queries"]):
        st["queries"] += 1
        ma = vals["ma"][qi]
        if ma[0] == "err":
            st["model_err"] += 1
            continue
        st["compared"] += 1
        row = {k: vals[k][qi] for k in ("ma", "mb", "xa", "xb") if k in vals}
        bad = [k for k, v in row.items() if v != ma]
        if bad or len(row) < 4:
            fails.append({"case": case["id"], "query": q, "values": row,
                          "detail": "query %s: model=%s but %s" % (json.dumps(q), json.dumps(ma),
                                                                   ", ".join("%s=%s" % (k, json.dumps(row[k])) for k in bad) or "missing variant"),
                          "script": repro_script(case, qi)})
            if len(fails) >= 3:
                break
    return fails, st


def t_cases(case, res, seen, spec_asts):
    """(T) observations of one case -> (coq terms, meta), direct structural mismatches"""
    terms, metas, direct = [], [], []
    for ob in res.get("obs", []):
        if ob.get("exc") == "ValueError" and refusal_expected(case):
            continue        # the refusal itself ((P) checks its message); the formulas of the other spaces are tied as usual
        if ob.get("exc"):
            direct.append({"case": case["id"], "detail": "FormulaTransformer: %s %s" % (ob["exc"], ob.get("code", ""))})
            continue
        for f in ob["funcs"]:
            if "unsupported" in f:
                seen["unsupported"] += 1
                continue
            if not f.get("tname_ok") or not f.get("self_first") or f.get("tparams") != f.get("params"):
                direct.append({"case": case["id"], "detail": "generated method for %s has the wrong name/parameters: %r" % (f["name"], {k: f.get(k) for k in ("tname_ok", "self_first", "tparams", "params")})})
                continue
            if spec_asts is not None and f["src"] not in spec_asts.get(f["name"], []):
                raise fw.Broken("printer/parser round trip differs for cells %s of %s: %r" % (f["name"], case["id"], f["src"]))
            key = json.dumps([ob["top"], ob["cells"], f["params"], f["src"]], sort_keys=True)
            if key in seen["keys"]:
                continue
            seen["keys"].add(key)
            term = "(%s, %s, %s, %s, %s)" % (
                G._cl([G._cs(x) for x in ob["top"]]), G._cl([G._cs(x) for x in ob["cells"]]),
                G._cl([G._cs(x) for x in f["params"]]), G.coq_expr(f["src"]), G.coq_expr(f["out"]))
            terms.append(term)
            metas.append({"case": case["id"], "fn": f["name"], "top": ob["top"], "cells": ob["cells"], "params": f["params"],
                          "src": f["src"], "out": f["out"]})
    return terms, metas, direct


CHECK = ("fun c => match c with (top, cls, ps, body, obs) => "
         "expr_eqb (transform {| t_top := top; t_cells := cls; t_bi := bi |} (fscope ps body) body) obs end")
CASE_T = "list string * list string * list string * expr * expr"


def coq_bi():
    return "Definition bi : list string := %s.\n" % G._cl([G._cs(x) for x in PY_BUILTINS])


# ---- (E): the Gallina evaluator on the implementation's dumped state --------------------
def coq_dval(v):
    k = v[0]
    if k == "i":
        return "(VInt (%d))" % v[1]
    if k == "b":
        return "(VBool %s)" % ("true" if v[1] else "false")
    if k == "l":
        return "(VList %s)" % G._cl(["(VInt (%d))" % x for x in v[1]])
    if k == "obj":
        return "(VObj %d%%nat)" % v[1]
    if k == "cell":
        return "(VCell %d%%nat %s)" % (v[1], G._cs(v[2]))
    return '(VBuiltin "<opaque>")'


def coq_canon(v):
    """canonical observed value -> Gallina value, None when outside the evaluator's values"""
    if v[0] == "i":
        return "(VInt (%d))" % v[1]
    if v[0] == "l":
        xs = [coq_canon(x) for x in v[1]]
        return None if any(x is None for x in xs) else "(VList %s)" % G._cl(xs)
    return None


def e_case(case, res):
    """Gallina term (tables, queries) for one case, number of queries, or None"""
    d = res.get("dump")
    if not d:
        return None, 0
    # a static space of a parametrised tree has no value for the parameters: one named like a built-in IS the built-in
    # function there (in the model and, by a class attribute, in the package), where the generated formulas mean an
    # integer.  The Gallina evaluator knows the built-ins of Run.v py_fn only and has no == between a function and an
    # integer (False in Python): queries on such a space object are left to (P)
    beyond = {sid for sid, sp in enumerate(d["spaces"]) if any(k in PY_BUILTINS for k in sp["absent"])}
    tbls = []
    for sp in d["spaces"]:
        ns = G._cl(["(%s, %s)" % (G._cs(n), coq_dval(v)) for n, v in sp["ns"]])
        cells = G._cl(["(%s, (%s, %s))" % (G._cs(n), G._cl([G._cs(p) for p in ps]), G.coq_expr(b)) for n, ps, b in sp["cells"]])
        items = G._cl(["(%s, %d%%nat)" % (G._cl(["(%d)%%Z" % x for x in k]), s) for k, s in sp["items"]])
        tbls.append("{| s_ns := %s; s_cells := %s; s_items := %s; s_top := %s; s_cellnames := %s |}" % (
            ns, cells, items, G._cl([G._cs(x) for x in sp["top"]]), G._cl([G._cs(x) for x in sp["cellnames"]])))
    qs = []
    arity = {}
    for sid, sp in enumerate(d["spaces"]):
        for n, ps, b in sp["cells"]:
            arity[(sid, n)] = len(ps)
    for qi, q in enumerate(case["queries"]):
        sid = d["qsid"][qi]
        ma = res["vals"]["ma"][qi]
        if sid is None or ma[0] == "err" or sid in beyond:
            continue
        if q["cell"] in case.get("probes", ()):
            continue            # probe of literal-subclass references: strings / enum members are not Gallina values, (P) only
        v = coq_canon(ma)
        if v is None or arity.get((sid, q["cell"])) != len(q["args"]):
            continue            # value outside the evaluator's vocabulary / default arguments used
        if os.environ.get("C15_SELFTEST_E") == "1" and not qs and ma[0] == "i":
            v = "(VInt (%d))" % (ma[1] + 1)      # self-test of the harness: a wrong expectation must be reported
        qs.append("(%d%%nat, %s, %s, %s)" % (sid, G._cs(q["cell"]), G._cl(["(VInt (%d))" % a for a in q["args"]]), v))
    if not qs:
        return None, 0
    return "(%s, %s)" % (G._cl(tbls), G._cl(qs)), len(qs)


def spec_ast_index(case):
    idx = {}
    for sp in case["spaces"]:
        for c in sp["cells"]:
            idx.setdefault(c["name"], []).append(c["body"])
    return idx


def load_corpus():
    regs, finds = [], []
    for p in sorted(glob.glob(os.path.join(CORPUS, "*.json"))):
        d = json.load(open(p))
        d["_file"] = os.path.basename(p)
        (finds if d.get("finding") else regs).append(d)
    return regs, finds


def run(tier, seed, rng):
    out = Outcome()
    n = int(os.environ.get("C15_N", "0")) or (140 if tier == "quick" else 2400)
    out.rule = ("random models of the documented export subset (static/nested/derived/parametrised spaces; literal, pickled, space- and "
                "cells-valued references; def and lambda cells with nested lambdas, nested (recursive) defs, list comprehensions, generator "
                "expressions, local assignments, keyword calls, local/parameter names shadowing globals and built-ins, references and cells "
                "shadowing built-ins; child spaces and ItemSpace parameters named like built-ins; now and then a local named `self` (export must "
                "refuse that model); cached and uncached cells; space- and model-level references whose values are instances of "
                "SUBCLASSES of int/float/str (IntEnum/StrEnum members of http and signal, float/str/int subclasses of harness/c15lits.py), "
                "read by probe cells through type(r).__name__, .name, .value, methods of the subclass and arithmetic, also via inheritance, "
                "child/referenced spaces and ItemSpaces); every cells queried at 1-2 argument tuples per access path, twice (cached "
                "flags flipped). distinct_nontrivial = distinct (formula, module-level names) pairs given to FormulaTransformer whose formula "
                "has an inner binder (lambda/comprehension/assignment/def) AND in which at least one name was rewritten")
    regs, finds = load_corpus()
    stats = {"filtered": {}}
    cases = []
    for d in regs:
        cases.append(dict(d["case"], id="r%d" % len(cases)))
    k = 0
    while len(cases) < n + len(regs):
        c = G.gen_case(rng, "g%d" % k, PY_BUILTINS, stats)
        k += 1
        if c is not None:
            cases.append(c)
    wit = [dict(d["case"], id="w%d" % i) for i, d in enumerate(finds)]
    res = fw.run_driver("export", cases + wit, timeout=1500)
    wres = res[len(cases):]
    res = res[:len(cases)]
    if res and res[0].get("builtins") and res[0]["builtins"] != PY_BUILTINS:
        raise fw.Broken("builtins of the driver interpreter differ from the harness interpreter")

    # ---- (P) ----
    tot = {"queries": 0, "compared": 0, "model_err": 0}
    build_errs = 0
    for c, r in zip(cases, res):
        fails, st = p_oracle(c, r)
        if fails is None:
            build_errs += 1
            out.notes.append("model %s could not be built: %s" % (c["id"], r["build_err"]))
            continue
        for k2 in tot:
            tot[k2] += st[k2]
        for f in fails[:2]:
            f["model"] = c
            out.p_failures.append(f)
    if build_errs > max(3, len(cases) // 10):
        raise fw.Broken("%d generated models could not be built" % build_errs)
    if tot["compared"] < tot["queries"] // 3:
        raise fw.Broken("generator degenerated: only %d of %d queries evaluate in the model" % (tot["compared"], tot["queries"]))

    # ---- (T) ----
    seen = {"keys": set(), "unsupported": 0}
    terms, metas = [], []
    for c, r in zip(cases, res):
        if r.get("build_err"):
            continue
        t, m, direct = t_cases(c, r, seen, spec_ast_index(c))
        terms += t
        metas += m
        for dmm in direct:
            out.tie_mismatches.append(dict(dmm, model=c))
    by_id = {c["id"]: c for c in cases}
    bad = fw.run_coq_cases("C15", ["Export.Model"], CASE_T, CHECK, terms, shard=150, extra_defs=coq_bi()) if terms else []
    for i in bad[:10]:
        mm = metas[i]
        show = fw.coq_show("C15", ["Export.Model"],
                           "transform {| t_top := %s; t_cells := %s; t_bi := bi |} (fscope %s %s) %s" % (
                               G._cl([G._cs(x) for x in mm["top"]]), G._cl([G._cs(x) for x in mm["cells"]]),
                               G._cl([G._cs(x) for x in mm["params"]]), G.coq_expr(mm["src"]), G.coq_expr(mm["src"])),
                           extra_defs=coq_bi())
        out.tie_mismatches.append({"case": mm["case"], "fn": mm["fn"], "detail": "FormulaTransformer output differs from Export/Model.v transform",
                                   "source": G.pblock(mm["src"], 1), "impl": G.pblock(mm["out"], 1), "coq": show[-1500:],
                                   "model": by_id.get(mm["case"])})
    # ---- (E) evaluator tie: call_cells in both worlds on the dumped state == observed values ----
    eterms, emeta, nq = [], [], 0
    dump_errs = 0
    for c, r in zip(cases, res):
        if r.get("build_err"):
            continue
        if r.get("dump_err"):
            dump_errs += 1
            out.notes.append("model %s could not be dumped: %s" % (c["id"], r["dump_err"]))
            continue
        # the module-level names of the dumped tables must be the ones the exporter really gave to FormulaTransformer
        obs_tops = {tuple(ob.get("top", [])) for ob in r.get("obs", [])}
        if not r.get("export_err"):
            for sp in r["dump"]["spaces"]:
                # xtop: references, child spaces, ItemSpace parameters (own and enclosing) and cells of the static space
                if tuple(sp["xtop"]) not in obs_tops and (sp["xtop"] or sp["cells"]):
                    out.tie_mismatches.append({"case": c["id"], "model": c, "detail": "module-level names handed to FormulaTransformer for %s differ from "
                                               "references + child spaces + parameters + cells of the space: %r not among %r" % (sp["repr"], sp["xtop"], sorted(obs_tops))})
                    break
        # a model that binds `self` does not satisfy Run.v model_okb (no_self): no (E) for it
        t, k2 = (None, 0) if refusal_expected(c) else e_case(c, r)
        if t:
            eterms.append(t); emeta.append((c, r)); nq += k2
    if dump_errs > max(3, len(cases) // 10):
        raise fw.Broken("%d models could not be dumped for the evaluator tie" % dump_errs)
    ebad = fw.run_coq_cases("C15e", ["Export.Model", "Export.Run"], "list stbl * list query", "check_model bi", eterms,
                            shard=12, extra_defs=coq_bi()) if eterms else []
    for i in ebad[:5]:
        c, r = emeta[i]
        show = fw.coq_show("C15e", ["Export.Model", "Export.Run"],
                           "let c := %s in (failing (check_query (mk_model (fst c) bi)) (snd c), map (show_query bi (fst c)) (snd c))" % eterms[i],
                           extra_defs=coq_bi())
        out.tie_mismatches.append({"case": c["id"], "detail": "Gallina evaluator (Export/Model.v eval, both worlds) disagrees with the values of the implementation",
                                   "model": c, "coq": show[-2500:], "script": repro_script(c)})
    out.evaluations = len(cases)
    out.traces_validated = len(terms) - len(bad) + len(eterms) - len(ebad)
    out.extra["evaluator_tie"] = {"models": len(eterms), "queries": nq, "mismatching_models": len(ebad)}
    nontriv = set()
    for mm in metas:
        if has_binder(mm["src"]) and mm["src"] != mm["out"]:
            nontriv.add(json.dumps([mm["top"], mm["src"]], sort_keys=True))
    out.distinct_nontrivial = len(nontriv)

    # ---- witnesses of the recorded defects ----
    for d, c, r in zip(finds, wit, wres):
        fails, st = p_oracle(c, r)
        if fails is None:
            raise fw.Broken("witness %s cannot be built: %s" % (d["_file"], r.get("build_err")))
        failing = bool(fails)
        text = d["finding"]["text"]
        fw.witness_result(out, PROP, d["finding"]["key"], failing, text,
                          {"case": d["_file"], "model": c, "script": repro_script(c)})
        if not failing:
            out.notes.append("witness %s no longer fails" % d["_file"])

    probe_q = probe_cmp = 0
    for c, r in zip(cases, res):
        if r.get("build_err") or not c.get("probes"):
            continue
        for qi, q in enumerate(c["queries"]):
            if q["cell"] in c["probes"]:
                probe_q += 1
                if "ma" in r["vals"] and r["vals"]["ma"][qi][0] != "err":
                    probe_cmp += 1
    kinds = {}
    for mm in metas:
        def walk(e):
            if isinstance(e, list):
                if e and isinstance(e[0], str) and e[0] in ("lam", "comp", "let", "def", "sub", "attr", "if", "call"):
                    kk = e[0] + ("_" + e[1] if e[0] == "comp" else "") + ("_kw" if e[0] == "call" and e[3] else "")
                    kinds[kk] = kinds.get(kk, 0) + 1
                for x in e:
                    walk(x)
        walk(mm["src"])
    out.distribution = {"models": len(cases), "corpus_models": len(regs), "witnesses": len(finds),
                        "queries": tot["queries"], "queries_compared_4way": tot["compared"],
                        "queries_where_the_model_raises": tot["model_err"],
                        "formulas_in_tie": len(terms), "formulas_outside_grammar": seen["unsupported"],
                        "spaces": {"total": sum(len(c["spaces"]) for c in cases),
                                   "derived": sum(1 for c in cases for s in c["spaces"] if s["bases"]),
                                   "parametrised": sum(1 for c in cases for s in c["spaces"] if s.get("params") is not None),
                                   "nested": sum(1 for c in cases for s in c["spaces"] if s["parent"] is not None),
                                   "child_named_like_builtin": sum(1 for c in cases for s in c["spaces"]
                                                                   if s["parent"] is not None and s["name"] in PY_BUILTINS),
                                   "parameter_named_like_builtin": sum(1 for c in cases for s in c["spaces"]
                                                                       if any(p[0] in PY_BUILTINS for p in (s.get("params") or [])))},
                        "literal_subclass_refs": {
                            "models_with_such_refs": sum(1 for c in cases if c.get("lit_refs")),
                            "refs": sum(c.get("lit_refs", 0) for c in cases),
                            "model_level": sum(1 for c in cases for _, v in c.get("mrefs", []) if v[0] == "lit"),
                            "in_derived_spaces": sum(1 for c in cases for s in c["spaces"] if s["bases"] for rf in s["refs"] if rf[1][0] == "lit"),
                            "in_parametrised_trees": sum(1 for c in cases for s in c["spaces"] if s.get("params") is not None
                                                         for rf in s["refs"] if rf[1][0] == "lit"),
                            "probe_cells": sum(1 for c in cases for s in c["spaces"] for ce in s["cells"] if ce.get("probe")),
                            "probe_queries": probe_q, "probe_queries_compared_4way": probe_cmp},
                        "models_binding_self_refused_by_export": sum(1 for c in cases if refusal_expected(c)),
                        "uncached_cells": sum(1 for c in cases for s in c["spaces"] for ce in s["cells"] if not ce["cached"]),
                        "cells": sum(len(s["cells"]) for c in cases for s in c["spaces"]),
                        "syntax_nodes_in_tie": kinds,
                        "filtered_by_known_defect_trigger": stats["filtered"]}
    out.notes.append("references whose values are instances of subclasses of int/float/str and the probe cells (pr1..pr3) that read them are "
                     "checked by (P) (four-way value comparison with exact types: canon tags them ['sub', module.qualname, base value]) and by "
                     "the module-level-names check of the dumped namespaces only: the Gallina evaluator has no strings / enum members / "
                     "attribute access on such values, so these references are opaque in the (E) tables and probe queries are left out of (E); "
                     "probe formulas are inside the grammar, so (T) covers their transformation")
    out.notes.append("generator rejects formulas that trigger a recorded defect (decidable predicates in c15gen.triggers: D29, and "
                     "cpython3121_comp_sibling, a defect of CPython 3.12.1 itself - the model raises UnboundLocalError; comp_scope, comp_var, "
                     "ifexp_order, builtin_child and self_local are repaired in /repo and generated): %s" % json.dumps(stats["filtered"]))
    for c in cases[:40]:
        for s in c["spaces"]:
            for ce in s["cells"]:
                if has_binder(ce["body"]) and len(out.samples) < 3:
                    out.samples.append({"space": s["name"], "cached": ce["cached"],
                                        "formula": G.formula_source(ce["name"], ce["params"], ce["body"], ce["style"])})
    return out


def replay(data):
    """re-run one stored failing model through the driver and the (P) oracle"""
    case = data.get("model") or data.get("case")
    if not isinstance(case, dict):
        print("replay file has no model"); return 2
    case = dict(case, id="rp0")
    r = fw.run_driver("export", [case])[0]
    fails, st = p_oracle(case, r)
    print(json.dumps({"failures": [f["detail"] for f in (fails or [])], "stats": st}, indent=1))
    return 1 if fails else 0
