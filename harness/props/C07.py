"""C07 ItemSpaces are parametrised, isolated, identity-stable instances of their base.

Suite (driver dyn.py, generator dynlib.py): forests of static spaces with parameter formulas (1-2 parameters,
defaults; None / extra references / another base / conditional on an argument), child spaces, nested ItemSpaces
(S[1][2], S[1].C[5], S.C[1]), all argument spellings, and histories of requests, evaluations through kept handles
and edits of the definitions (set_formula, new/deleted cells, new/changed/deleted reference, new/deleted space,
parameter-formula change, references of the model, clear_items, del S[..]).  After every operation: the output, the keys of all live
ItemSpaces (through .itemspaces, recursively) and the validity of every space / cells handle kept.

(T) Dyn/Tie.v runs Dyn/Model.v on the same operations and compares every observation.
(P) through the proved specification: every value served equals Dyn.Model.spec_value of the current definitions
    (evaluated in Coq on the implementation's outputs, Dyn.Tie.spec_check); every returned key instantiates.
(P) differential on the implementation: every value (or failure kind) served through a live or re-created
    handle equals what a FRESH model built from the current definitions gives for the same instance and
    arguments (per evaluation, and for every cells of every valid handle at the end of the history);
    requests that bind equally return the very same object (`S[a] is S(a)`), others a different one.

About one case in ten uses a vocabulary outside Dyn/Model.v (a parameter formula that calls a cells of a static
space, so that the ItemSpace hangs below that cells in the trace graph); those go through the differential (P) only.

INHERITANCE class (generator dyninh.py, differential (P) only; 160 cases quick / 1800 thorough, from a generator of
their own seeded from the run's rng after the model-tied cases, which are therefore unchanged): static spaces that
inherit from other static spaces (new_space(bases=...), add_bases, remove_bases), references and cells defined in the
base and derived in the sub space, sub spaces holding references only, such spaces replicated as child spaces into
ItemSpaces or chosen as 'base' by parameter formulas, and histories that change / create / delete the references and
cells ON THE BASE after instances were built and handles kept.  Every evaluation and every reference read through a
kept handle, and in `audit` operations every member (references by attribute and through .refs, every cells, the
dynamic child spaces, recursively) of every kept valid handle and of every instance requested again, must equal the
same member of the same instance of a fresh model of the current definitions; a kept handle may instead raise the
deleted-object error; a valid kept handle must be the very object the repeated request returns.

Former defects of the tree (ALL repaired in /repo; their triggers are generated again, see dynlib.py / dyninh.py; witnesses
corpus/C07/finding_*.json replayed through the same (P) oracle): D38 (parameter-formula change), D41 / D41b (the derived
references of a static space that sees no cells are deleted or re-derived: reference deleted in its base, base space
deleted, remove_bases, add_bases; live copies of the space stay as they were), D39 (deleted foreign base; repaired).
The inheritance generator also stays clear of the static-inheritance findings D1 / D2 / D2b of C03 (new_cells /
formula assignment in a base when a sub space gets the cells from another definer).  D14 D15 D16 D18 are repaired in /repo (ledger: fixed); their witnesses keep running and a
failure of one of them is a (P) failure."""
import os, json, glob, collections, random
import fw
import dynlib
import dyninh
from fw import Outcome

EXTRA_MODS = ["Dyn.Tie"]
CORPUS = os.path.join(fw.VERIF, "corpus", "C07")
TRUSTED = ["CPython inspect.Signature.bind/apply_defaults is modelled by Dyn.Model.bind (compared on every request)",
           "weakref.WeakValueDictionary (dynamic_cache): handle re-attachment is observed while the harness holds the handle; "
           "in the model a handle IS the dynamic key, so 'an old handle raises or denotes the re-created instance' rests on the tie",
           "value caching inside an instance follows Exec (C01/C06)"]
ASSUMPTIONS = ["formulas are over the generated expression language (ints, names, + - *, conditional, sibling calls, child-space calls); "
               "parameter formulas depend on their arguments only and call no cells",
               "ItemSpaces are requested from outside formulas; reference values are ints; inheritance between static spaces "
               "(cells and references; bases of lower rank only, no cycles) occurs in the inheritance class only, which is "
               "checked differentially (live model vs fresh model of the current definitions), not against Dyn/Model.v",
               "the recorded defects D38 D41 D41b (and C03's D1 D2 D2b) are repaired in /repo: their triggers are generated "
               "(dynlib.py / dyninh.py doc)"]

CASE_TYPE = "tie_case"


def load_corpus():
    ws, regress = [], []
    for p in sorted(glob.glob(os.path.join(CORPUS, "*.json"))):
        d = json.load(open(p))
        (ws if os.path.basename(p).startswith("finding_") else regress).append(d)
    return ws, regress


def script_of(case):
    return ("# stand-alone reproducer: PYTHONPATH=/repo:/verif/harness python this.py\n"
            "import json, subprocess, sys\ncase = json.loads(%r)\n"
            "p = subprocess.run([sys.executable, '/verif/harness/drivers/dyn.py'], input=json.dumps([case]), text=True, capture_output=True)\n"
            "r = json.loads([l for l in p.stdout.splitlines() if l.startswith('@@RESULT ')][0][9:])[0]\n"
            "sys.path.insert(0, '/verif/harness'); from props.C07 import oracle\nprint('\\n'.join(oracle(case, r)) or 'no failure')\n"
            % json.dumps(case))


def oracle(case, r):
    """the property evaluated on what the implementation did; list of failure texts"""
    f = []
    if "crash" in r:
        return ["driver crashed: " + r["crash"][:500]]
    if "fails" in r:
        return [r["info"] or "witness script reports a failure"] if r["fails"] else []
    recipes = []
    for n, (op, st) in enumerate(zip(case["ops"], r["steps"])):
        out = st["out"]
        if st.get("fresh") is not None and out[0] in ("val", "handle", "fail"):
            if out != st["fresh"]:
                f.append("op %d %s: the live model answers %s, a fresh model of the current definitions answers %s"
                         % (n, json.dumps(op), json.dumps(out), json.dumps(st["fresh"])))
        if op["op"] in ("getitem", "child"):
            new = st.get("new")
            if new is not None:
                want = [i for i, rc in enumerate(recipes) if rc == new]
                if sorted(st["same"]) != want:
                    f.append("op %d %s: identity: the object returned is identical to handles %s, "
                             "handles with the same key are %s" % (n, json.dumps(op), st["same"], want))
            recipes.append(new)
        for rec, what, _, a, b in st.get("audit") or []:
            f.append("op %d audit: %s %s serves %s, a fresh model of the current definitions gives %s"
                     % (n, json.dumps(rec), what, json.dumps(a), json.dumps(b)))
    for rec, cname, args, a, b in r.get("sweep", []):
        if a != b:
            f.append("final sweep: %s.%s%s serves %s, a fresh model of the current definitions gives %s"
                     % (json.dumps(rec), cname, tuple(args), json.dumps(a), json.dumps(b)))
    return f


def focus(case, r):
    """does the case exercise the property's focus: an edit met by a kept handle that is evaluated afterwards,
    or the same instance requested through two spellings"""
    kinds = [o["op"] for o in case["ops"]]
    edits = [i for i, k in enumerate(kinds) if k not in ("getitem", "eval", "child", "takecells", "getref", "audit")]
    ev_after = any(k in ("eval", "getref") and edits and i > edits[0] and r["steps"][i]["out"][0] in ("val", "deleted")
                   for i, k in enumerate(kinds))
    same = any(st.get("same") for st in r.get("steps", []))
    return ev_after or same


def run(tier, seed, rng):
    out = Outcome()
    n = 800 if tier == "quick" else 9000
    witnesses, regress = load_corpus()
    cases = []
    for i, w in enumerate(witnesses):
        c = dict(w["case"]) if "case" in w else {"script": w["script"]}
        c["id"] = "w%d" % i; c["witness"] = w["key"]; c["wtext"] = w["text"]
        cases.append(c)
    for i, c in enumerate(regress):
        cases.append(dict(c["case"], id="r%d" % i))
    seen = set()
    precautions = 0
    for i in range(n):
        c = dynlib.gen_case(rng)
        k = dynlib.canon(c)
        if k in seen:
            continue
        seen.add(k)
        c["id"] = "g%d" % i
        precautions += c.get("precautions", 0)
        cases.append(c)
    # inheritance class ((P) only): its own generator, seeded after the model-tied cases were drawn
    rng_inh = random.Random(rng.getrandbits(64))
    inh_feat, inh_kinds, inh_avoided = collections.Counter(), collections.Counter(), collections.Counter()
    for i in range(160 if tier == "quick" else 1800):
        c = dyninh.gen_case(rng_inh)
        k = dynlib.canon(c)
        if k in seen:
            continue
        seen.add(k)
        c["id"] = "h%d" % i
        inh_feat.update(dyninh.features(c)); inh_kinds.update(c["kinds"]); inh_avoided.update(c["avoided"])
        cases.append(c)
    res = fw.run_driver("dyn", cases, chunk=25 if tier == "quick" else 60)
    # ---- (P)
    dist = collections.Counter()
    outs = collections.Counter()
    met = collections.Counter()
    nfocus = 0
    for c, r in zip(cases, res):
        fails = oracle(c, r)
        if c.get("witness"):
            fw.witness_result(out, "C07", c["witness"], bool(fails), c["wtext"][:220],
                              {"case": c, "detail": "; ".join(fails)[:1500], "script": script_of(c)})
            continue
        if fails:
            out.p_failures.append({"case": c, "detail": "; ".join(fails)[:2000], "script": script_of(c)})
        prev = []
        for o, st in zip(c["ops"], r.get("steps", [])):
            dist[o["op"]] += 1
            outs[st["out"][0]] += 1
            # edits whose deletions reach an ItemSpace of ANOTHER space (a copy of a child space / foreign base):
            # the behaviour repaired by the D14/D16 fixes
            ed = o.get("p") if "p" in o else (o["q"][:-1] if "q" in o else None)
            if ed is not None and st["out"][0] == "done" and o["op"] not in ("clearitems", "delitem"):
                now = [json.dumps(k) for k in st["live"]]
                if any(k[0] != ed and json.dumps(k) not in now for k in prev):
                    met[o["op"]] += 1
            prev = st["live"]
        if "steps" in r:
            if focus(c, r):
                nfocus += 1
    # ---- (T)
    emitted = [(c, r) for c, r in zip(cases, res) if not c.get("witness") and "steps" in r and dynlib.emit_case(c, r) is not None]
    terms = [dynlib.emit_case(c, r) for c, r in emitted]
    bad = fw.run_coq_cases("C07", ["Dyn.Model", "Dyn.Tie"], CASE_TYPE, "tie_check", terms,
                           shard=30 if tier == "quick" else 120)
    for i in bad[:10]:
        c, r = emitted[i]
        show = fw.coq_show("C07", ["Dyn.Model", "Dyn.Tie"], "tie_show %s" % terms[i])
        out.tie_mismatches.append({"case": c, "impl": r, "detail": "Dyn/Model.v and the implementation disagree",
                                   "model": show[-3000:], "script": script_of(c)})
    for i in bad[10:]:
        out.tie_mismatches.append({"case": emitted[i][0], "detail": "Dyn/Model.v and the implementation disagree"})
    # ---- (P) through the proved specification function (Dyn.Tie.spec_check)
    sbad = fw.run_coq_cases("C07spec", ["Dyn.Model", "Dyn.Tie"], CASE_TYPE, "spec_check", terms,
                            shard=30 if tier == "quick" else 120)
    for i in sbad[:10]:
        c, r = emitted[i]
        show = fw.coq_show("C07spec", ["Dyn.Model", "Dyn.Tie"], "spec_show %s" % terms[i])
        out.p_failures.append({"case": c, "script": script_of(c),
                               "detail": "a value served by the implementation is not the specification value (Dyn.Model.spec_value) "
                                         "of the current definitions, or a returned key does not instantiate; per operation "
                                         "(spec value of evaluations, agrees?): " + " ".join(show.split())[-1800:],
                               "impl_outputs": [st["out"] for st in r["steps"]]})
    out.evaluations = len(cases)
    out.traces_validated = len(terms) - len(bad)
    out.distinct_nontrivial = nfocus
    out.rule = ("distinct after canonicalising (definitions, operations) as JSON; counted when a kept handle is evaluated "
                "after an edit of the definitions or one instance is requested through two spellings")
    out.samples = [{"defs": c["defs"], "ops": c["ops"]} for c in cases if not c.get("witness") and "defs" in c][:2]
    inh = [(c, r) for c, r in zip(cases, res) if c.get("inh") and not c.get("witness")]
    out.distribution = {"cases": len(cases), "witnesses": len(witnesses), "regressions": len(regress),
                        "differential_only_cases": sum(1 for c in cases if c.get("ponly")),
                        "inheritance_cases": {
                            "cases": len(inh),
                            "worlds_with": dict(inh_feat),
                            "edits": dict(inh_kinds),
                            "audits": sum(1 for c, _ in inh for o in c["ops"] if o["op"] == "audit") + len(inh),
                            "members_compared_with_the_fresh_model": sum(r.get("audited_members", 0) for _, r in inh),
                            "reads_through_kept_handles_after_an_edit": sum(reads_after_edit(c, r) for c, r in inh),
                            "avoided": dict(inh_avoided)},
                        "operations": dict(dist), "outputs": dict(outs),
                        "precautions_before_unpropagated_edits": precautions,
                        "edits_meeting_live_copies": dict(met)}
    out.notes.append("no recorded defect is avoided any more: D14 D15 D16 D18 D38 D39 D41/D41b and C03-D1/D2 are repaired in /repo and "
                     "generated (%d edits preceded by clear_items: 0 unless C07_PRECAUTION=1)" % precautions)
    out.notes.append("inheritance class: %d formula assignments below another definer (the former trigger of C03 D2) generated"
                     % inh_avoided["setformula_below_an_override_generated"])
    return out


def reads_after_edit(case, r):
    """evaluations / reference reads through a handle that was obtained BEFORE the latest edit and is still served
    (a value or the deleted-object error)"""
    n, last_edit, born = 0, -1, []
    for i, (o, st) in enumerate(zip(case["ops"], r.get("steps", []))):
        k = o["op"]
        if k in ("getitem", "child"):
            born.append(i)
        elif k in ("eval", "getref"):
            if o["h"] < len(born) and born[o["h"]] < last_edit and st["out"][0] in ("val", "deleted", "fail"):
                n += 1
        elif k not in ("takecells", "audit"):
            last_edit = i
    return n


def replay(data):
    case = data.get("case")
    if not case:
        print("no case in replay file"); return 2
    r = fw.run_driver("dyn", [case])[0]
    fails = oracle(case, r)
    for x in fails:
        print("P-FAIL:", x)
    t = dynlib.emit_case(case, r) if "steps" in r else None
    if t is not None:
        bad = fw.run_coq_cases("C07replay", ["Dyn.Model", "Dyn.Tie"], CASE_TYPE, "tie_check", [t])
        if bad:
            print("T-MISMATCH; model:", fw.coq_show("C07replay", ["Dyn.Model", "Dyn.Tie"], "tie_show %s" % t)[-3000:])
            print("impl:", json.dumps(r)[:3000])
        return 1 if (fails or bad) else 0
    return 1 if fails else 0
