"""C18 - an IOSpec lives exactly as long as a reference to its value.

(T) tie: random histories over two models x three spaces (new_pandas / new_module / assignment / deletion /
    update_pandas / update_module / add_bases / remove_bases / close / spec.sheet= / spec.path= / del_spec /
    del model.Space, with spaces and (scalar and non-scalar) cells created again later)
    are run on the real modelx
    (drivers/iospec.py) and on the Gallina model (IOSpec/Model.v, [check_case]); compared after every
    operation: outcome, the IO manager's specs, Model.iospecs, get_spec(value) for every value created so far,
    every (owner, name) -> value reference with its derived flag, and the _check_sanity() outcome.
(P) property oracle on the implementation's own observations: no orphan spec, iospecs = manager specs,
    a spec disappears only when no reference (defined or derived) holds its value, no shared location,
    sanity holds, a rejected creation changes nothing, a deleted space leaves no reference behind, and
    (pandas/openpyxl I/O, implementation only, never part of the proof) write_model -> read_model gives back
    equal values for every live spec.

Recorded defects of the pinned tree (generator avoids the trigger, witness in corpus/C18/finding_<key>.json,
line in findings.d/C18.txt).  Trigger predicates are evaluated on the Python mirror (iospec_mirror.Mirror.trigger):
  dup            new_pandas/new_module of a value that already has a spec in that model (D26)
  (rebind_same and stale_derived are repaired in /repo: their former triggers are generated again)
  update_bound   update_pandas(old, new) with new already referenced in the model
  sheet_none     spec.sheet = None in an excel file shared with other specs
  sheet_to_none  spec.sheet = None on a spec created with a sheet name (read_args keeps sheet_name=None)
  read_override  (round trip only) two spaces define one name and share a sub space: read_model fails
  abspath        an absolute path: not in the generated vocabulary at all
  (scalar, delspace and emptysheet are repaired in /repo and generated: creations onto the name of a scalar or
   non-scalar cells (rejected), del model.Space (operation DelSpace, also reached as delref of a model-level name
   that is a space), the sheet names '' (token 9: the default sheet, emitted as "no sheet name") and 'Sheet1'
   (token 8) in new_pandas and spec.sheet=)
Not defects, outside the vocabulary (filtered, counted): assign_scalar_cells (space.k = v on a scalar cells sets
the cells' value), del_cells, sheet_on_module, remove_breaks_mro, closed_model_op.
"""
import os, json, glob
import fw
from fw import Outcome
from iospec_mirror import Mirror

REQ = ["IOSpec.Model"]
TRUSTED = ["harness/drivers/iospec.py (drives modelx, tokenises object identities), harness/props/C18.py (emitter, (P) oracle); "
           "harness/iospec_mirror.py is NOT trusted (generation and trigger predicates only)"]
ASSUMPTIONS = [
    "derived references are recomputed from the inheritance graph in the model; the implementation keeps them incrementally "
    "(compared after every operation by the tie)",
    "names/paths/sheets/values are abstracted to numbers; value kinds (DataFrame/Series, module, other) are carried by the operation",
    "the empty sheet name '' is identified with no sheet name (both mean the default sheet): the emitter writes None for "
    "it in operations and in the observed spec.sheet; scalar and non-scalar cells are the same NewCells in the model "
    "(assignment to a scalar cells, which sets its value, is not generated)",
    "only top-level spaces are deleted (del model.S); child spaces are not in the vocabulary",
    "file I/O of pandas/openpyxl/importlib (write_model/read_model round trip) is checked on the implementation only",
    "generated histories avoid the recorded defects' triggers (abspath, read_override) and never touch a closed model",
]
SP_NAMES = [10, 11, 12]
GL_NAMES = [30, 31]
PANDAS_PATH = {0: "csv", 1: "csv", 2: "excel", 3: "excel"}
MOD_PATHS = [4, 5]

# --------------------------------------------------------------------------
# generation
# --------------------------------------------------------------------------


def gen_case(rng, tier, filtered):
    mir = Mirror()
    kinds = {1: "df", 2: "df", 3: "df", 4: "df", 5: "series", 6: "series", 7: "plain", 8: "plain"}
    vk_of = lambda t: "module" if t >= 50 else ("plain" if kinds.get(t) == "plain" else "pandas")
    ops = []
    nmodels = 2 if rng.random() < 0.6 else 1
    nspaces = {0: 3, 1: rng.choice([1, 2, 3])}
    for m in range(nmodels):
        for s in range(nspaces[m]):
            ops.append({"op": "newspace", "m": m, "s": s})
        for s in range(nspaces[m]):
            ops.append({"op": "newcells", "m": m, "s": s, "n": 20})
        for s in range(nspaces[m]):
            if rng.random() < 0.3:
                ops.append({"op": "newscalarcells", "m": m, "s": s, "n": 21})
    for o in ops:
        assert mir.step(o)
    n_setup = len(ops)
    fresh_pd = [9]
    fresh_mod = [50]
    used = set()

    def open_model():
        return rng.choice([m for m in range(nmodels) if m not in mir.closed])

    def pick_space(m):
        here = mir.spaces_of(m)
        if here and rng.random() < 0.9:
            return rng.choice(here)
        return rng.randrange(nspaces[m])       # possibly a deleted one: the operation must be refused

    def pick_owner():
        m = open_model()
        s = None if rng.random() < 0.2 else pick_space(m)
        return m, s

    def pick_name(s):
        r = rng.random()
        if s is None:
            return 0 if r < 0.06 else rng.choice(GL_NAMES)
        if r < 0.05:
            return 20
        if r < 0.09:
            return rng.choice([1000, 1001])
        if r < 0.14:
            return 21
        return rng.choice(SP_NAMES[:2] if r < 0.7 else SP_NAMES)

    def live_values(m):
        return sorted({v for (mm, v) in mir.tab if mm == m})

    def propose():
        r = rng.random()
        if r < 0.06:
            # the spaces themselves: del model.S (with everything in it), a space or a cells created again
            m = open_model()
            q = rng.random()
            if q < 0.5:
                owners = sorted({x["own"][1] for x in mir.refs if x["own"][0] == m and x["own"][1] is not None})
                if owners and rng.random() < 0.6:
                    return {"op": "delspace", "m": m, "s": rng.choice(owners)}
                return {"op": "delspace", "m": m, "s": rng.randrange(nspaces[m])}
            if q < 0.75:
                gone = [x for x in range(nspaces[m]) if (m, x) not in mir.spaces]
                return {"op": "newspace", "m": m, "s": rng.choice(gone) if gone and rng.random() < 0.9 else rng.randrange(nspaces[m])}
            return {"op": rng.choice(["newcells", "newscalarcells", "newscalarcells"]), "m": m, "s": pick_space(m),
                    "n": rng.choice([20, 21, 21, 21, 12])}
        r = (r - 0.06) / 0.94
        if r < 0.09:
            m = open_model()
            sv = sorted({sp["val"] for io in mir.ios if io["grp"] == m for sp in io["specs"]})
            lv = live_values(m)
            if sv and rng.random() < 0.9:
                v = rng.choice(sv)
            elif lv:
                v = rng.choice(lv)
            else:
                return None
            q = rng.random()
            if q < 0.45:
                sp = mir.get_spec(m, v)
                taken = [c["sheet"] for c in mir.io_of(sp["id"])["specs"] if c["id"] != sp["id"]] if sp else []
                if taken and rng.random() < 0.5:
                    return {"op": "setsheet", "m": m, "v": v, "sh": rng.choice(taken)}     # clash: must be refused
                return {"op": "setsheet", "m": m, "v": v, "sh": rng.choice([1, 2, 3, 1, 2, 3, None, None, 8, 9])}
            if q < 0.8:
                return {"op": "setpath", "m": m, "v": v, "p": rng.randrange(6)}
            if v >= 50:
                return None      # a module object without a spec cannot be saved (pickle): not generated
            return {"op": "delspec", "m": m, "v": v}
        r = (r - 0.09) / 0.91
        if r < 0.30:
            m, s = pick_owner()
            p = rng.choice([0, 1, 2, 2, 3, 3]) if rng.random() < 0.95 else rng.choice(MOD_PATHS)
            ft = PANDAS_PATH.get(p, "csv")
            q = rng.random()
            if q < 0.05:
                ft = "csv" if ft == "excel" else "excel"
            elif q < 0.08:
                ft = "bad"
            sh = None
            if ft == "excel" or PANDAS_PATH.get(p) == "excel":
                sh = rng.choice([1, 2, 3, 1, 2, None] if rng.random() < 0.8 else [8, 9, 9])
            cand = [t for t in range(1, 7) if not mir.get_spec(m, t)] or list(range(1, 7))
            v = rng.choice(cand) if rng.random() < 0.93 else rng.choice([7, 8])
            return {"op": "newpandas", "m": m, "s": s, "n": pick_name(s), "p": p, "ft": ft, "sh": sh,
                    "v": v, "vk": vk_of(v)}
        if r < 0.38:
            m, s = pick_owner()
            v = fresh_mod[0]
            p = rng.choice(MOD_PATHS) if rng.random() < 0.92 else rng.choice([0, 2])
            return {"op": "newmodule", "m": m, "s": s, "n": pick_name(s), "p": p, "v": v,
                    "src_ok": rng.random() < 0.92}
        if r < 0.56:
            m, s = pick_owner()
            lv = live_values(m)
            if lv and rng.random() < 0.7:
                v = rng.choice(lv)
            else:
                v = rng.choice(list(range(1, 9)) + sorted(used))
            if v >= 50 and not mir.get_spec(m, v):
                return None      # a module object without a spec cannot be saved (pickle): not generated
            return {"op": "assign", "m": m, "s": s, "n": pick_name(s), "v": v}
        if r < 0.73:
            m = open_model()
            mine = [x for x in mir.refs if x["own"][0] == m]
            if mine and rng.random() < 0.8:
                x = rng.choice(mine)
                return {"op": "delref", "m": m, "s": x["own"][1], "n": x["name"]}
            m, s = pick_owner()
            n = pick_name(s)
            return {"op": "delref", "m": m, "s": s, "n": n if n not in (20, 21) else 10}
        if r < 0.83:
            m = open_model()
            lv = live_values(m)
            if not lv:
                return None
            spec_d = [v for v in lv if mir.get_spec(m, v)]
            old = rng.choice(spec_d) if spec_d and rng.random() < 0.7 else rng.choice(lv)
            if old >= 50 and rng.random() < 0.85:
                return {"op": "update", "m": m, "old": old, "new": fresh_mod[0], "vk": "module", "module": True}
            q = rng.random()
            if q < 0.2:
                new = old if old < 50 else fresh_pd[0]
            elif q < 0.27:
                new = rng.choice([7, 8])
            elif q < 0.35:
                new = rng.choice(range(1, 7))
            else:
                new = fresh_pd[0]
            return {"op": "update", "m": m, "old": old, "new": new, "vk": vk_of(new), "module": False}
        if r < 0.92:
            m = open_model()
            s, b = pick_space(m), pick_space(m)
            return {"op": "addbase", "m": m, "s": s, "b": b}
        if r < 0.985:
            m = open_model()
            edges = [(k[1], b) for k, bs in mir.bases.items() if k[0] == m for b in bs]
            if edges and rng.random() < 0.85:
                s, b = rng.choice(edges)
            else:
                s, b = rng.randrange(nspaces[m]), rng.randrange(nspaces[m])
            return {"op": "removebase", "m": m, "s": s, "b": b}
        return {"op": "close", "m": open_model()}

    n_ops = rng.randint(10, 22) if tier == "quick" else rng.randint(10, 32)
    tries = 0
    accepted = 0
    while len(ops) < n_ops + n_setup and tries < 400:
        tries += 1
        if len(mir.closed) == nmodels:
            break
        o = propose()
        if o is None:
            continue
        t = mir.trigger(o)
        if t:
            filtered[t] = filtered.get(t, 0) + 1
            continue
        ok = mir.step(o)
        accepted += ok
        ops.append(o)
        if o["op"] == "newmodule" or (o["op"] == "update" and o.get("module")):
            fresh_mod[0] += 1
        if o["op"] == "update" and o["new"] == fresh_pd[0]:
            kinds[fresh_pd[0]] = "df" if fresh_pd[0] % 2 else "series"
            fresh_pd[0] += 1
        for key in ("v", "new"):
            if key in o and (ok or o[key] < 50):
                used.add(o[key])
    case = {"ops": ops, "kinds": {str(k): v for k, v in kinds.items()}, "rt_ok": not has_override(mir)}
    return case, mir


def has_override(mir):
    """two spaces define the same reference name and a strict sub space of one is the other or one of its
    sub spaces: read_model re-creates references one by one on the finished inheritance graph and
    SpaceManager.new_ref then refuses the later one (recorded defect read_override), so no round trip"""
    for r1 in mir.refs:
        m, b1 = r1["own"]
        if b1 is None or m in mir.closed:
            continue
        d1 = set(mir.descendants(mir.bases, m, b1))
        for r2 in mir.refs:
            if r2 is r1 or r2["own"][0] != m or r2["own"][1] is None or r2["name"] != r1["name"]:
                continue
            b2 = r2["own"][1]
            if d1 & (set(mir.descendants(mir.bases, m, b2)) | {b2}):
                return True
    return False


# --------------------------------------------------------------------------
# Coq emission
# --------------------------------------------------------------------------
KIND = {"csv": "KCsv", "excel": "KExcel", "module": "KModule", "bad": "KBad"}
FT = {"csv": "FCsv", "excel": "FExcel", "bad": "FBad"}
VK = {"pandas": "VPandas", "module": "VModule", "plain": "VPlain"}


def num(x):
    return str(x) if isinstance(x, int) and 0 <= x < 10 ** 9 else "999"


def optn(x):
    return "None" if x is None else "(Some %s)" % num(x)


def sheet(x):
    """the empty sheet name (token 9, '') is the default sheet: no sheet name"""
    return optn(None if x in (9, "") else x)


def owner(o):
    return "(%s, %s)" % (num(o["m"]), optn(o["s"]))


def op_term(o):
    k = o["op"]
    if k == "newspace":
        return "NewSpace %s %s" % (num(o["m"]), num(o["s"]))
    if k in ("newcells", "newscalarcells"):        # a creation is refused on the name of either kind of cells
        return "NewCells %s %s %s" % (num(o["m"]), num(o["s"]), num(o["n"]))
    if k == "delspace":
        return "DelSpace %s %s" % (num(o["m"]), num(o["s"]))
    if k == "newpandas":
        return "NewPandas %s %s %s %s %s %s %s" % (owner(o), num(o["n"]), num(o["p"]), FT[o["ft"]], sheet(o["sh"]),
                                                  num(o["v"]), VK[o["vk"]])
    if k == "newmodule":
        return "NewModule %s %s %s %s %s" % (owner(o), num(o["n"]), num(o["p"]), num(o["v"]),
                                            "true" if o["src_ok"] else "false")
    if k == "assign":
        return "Assign %s %s %s" % (owner(o), num(o["n"]), num(o["v"]))
    if k == "delref":
        return "DelRef %s %s" % (owner(o), num(o["n"]))
    if k == "update":
        return "Update %s %s %s %s" % (num(o["m"]), num(o["old"]), num(o["new"]), VK[o["vk"]])
    if k == "addbase":
        return "AddBase %s %s %s" % (num(o["m"]), num(o["s"]), num(o["b"]))
    if k == "removebase":
        return "RemoveBase %s %s %s" % (num(o["m"]), num(o["s"]), num(o["b"]))
    if k == "close":
        return "Close %s" % num(o["m"])
    if k == "setsheet":
        return "SetSheet %s %s %s" % (num(o["m"]), num(o["v"]), sheet(o["sh"]))
    if k == "setpath":
        return "SetPath %s %s %s" % (num(o["m"]), num(o["v"]), num(o["p"]))
    if k == "delspec":
        return "DelSpec %s %s" % (num(o["m"]), num(o["v"]))
    raise ValueError(k)


def sv_term(v):
    return "(%s, %s, %s, %s, %s)" % (num(v[0]), num(v[1]), KIND.get(v[2], "KBad"), sheet(v[3]), num(v[4]))


def obs_term(ob):
    return "mkObs %s %s %s %s %s %s" % (
        "ROk" if ob["out"] == "ok" else "RErr",
        fw.clist([sv_term(v) for v in ob["mgr"]]),
        fw.clist([sv_term(v) for v in ob["api"]]),
        fw.clist(["(%s, %s)" % (num(a), num(b)) for a, b in ob["gs"]]),
        fw.clist(["(%s, %s, %s, %s, %s)" % (num(r[0]), optn(r[1]), num(r[2]), num(r[3]), "true" if r[4] else "false")
                  for r in ob["refs"]]),
        "true" if ob["sane"] is True else "false")


def case_term(case, res):
    return fw.clist(["(%s, %s)" % (op_term(o), obs_term(ob)) for o, ob in zip(case["ops"], res["obs"])])


# --------------------------------------------------------------------------
# (P) the property evaluated on the implementation's observations
# --------------------------------------------------------------------------
def loc(v):
    m, p, k, sh, _ = v
    if k == "excel":
        return (m, p, "Sheet1" if sh in (None, 8, 9, "", "Sheet1") else sh)
    return (m, p, None)


def oracle(case, res):
    """list of (step index, text) of property failures on the implementation"""
    bad = []
    closed = set()
    prev = {"mgr": [], "api": [], "refs": [], "gs": []}
    for k, (o, ob) in enumerate(zip(case["ops"], res["obs"])):
        if o["op"] == "close" and ob["out"] == "ok":
            closed.add(o["m"])
        mgr, refs = ob["mgr"], ob["refs"]
        for v in mgr:
            if v[0] in closed:
                bad.append((k, "spec %r of a closed model is still registered" % (v,)))
            elif not any((r[0] == v[0] or v[0] == 99) and r[3] == v[4] and not r[4] for r in refs):
                bad.append((k, "orphan spec %r: no reference of model %s holds its value" % (v, v[0])))
        if sorted(map(repr, ob["api"])) != sorted(repr(v) for v in mgr if v[0] not in closed) and \
                not any(v[0] == 99 for v in mgr):
            bad.append((k, "Model.iospecs %r differs from the IO manager's specs %r" % (ob["api"], mgr)))
        if sorted(map(tuple, ob["gs"])) != sorted({(v[0], v[4]) for v in mgr if v[0] not in closed}) and \
                not any(v[0] == 99 for v in mgr):
            bad.append((k, "get_spec succeeds for %r but the manager holds %r" % (ob["gs"], mgr)))
        locs = [loc(v) for v in mgr]
        if len(set(locs)) != len(locs):
            bad.append((k, "two specs claim one file location: %r" % (mgr,)))
        if ob["sane"] is not True:
            bad.append((k, "_check_sanity fails: %r" % (ob["sane"],)))
        if ob.get("crash"):
            bad.append((k, "observing the model raised: %r" % (ob["crash"],)))
        # persistence: a spec may go only when no reference holds its value any more
        # (specs are identified by (model, value): sheet and path may be changed by their setters)
        for v in prev["mgr"]:
            if v[0] in closed:
                continue
            val = v[4]
            moved = o["op"] == "update" and ob["out"] == "ok" and o["m"] == v[0] and o["old"] == val
            if moved:
                val = o["new"]
            now = [w for w in mgr if w[0] == v[0] and w[4] == val]
            if moved:
                if not now or now[0][1:4] != v[1:4]:
                    bad.append((k, "update_pandas/module did not carry spec %r over to the new value" % (v,)))
                continue
            if o["op"] == "delspec" and ob["out"] == "ok" and (o["m"], o["v"]) == (v[0], val):
                if now:
                    bad.append((k, "del_spec left the spec %r" % (v,)))
                continue
            if not now and any((r[0] == v[0] or v[0] == 99) and r[3] == val for r in refs):
                bad.append((k, "spec %r was deleted although its value is still referenced: %r" % (v, refs)))
            if now and o["op"] not in ("setsheet", "setpath") and now[0][1:4] != v[1:4]:
                bad.append((k, "spec %r changed its file location without being asked: %r" % (v, now[0])))
        if o["op"] in ("setsheet", "setpath", "delspec") and ob["out"] == "err":
            for part in ("mgr", "api", "refs"):
                if ob[part] != prev[part]:
                    bad.append((k, "rejected %s changed %s: %r -> %r" % (o["op"], part, prev[part], ob[part])))
        if o["op"] == "delspace" and ob["out"] == "ok":
            left = [r for r in refs if r[0] == o["m"] and r[1] == o["s"]]
            if left:
                bad.append((k, "the deleted space left references behind: %r" % (left,)))
        if o["op"] in ("newpandas", "newmodule"):
            if ob["out"] == "err":
                for part in ("mgr", "api", "refs"):
                    if ob[part] != prev[part]:
                        bad.append((k, "rejected creation changed %s: %r -> %r" % (part, prev[part], ob[part])))
            else:
                if not any(v[0] in (o["m"], 99) and v[4] == o["v"] for v in mgr):
                    bad.append((k, "successful creation left no spec for the value"))
                if not any(r[0] == o["m"] and r[1] == o["s"] and r[2] == o["n"] and r[3] == o["v"] for r in refs):
                    bad.append((k, "successful creation left no reference %r" % ((o["m"], o["s"], o["n"]),)))
        prev = ob
    if res.get("close_exc"):
        bad.append((len(case["ops"]) - 1, "closing the models after the history raised %s" % res["close_exc"]))
    for rt in res.get("rt") or []:
        for e in rt["rep"]:
            if not e["ok"]:
                bad.append((rt["after"], "write_model/read_model round trip: %s" % "; ".join(e["detail"])[:600]))
    return bad


def script_of(case, upto=None):
    """stand-alone reproducer (plain modelx calls)"""
    from iospec_names import NAMES, PATHS, SHEETS
    L = ["import modelx as mx, pandas as pd, os, tempfile",
         "d = tempfile.mkdtemp()",
         "for k in range(4): open(os.path.join(d, 'modsrc%d.py' % k), 'w').write('K = %d\\n' % k)",
         "V = {}", "M = {}",
         "def val(t, kind):",
         "    if t not in V:",
         "        V[t] = (pd.DataFrame({'a': [t, t + 1], 'b': [1.5, float(t)]}) if kind == 'df' else",
         "                pd.Series([t, 2 * t, 7], name='s%d' % t) if kind == 'series' else [t])",
         "    return V[t]",
         "def step(f):",
         "    try: f(); print('ok')",
         "    except Exception as e: print('raised', type(e).__name__, e)"]
    kinds = case.get("kinds", {})
    ops = case["ops"] if upto is None else case["ops"][:upto + 1]
    made = set()
    for o in ops:
        k = o["op"]
        mod = "M[%d]" % o["m"]
        own = mod if o.get("s") is None else "%s.spaces[%r]" % (mod, NAMES[o["s"]])
        kd = lambda t: kinds.get(str(t), "df")
        if k == "newspace":
            if o["m"] not in made:
                made.add(o["m"])
                L.append("M[%d] = mx.new_model('M%d')" % (o["m"], o["m"]))
            L.append("%s.new_space(%r)" % (mod, NAMES[o["s"]]))
        elif k in ("newcells", "newscalarcells"):
            L.append("%s.new_cells(%r, formula='lambda%s: 1')" % (own, NAMES[o["n"]], " i" if k == "newcells" else ""))
        elif k == "newpandas":
            L.append("step(lambda: %s.new_pandas(%r, %r, val(%d, %r), file_type=%r, sheet=%r))" % (
                own, NAMES[o["n"]], o.get("abspath") or PATHS[o["p"]], o["v"], kd(o["v"]),
                {"bad": "txt"}.get(o["ft"], o["ft"]), None if o["sh"] is None else SHEETS[o["sh"]]))
        elif k == "newmodule":
            L.append("step(lambda: V.__setitem__(%d, %s.new_module(%r, %r, os.path.join(d, %r))))" % (
                o["v"], own, NAMES[o["n"]], PATHS[o["p"]], "modsrc%d.py" % (o["v"] % 4) if o["src_ok"] else "missing.py"))
        elif k == "assign":
            L.append("step(lambda: setattr(%s, %r, val(%d, %r)))" % (own, NAMES[o["n"]], o["v"], kd(o["v"])))
        elif k == "delref":
            L.append("step(lambda: delattr(%s, %r))" % (own, NAMES[o["n"]]))
        elif k == "update":
            if o.get("module"):
                L.append("step(lambda: %s.update_module(V[%d], os.path.join(d, 'modsrc%d.py')))" % (mod, o["old"], o["new"] % 4))
            elif o["new"] == o["old"]:
                L.append("step(lambda: %s.update_pandas(val(%d, %r)))" % (mod, o["old"], kd(o["old"])))
            else:
                L.append("step(lambda: %s.update_pandas(val(%d, %r), val(%d, %r)))" % (mod, o["old"], kd(o["old"]), o["new"], kd(o["new"])))
        elif k in ("addbase", "removebase"):
            L.append("step(lambda: %s.%s(%s.spaces[%r]))" % (own, "add_bases" if k == "addbase" else "remove_bases", mod, NAMES[o["b"]]))
        elif k == "close":
            L.append("step(lambda: %s.close())" % mod)
        elif k == "setsheet":
            L.append("step(lambda: setattr(%s.get_spec(V[%d]), 'sheet', %r))" % (mod, o["v"], None if o["sh"] is None else SHEETS[o["sh"]]))
        elif k == "setpath":
            L.append("step(lambda: setattr(%s.get_spec(V[%d]), 'path', %r))" % (mod, o["v"], PATHS[o["p"]]))
        elif k == "delspec":
            L.append("step(lambda: %s.del_spec(V[%d]))" % (mod, o["v"]))
        elif k == "delspace":
            L.append("step(lambda: delattr(%s, %r))" % (mod, NAMES[o["s"]]))
    L.append("for i, m in M.items(): print(i, m.iospecs)")
    L.append("print({k: [(str(s.path), getattr(s, 'sheet', None)) for s in io.specs.values()] for k, io in mx.core.mxsys.iomanager.ios.items()})")
    L.append("mx.core.mxsys._check_sanity()")
    return "\n".join(L)


# --------------------------------------------------------------------------
# run
# --------------------------------------------------------------------------
CORPUS = os.path.join(fw.VERIF, "corpus", "C18")


def load_corpus():
    wit, plain = [], []
    for p in sorted(glob.glob(os.path.join(CORPUS, "*.json"))):
        d = json.load(open(p))
        d["_file"] = os.path.basename(p)
        (wit if os.path.basename(p).startswith("finding_") else plain).append(d)
    return wit, plain


def nontrivial(case, res):
    """exercises the focus: at some point a spec'd value is held by >= 2 references or a spec is deleted
    because its last reference went away, or a creation is rejected"""
    multi = gone = rej = False
    prev = []
    for o, ob in zip(case["ops"], res["obs"]):
        for v in ob["mgr"]:
            if sum(1 for r in ob["refs"] if r[0] == v[0] and r[3] == v[4]) >= 2:
                multi = True
        if len(ob["mgr"]) < len(prev) and o["op"] != "close":
            gone = True
        if o["op"] in ("newpandas", "newmodule") and ob["out"] == "err":
            rej = True
        prev = ob["mgr"]
    return multi or gone, (multi, gone, rej)


def run(tier, seed, rng):
    out = Outcome()
    n = 150 if tier == "quick" else 2000
    witnesses, corpus = load_corpus()
    filtered = {}
    cases = [dict(c) for c in corpus]
    while len(cases) < n + len(corpus):
        c, _ = gen_case(rng, tier, filtered)
        cases.append(c)
    # save/load round trip: after the last operation of every 3rd case (quick) / every case (thorough)
    skipped_rt = 0
    for i, c in enumerate(cases):
        if tier != "quick" or i % 3 == 0:
            if c.get("rt_ok", True):
                c["roundtrip_at"] = [len(c["ops"]) - 1]
            else:
                skipped_rt += 1
    filtered["roundtrip_skipped_read_override"] = skipped_rt
    allc = cases + [{"ops": w["ops"], "kinds": w.get("kinds", {}), "roundtrip_at": w.get("roundtrip_at")} for w in witnesses]
    res = fw.run_driver("iospec", allc, chunk=max(4, (len(allc) + fw.JOBS - 1) // fw.JOBS))
    for c, r in zip(allc, res):
        if "crash" in r:
            raise fw.Broken("iospec driver crashed on %r:\n%s" % (c["ops"][:6], r["crash"]))
    wres = res[len(cases):]
    res = res[:len(cases)]

    # (T)
    terms = [case_term(c, r) for c, r in zip(cases, res)]
    bad = fw.run_coq_cases("C18", REQ, "list (op * obs)", "check_case", terms, shard=60,
                           extra_defs="Open Scope N_scope.")
    # (P)
    pf = {}
    for i, (c, r) in enumerate(zip(cases, res)):
        b = oracle(c, r)
        if b:
            pf[i] = b
    for j, i in enumerate(bad):
        out.tie_mismatches.append({"case": cases[i]["ops"], "kinds": cases[i].get("kinds", {}),
                                   "impl": res[i]["obs"][-3:],
                                   "detail": "IOSpec/Model.v and the implementation disagree (first differing step: %s)"
                                             % (first_diff(cases[i], res[i]) if j < 2 else "not searched")})
    for i, b in sorted(pf.items())[:10]:
        k, text = b[0]
        out.p_failures.append({"case": cases[i]["ops"][:k + 1], "detail": "step %d (%r): %s" % (k, cases[i]["ops"][k], text),
                               "script": script_of(cases[i], k), "kinds": cases[i].get("kinds", {})})
    # witnesses of the recorded defects
    for w, r in zip(witnesses, wres):
        b = oracle({"ops": w["ops"]}, r)
        fw.witness_result(out, "C18", w["key"], bool(b), w["text"],
                          {"case": w["ops"], "kinds": w.get("kinds", {}), "script": script_of(w), "observed": (b[0][1] if b else "")})
        if not b:
            out.notes.append("witness %s no longer fails on the implementation" % w["key"])

    out.evaluations = len(cases)
    out.traces_validated = len(cases) - len(bad)
    seen = set()
    stats = {"multi_ref": 0, "spec_died": 0, "rejected_creation": 0, "space_deleted": 0, "spec_died_with_space": 0,
             "creation_onto_cells": 0, "creation_onto_scalar_cells": 0, "empty_sheet_ops": 0, "empty_sheet_refused": 0}
    for c, r in zip(cases, res):
        nt, (mu, go, rj) = nontrivial(c, r)
        stats["multi_ref"] += mu; stats["spec_died"] += go; stats["rejected_creation"] += rj
        pm, sc, live = [], set(), set()
        for o, ob in zip(c["ops"], r["obs"]):
            ok = ob["out"] == "ok"
            if o["op"] == "newspace" and ok:
                live.add((o["m"], o["s"]))
            if o["op"] == "newscalarcells" and ok:
                sc.add((o["m"], o["s"]))
            gone = (o["m"], o["s"]) if o["op"] == "delspace" else \
                (o["m"], o["n"]) if o["op"] == "delref" and o["s"] is None else None
            if gone in live and ok:
                live.discard(gone)
                sc.discard(gone)
                stats["space_deleted"] += 1
                stats["spec_died_with_space"] += len(ob["mgr"]) < len(pm)
            if o["op"] in ("newpandas", "newmodule") and o["n"] in (20, 21) and ob["out"] == "err":
                stats["creation_onto_cells"] += 1
                stats["creation_onto_scalar_cells"] += o["n"] == 21 and (o["m"], o["s"]) in sc
            if o.get("sh") == 9:
                stats["empty_sheet_ops"] += 1
                stats["empty_sheet_refused"] += ob["out"] == "err"
            pm = ob["mgr"]
        if nt:
            seen.add(json.dumps(c["ops"], sort_keys=True))
    out.distinct_nontrivial = len(seen)
    out.rule = ("random histories (setup: 1-2 models, 1-3 spaces, one non-scalar cells per space, a scalar cells in some; "
                "then 10-22 operations, thorough 10-32, among them deleting and re-creating spaces and cells) drawn with a Python mirror of the model so that most operations are accepted; "
                "non-trivial = at some point a spec'd value is held by >= 2 references or a spec dies with its last "
                "reference; distinct by the operation list")
    kinds = {}
    outs = {"ok": 0, "err": 0}
    for c, r in zip(cases, res):
        for o, ob in zip(c["ops"], r["obs"]):
            key = "%s:%s" % (o["op"], ob["out"])
            kinds[key] = kinds.get(key, 0) + 1
            outs[ob["out"]] += 1
    kinds = dict(sorted(kinds.items()))
    out.distribution = {"cases": len(cases), "corpus": len(corpus), "witnesses": len(witnesses), "ops": kinds,
                        "outcomes": outs, "focus": stats, "filtered_by_trigger": filtered,
                        "roundtrips": sum(len(r.get("rt") or []) for r in res)}
    out.samples = [c["ops"] for c in cases[len(corpus):len(corpus) + 2]]
    out.notes += [
        "delspace, scalar and emptysheet are repaired in /repo and generated (distribution.focus: space_deleted, "
        "spec_died_with_space, creation_onto_cells, creation_onto_scalar_cells, empty_sheet_ops, empty_sheet_refused); "
        "stored regression histories: corpus/C18/{delspace_tree,creation_onto_cells,empty_sheet,cells_in_base_of_cells}.json",
        "generator avoids the triggers of the recorded defects (counts in distribution.filtered_by_trigger); "
        "model-level and space-level name pools are disjoint; only relative paths; operations on a closed model "
        "are not generated (the code keeps a closed model fully operational)",
        "the clause 'on saving every live spec's value is written to its file and read back equal' is pandas/openpyxl "
        "I/O: covered only by the (P) oracle on the implementation (write_model to build/C18tmp, read_model, "
        "DataFrame/Series.equals, module source text), never by the Coq theorems",
        "D19 (update_value passes refmode through *refmode, model.py:1988-1994): the rebinding references get the "
        "1-tuple (mode,) as refmode; no IOSpec observable changes, so C18 neither avoids nor reports it",
    ]
    return out


def first_diff(case, res):
    """index of the first operation after which model and implementation differ (one coqc run per prefix, binary search)"""
    lo, hi = 0, len(case["ops"])
    try:
        while lo < hi:
            mid = (lo + hi) // 2
            sub = {"ops": case["ops"][:mid + 1]}
            t = case_term(sub, {"obs": res["obs"][:mid + 1]})
            b = fw.run_coq_cases("C18diff", REQ, "list (op * obs)", "check_case", [t], extra_defs="Open Scope N_scope.")
            if b:
                hi = mid
            else:
                lo = mid + 1
        return "%d %r impl=%r" % (lo, case["ops"][lo] if lo < len(case["ops"]) else None,
                                  {k: res["obs"][lo][k] for k in ("out", "exc", "mgr", "api", "refs", "sane")} if lo < len(res["obs"]) else None)
    except Exception as e:
        return "?(%s)" % e


def replay(data):
    case = {"ops": data["case"], "kinds": data.get("kinds", {})}
    r = fw.run_driver("iospec", [case])[0]
    b = oracle(case, r)
    for k, t in b:
        print("step", k, case["ops"][k], t)
    print(data.get("script", ""))
    return 1 if b else 0
