"""C13 Deletion is complete: old handles raise, no value computed from it survives.

Suite (driver alive.py, model Alive/Model.v): random histories over models with
nested spaces, inheritance (derived cells), parametrised spaces (ItemSpaces and
their dynamic members) and cells that call sibling cells or cells of other
spaces through model-level references.  Handles are taken at random points
(Take / GetItem / results of New*), deletions go through every route (del of a
cells, of a space tree, of a model-level reference, remove_bases, removal of a
base member, clear_items / del S[k] / parameter-formula change) and every
handle ever taken is probed after every operation.

(T) the same operation list is run by [Alive.Model.step]; compared inside Coq:
    the answer of every operation, the alive bit of every handle after every
    operation, and at check points (after each deleting operation and at the
    end) the containers / bases / ancestors of every live space handle, the
    stored values with their precedents of every live cells handle, identity
    between handles, and the node set of model.tracegraph.
(P) on the implementation alone (driver p_check): a dead handle raises
    DeletedObjectError on every accessor; a live handle has only live
    containers above it and is held by its parent's container; a live derived
    cells has a definer; a live dynamic copy has a live source; no container,
    base list, preds/succs listing or trace-graph node mentions a deleted
    object; every value still held equals what a fresh model computes that
    replayed the edits only (differential).

NESTED class ((P) only, NOT tied to the model; generator harness/alivenest.py, driver drivers/alivenest.py; 140 cases
quick / 1500 thorough from a generator seeded after the model-tied cases were drawn, so those are unchanged):
parametric spaces nested in parametric spaces (P[i].C[j], P[i].T.C[j], P[i].C[j].D[k]) whose parameter formulas
call cells (Src.a(), Src.b() -> a()) and read references (attribute path S.k -> reference graph, name g), so that
the ItemSpaces are nodes with precedents and one edit of a precedent discards ItemSpaces of several depths in one
clear batch (processed in a set iteration order: every case builds 3-6 root ItemSpaces with 2-4 nested ones each,
so detection does not depend on one draw of object ids).  Alive/Model.v cannot express this (its ItemSpaces have
no precedents and live in static spaces only).  Oracle: the generator's mirror lists after every edit the handles
that MUST be dead (inside / copied from what was deleted; ItemSpaces - and everything in them - whose parameter
formula read what was deleted, redefined, assigned, cleared); p_check on all handles; deep_audit (also run on the
model-tied cases now): everything reachable through cells / named_spaces / param_spaces is valid, every live handle
is reachable, no entry of _dynamic_subs, no node of model.tracegraph or of the reference graph belongs to something
unreachable or deleted; rebuild audit: every live handle exists in a fresh model that replayed the edits only and
shows the same values / references / members there.  corpus/C13/nested_*.json: directed cases of this class.

Known defects of the pinned tree (KNOWN_FINDINGS.txt; witnesses corpus/C13/finding_*.json, all replayed
through (P) on every run).  Repaired in /repo and no longer avoided: D14 and C13b (9ebab50), C13c (76f1b96);
their witnesses must pass now - a failure is a (P) failure.  Repair a66156d (every re-inheritance pass
discards the ItemSpaces of the spaces it visits, whether or not their lazy namespace had been evaluated)
is mirrored in Alive/Model.v (inherit_roots) and made the former avoidance 'stale_ns' unnecessary: the
members of a space may now change through inheritance while ItemSpaces hold copies of it
(corpus/C13/reinherit_*.json: directed cases, (T) and (P)).
The generator (on-line, in the driver: deletion_triggers) evaluates the trigger predicates on the
live model and does not draw the operation (counted in distribution):
  C13a  deleting a space one of whose *child* spaces is a base of another space
  C13e  deleting a space that has a sub space inside its own tree (KeyError half-way, stale graph)
  D3    remove_bases / del space when a sub space inherits along two routes (IndexError half-way)
  D22/D21 (values through an attribute path; repaired in /repo), D23 (rename) are outside the model-tied generator's vocabulary: witnesses only.
corpus/C13/input_*.json: input values (outside the model's vocabulary) of deleted cells, (P) only.
corpus/C13/reinherit_*.json: re-inheritance over spaces without cells / with unchanged members, (T) and (P).
Operations refused for lack of a C3 order are dropped (counted: no_mro)."""
import os, json, glob, random, collections
import fw
import alivenest
from fw import cnat, cz, cbool, cstr, clist, ctuple, copt, Outcome

EXTRA_MODS = ["Alive.Check"]
REQ = ["Alive.Model", "Alive.Check"]
TRUSTED = ["C3 linearisation is not modelled in this layer: the existence of a derived cells depends on the set of "
           "ancestors only; operations the library refuses for lack of a C3 order are dropped by the generator",
           "the formula of a cells is a function of its name (one table per case), so the choice among several definers is not observable"]
ASSUMPTIONS = ["vocabulary: spaces, cells (cached, one parameter, formulas: constant / sibling call / call through a model-level "
               "reference), ItemSpaces of static spaces, model-level references to spaces; no renaming, no input values, "
               "no uncached cells, no space-level references",
               "known-defect triggers C13a C13e D3 avoided by the generator (see module docstring)",
               "NewCells of a name that a sub space derives from another base is not drawn (which definer wins is decided by the C3 order, not modelled)",
               "nested class (ItemSpaces inside ItemSpaces, parameter formulas with precedents, value assignment, formula "
               "change, clear_all, space-level and attribute-path references): judged by the (P) oracle only (must-die list of "
               "the generator's mirror = a lower bound, reachability audit of the implementation's containers and graphs, "
               "rebuild differential); no Coq model covers it; re-use of the interface object when the same ItemSpace is "
               "built again (dynamic_cache) is taken as intended; C07-D38 not generated"]
CORPUS = os.path.join(fw.VERIF, "corpus", "C13")

PROFILES = {
    "mixed": {"NewSpace": 14, "NewCells": 16, "Take": 12, "GetItem": 8, "DelAttr": 12, "AddBases": 6, "RemoveBases": 4,
              "SetParams": 2, "ClearItems": 2, "DelItem": 2, "Eval": 18, "BindGlobal": 3},
    "inherit": {"NewSpace": 16, "NewCells": 18, "Take": 14, "GetItem": 2, "DelAttr": 14, "AddBases": 10, "RemoveBases": 8,
                "SetParams": 1, "ClearItems": 0, "DelItem": 0, "Eval": 14, "BindGlobal": 2},
    "items": {"NewSpace": 12, "NewCells": 12, "Take": 16, "GetItem": 16, "DelAttr": 10, "AddBases": 3, "RemoveBases": 2,
              "SetParams": 4, "ClearItems": 4, "DelItem": 4, "Eval": 16, "BindGlobal": 2},
    "values": {"NewSpace": 10, "NewCells": 18, "Take": 8, "GetItem": 4, "DelAttr": 12, "AddBases": 4, "RemoveBases": 3,
               "SetParams": 1, "ClearItems": 1, "DelItem": 1, "Eval": 30, "BindGlobal": 6},
}
CELL_NAMES = ["c0", "c1", "c2", "c3"]
GLOBAL_NAMES = ["g0", "g1"]


def gen_ftab(rng):
    """formulas by cells name; c_i only calls c_j with j < i (no recursion whatever the names resolve to)"""
    ft = [["c0", ["const", rng.randint(1, 9)]]]
    for i in range(1, len(CELL_NAMES)):
        r = rng.random()
        j = rng.randrange(i)
        if r < 0.3:
            f = ["const", rng.randint(1, 9) * 10]
        elif r < 0.7:
            f = ["sib", CELL_NAMES[j]]
        else:
            f = ["dot", rng.choice(GLOBAL_NAMES), CELL_NAMES[j]]
        ft.append([CELL_NAMES[i], f])
    return ft


def gen_cases(rng, tier):
    n = 1500 if tier == "quick" else 16000
    cases = []
    profs = list(PROFILES)
    for i in range(n):
        p = profs[i % len(profs)]
        cases.append({"ftab": gen_ftab(rng), "ops": None, "full": "del", "avoid": True,
                      "gen": {"seed": rng.randrange(1 << 30), "n": rng.choice([12, 18, 25, 35]),
                              "profile": PROFILES[p]}, "profile": p})
    return cases


def two_definers_cases(rng, n):
    """directed (P)-only scenario (seeded/C13_r3): a space X with parameters inherits a cells of ONE name from two bases
    A and B whose definitions DIFFER (B's is created by a Py operation, so the case is outside the vocabulary of
    Alive/Model.v, where a formula is a function of the cells name); handles to an ItemSpace X[k], to its copy of the
    cells and to a value computed there; then X loses A's definition (del A.c, X.remove_bases(A), del M.A, or A.c is
    redefined) and re-derives the cells from B.  The old handles must be dead, or at least show nothing of A's definition
    (p_check copy-of-deleted, the edits-only differential on the held values)."""
    cases = []
    for _ in range(n):
        nm = rng.choice(CELL_NAMES)
        va, vb = rng.sample(range(100, 999), 2)
        ft = [[c, ["const", va if c == nm else rng.randint(1, 9)]] for c in CELL_NAMES]
        ops = [["NewSpace", 0, "S0", [], False],                       # H1 = A
               ["NewSpace", 0, "S1", [], False],                       # H2 = B
               ["NewCells", 1, nm],                                    # H3 = A.c
               ["Py", "H.append(H[2].new_cells(%r, formula='lambda x: %d'))" % (nm, vb)]]   # H4 = B.c
        nested = rng.random() < 0.3
        if nested:
            ops += [["NewSpace", 0, "S2", [], True],                   # H5 = outer space with parameters
                    ["NewSpace", 5, "S3", [1, 2], rng.random() < 0.5]]  # H6 = X (child of H5)
            ops += [["GetItem", 5, rng.randint(0, 2)], ["Take", 7, "S3"]]          # H7 = H5[k], H8 = its copy of X
            x = 8
        else:
            ops += [["NewSpace", 0, "S2", [1, 2], True]]               # H5 = X
            ops += [["GetItem", 5, rng.randint(0, 2)]]                 # H6 = X[k]
            x = 6
        ops += [["Take", x, nm]]                                       # the copy of the cells
        ops += [["Eval", x + 1, rng.randint(0, 3)]]
        if rng.random() < 0.4:
            ops += [["NewCells", 2 if rng.random() < 0.5 else 1, rng.choice([c for c in CELL_NAMES if c != nm])]]
        xs = 6 if nested else 5
        trig = rng.choice(["delcells", "removebases", "delspace", "redefine"])
        if trig == "delcells":
            ops += [["DelAttr", 1, nm]]
        elif trig == "removebases":
            ops += [["RemoveBases", xs, [1]]]
        elif trig == "delspace":
            ops += [["DelAttr", 0, "S0"]]
        else:
            ops += [["Py", "H[3].set_formula('lambda x: %d')" % rng.randint(1000, 1999)]]
        ops += [["Take", xs, nm], ["Eval", len([o for o in ops if o[0] in ("NewSpace", "NewCells", "GetItem", "Take") or (o[0] == "Py" and "H.append" in o[1])]) + 1, 1]]
        cases.append({"ftab": ft, "ops": ops, "full": "del", "avoid": False, "gen": None, "profile": "two-definers"})
    return cases


def tainted_builder_cases(rng, n):
    """directed (P)-only scenario (seeded/C13_r5): an ItemSpace (and a cells in it) created for the first time by a
    formula that has ALREADY caught the failure of another cells (its frame is tainted: its own value is not kept).
    Handles are taken from outside afterwards; then the ItemSpace is discarded (del S[k], clear_items, new parameter
    formula, del M.S): every handle must die and S must list nothing of it."""
    cases = []
    for _ in range(n):
        k = rng.randint(0, 3)
        ft = [[c, ["const", rng.randint(1, 9)]] for c in CELL_NAMES]
        ops = [["NewSpace", 0, "S0", [], True],                        # H1 = S (parameters)
               ["NewCells", 1, "c0"],                                  # H2 = S.c0
               ["NewSpace", 0, "S1", [], False],                       # H3 = T
               ["Py", "H[3].S = H[1]\nH[3].new_cells('bad', formula='def bad():\\n    raise ValueError(1)')\n"
                      "H[3].new_cells('c', formula='def c(x):\\n    try:\\n        bad()\\n    except ValueError:\\n        pass\\n    return S[x].c0(x)')\n"
                      "H.append(H[3].cells['c'])"],                    # H4 = T.c
               ["Eval", 4, k],                                         # builds S[k] under the tainted frame of T.c(k)
               ["GetItem", 1, k],                                      # H5 = S[k], from outside
               ["Take", 5, "c0"]]                                      # H6 = S[k].c0
        trig = rng.choice(["delitem", "clearitems", "setparams", "delspace"])
        if trig == "delitem":
            ops += [["DelItem", 1, k]]
        elif trig == "clearitems":
            ops += [["ClearItems", 1]]
        elif trig == "setparams":
            ops += [["SetParams", 1, True]]
        else:
            ops += [["DelAttr", 0, "S0"]]
        ops += [["Py", "import modelx as _mx\nfrom modelx.core.errors import DeletedObjectError as _D\n"
                       "for _h in (H[5], H[6]):\n    try:\n        _h.name\n        raise AssertionError('a handle into the discarded ItemSpace still works: %r' % _h)\n    except _D:\n        pass\n"]]
        cases.append({"ftab": ft, "ops": ops, "full": "del", "avoid": False, "gen": None, "profile": "tainted-builder"})
    return cases


# --------------------------------------------------------------------------
# emitting Coq terms
# --------------------------------------------------------------------------
def c_formula(f):
    if f[0] == "const":
        return "(FConst %s)" % cz(f[1])
    if f[0] == "sib":
        return "(FSib %s)" % cstr(f[1])
    return "(FDot %s %s)" % (cstr(f[1]), cstr(f[2]))


def lnat(l):
    return clist([cnat(x) for x in l])


def c_op(op):
    k = op[0]
    if k == "NewSpace":
        return "(NewSpace %s %s %s %s)" % (cnat(op[1]), cstr(op[2]), lnat(op[3]), cbool(op[4]))
    if k in ("NewCells", "Take", "DelAttr"):
        return "(%s %s %s)" % (k, cnat(op[1]), cstr(op[2]))
    if k in ("GetItem", "DelItem", "Eval"):
        return "(%s %s %s)" % (k, cnat(op[1]), cz(op[2]))
    if k in ("AddBases", "RemoveBases"):
        return "(%s %s %s)" % (k, cnat(op[1]), lnat(op[2]))
    if k == "SetParams":
        return "(SetParams %s %s)" % (cnat(op[1]), cbool(op[2]))
    if k == "ClearItems":
        return "(ClearItems %s)" % cnat(op[1])
    if k == "BindGlobal":
        return "(BindGlobal %s %s)" % (cstr(op[1]), cnat(op[2]))
    raise ValueError(op)


def c_out(o):
    return {"done": "ODone", "deleted": "ODeleted", "formula": "OFormulaErr", "rejected": "ORejected"}.get(o[0]) \
        or "(OVal %s)" % cz(o[1])


def c_path(p):
    return clist(["(CK %s)" % cz(c[1]) if c[0] == "k" else "(CN %s)" % cstr(c[1]) for c in p])


def c_node(n):
    return ctuple([c_path(n[0]), cz(n[1])])


def c_hobs(h):
    if h[0] == "dead":
        return "HDead"
    if h[0] == "space":
        return "(HSpace %s %s %s %s %s %s %s)" % (
            c_path(h[1]), clist([cstr(x) for x in h[2]]), clist([cstr(x) for x in h[3]]), clist([cz(x) for x in h[4]]),
            clist([c_path(x) for x in h[5]]), clist([c_path(x) for x in h[6]]), cbool(h[7]))
    return "(HCells %s %s %s)" % (c_path(h[1]), cbool(h[2]),
                                  clist([ctuple([cz(v[0]), cz(v[1]), clist([c_node(x) for x in v[2]])]) for v in h[3]]))


def c_full(f):
    if f is None:
        return "None"
    return "(Some (mkFull %s %s %s))" % (clist([c_hobs(h) for h in f["handles"]]), lnat(f["ident"]),
                                         clist([c_node(n) for n in f["nodes"]]))


def coq_term(ftab, r):
    ft = clist([ctuple([cstr(n), c_formula(f)]) for n, f in ftab])
    steps = clist([ctuple([c_op(op), c_out(s["out"]), clist([cbool(b) for b in s["alive"]]), c_full(s["full"])])
                   for op, s in zip(r["ops"], r["steps"])])
    return ctuple([ft, steps])


def in_vocabulary(r):
    return all(op[0] != "Py" for op in r["ops"])


def script_for(case, r):
    c = dict(case, ops=r["ops"], gen=None)
    return ("# stand-alone reproducer: PYTHONPATH=<modelx repo> python this.py   (needs /verif/harness/drivers/alive.py)\n"
            "import json, subprocess, sys\ncase = json.loads(%r)\n"
            "p = subprocess.run([sys.executable, '/verif/harness/drivers/alive.py'], input=json.dumps([case]), text=True, capture_output=True)\n"
            "r = json.loads([l for l in p.stdout.splitlines() if l.startswith('@@RESULT ')][0][9:])[0]\n"
            "print(json.dumps(r['pfail'], indent=1))\n" % json.dumps(c))


def script_for_nested(case):
    c = {"nested": True, "ops": case["ops"]}
    return ("# stand-alone reproducer: PYTHONPATH=<modelx repo> python this.py   (needs /verif/harness/drivers/alivenest.py + alive.py)\n"
            "import json, subprocess, sys\ncase = json.loads(%r)\n"
            "p = subprocess.run([sys.executable, '/verif/harness/drivers/alivenest.py'], input=json.dumps([case]), text=True, capture_output=True)\n"
            "r = json.loads([l for l in p.stdout.splitlines() if l.startswith('@@RESULT ')][0][9:])[0]\n"
            "print(json.dumps(r['pfail'], indent=1))\n" % json.dumps(c))


def nested_detail(r):
    def show(op):
        return {k: v for k, v in op.items() if k != "dead"}
    return "; ".join("%s at step %d (%s): %s" % (f["kind"], f["step"], show(r["ops"][f["step"]]) if f["step"] < len(r["ops"]) else "?",
                                                 f["detail"]) for f in r["pfail"][:4])


def load_corpus():
    ws, cs = [], []
    for p in sorted(glob.glob(os.path.join(CORPUS, "*.json"))):
        d = json.load(open(p))
        (ws if os.path.basename(p).startswith("finding_") else cs).append((os.path.basename(p), d))
    return ws, cs


def focus(r):
    """the history deletes something while handles into the deleted part are held"""
    seen_dead = False
    for op, s in zip(r["ops"], r["steps"]):
        if op[0] in ("DelAttr", "RemoveBases", "ClearItems", "DelItem", "SetParams", "BindGlobal") and s["out"] == ["done"]:
            if sum(1 for b in s["alive"] if not b) >= 2:
                seen_dead = True
    return seen_dead


def run(tier, seed, rng):
    out = Outcome()
    out.rule = ("random histories of 12-35 operations (4 profiles: mixed / inherit / items / values) drawn on-line against the live "
                "model: new spaces (nested, with bases, with parameters), new cells (4 names, formulas constant / sibling call / "
                "call through a model-level reference), handles taken to cells, derived copies, child spaces, ItemSpaces and their "
                "members, evaluation, deletion of cells / space trees / model-level references, add_bases / remove_bases, "
                "clear_items / del S[k] / parameter change, ~8% operations through dead handles. non-trivial = an accepted deleting "
                "operation after which at least two held handles are dead; distinct by the operation list.  NESTED class ((P) only): "
                "worlds Src{a,b,k} / g / P[i].[T.]C[j][.D[k]] with parameter formulas reading S.a() S.b() S.k g, 3-6 root x 2-4 nested "
                "ItemSpaces, 2-4 rounds of one edit (del / redefine / assign / clear a precedent cells, change / del a reference, "
                "del / clear ItemSpaces at either depth, del of C T P Src or a level's cells, new member in a copied space, new "
                "parameter formula of P) + rebuild of some ItemSpaces; non-trivial = an edit killed a held nested ItemSpace")
    witnesses, corpus = load_corpus()
    ncorpus = [(name, d) for name, d in corpus if d["case"].get("nested")]
    corpus = [(name, d) for name, d in corpus if not d["case"].get("nested")]
    cases = [dict(d["case"], profile="corpus:" + name) for name, d in corpus] + gen_cases(rng, tier)
    cases += two_definers_cases(random.Random(rng.getrandbits(64)), 60 if tier == "quick" else 600)
    cases += tainted_builder_cases(random.Random(rng.getrandbits(64)), 24 if tier == "quick" else 200)
    # nested class ((P) only): its own generator, seeded after the model-tied cases were drawn
    rng_n = random.Random(rng.getrandbits(64))
    ncases = [dict(d["case"], profile="corpus:" + name) for name, d in ncorpus] + \
             [alivenest.gen_case(rng_n) for _ in range(140 if tier == "quick" else 1500)]
    nres = fw.run_driver("alivenest", ncases, chunk=10 if tier == "quick" else 30)
    for c, r in zip(ncases, nres):
        if r["pfail"]:
            out.p_failures.append({"case": {"nested": True, "ops": c["ops"]}, "detail": nested_detail(r),
                                   "kinds": sorted({f["kind"] for f in r["pfail"]}), "script": script_for_nested(c)})
    allc = cases + [d["case"] for _, d in witnesses]
    res = fw.run_driver("alive", allc)
    wres = res[len(cases):]
    res = res[:len(cases)]

    # ---- (P)
    for c, r in zip(cases, res):
        if r["pfail"]:
            kinds = sorted({f["kind"] for f in r["pfail"]})
            out.p_failures.append({"case": dict(c, ops=r["ops"], gen=None), "detail": "; ".join(
                "%s at step %d (%s): %s" % (f["kind"], f["step"], r["ops"][f["step"]] if f["step"] < len(r["ops"]) else "?", f["detail"])
                for f in r["pfail"][:4]), "kinds": kinds, "script": script_for(c, r)})
    # ---- (T)
    idx = [i for i, r in enumerate(res) if in_vocabulary(r) and r["ops"]]
    terms = [coq_term(cases[i]["ftab"], res[i]) for i in idx]
    bad = fw.run_coq_cases("C13", REQ, "case", "check_case", terms, shard=40 if tier == "quick" else 100)
    for j in bad[:20]:
        i = idx[j]
        tm = {"case": dict(cases[i], ops=res[i]["ops"], gen=None),
              "detail": "Alive/Model.v and the implementation disagree (operation answers / alive bits / containers / values / trace graph)"}
        if len(out.tie_mismatches) < 3:
            tm["model_first_disagreement"] = fw.coq_show("C13_%d" % j, REQ, "first_bad (init (fst c)) (snd c) 0",
                                                         extra_defs="Definition c : case := %s." % terms[j])[-3000:]
            tm["impl_steps"] = [{"op": op, "out": s["out"], "exc": s["exc"], "alive": s["alive"]}
                                for op, s in zip(res[i]["ops"], res[i]["steps"])]
        out.tie_mismatches.append(tm)
    out.evaluations = len(cases) + len(ncases)
    out.traces_validated = len(idx) - len(bad)
    out.distinct_nontrivial = len({json.dumps(r["ops"]) for r in res if focus(r)}) + \
        len({json.dumps(r["ops"]) for r in nres if r["stats"]["nested_deaths"]})
    out.samples = [{"ftab": c["ftab"], "ops": r["ops"]} for c, r in list(zip(cases, res))[:2]]

    # ---- witnesses of recorded defects: replayed through the (P) oracle
    for (name, d), r in zip(witnesses, wres):
        kinds = {f["kind"] for f in r["pfail"]}
        fails = bool(kinds & set(d.get("expect_kinds", []))) if d.get("expect_kinds") else bool(kinds)
        fw.witness_result(out, "C13", d["key"], fails, d["text"],
                          {"case": d["case"], "impl": r["pfail"], "script": script_for(d["case"], r)})
        if not fails:
            out.notes.append("witness %s passes (defect repaired in /repo or no longer reproducible)" % name)

    filt, opk, outs, nops, compared = {}, {}, {}, 0, 0
    for r in res:
        for k, v in r["filtered"].items():
            filt[k] = filt.get(k, 0) + v
        for op, s in zip(r["ops"], r["steps"]):
            opk[op[0]] = opk.get(op[0], 0) + 1
            outs[s["out"][0]] = outs.get(s["out"][0], 0) + 1
            nops += 1
        compared += r["diff"]["compared"]
    profs = {}
    for c in cases:
        p = c.get("profile", "?").split(":")[0]
        profs[p] = profs.get(p, 0) + 1
    out.distribution = {"profiles": profs, "operations": opk, "answers": outs, "operations_total": nops,
                        "operations_not_drawn_because_of_known_defect_triggers": filt,
                        "handles_probed": sum(len(r["steps"][-1]["alive"]) for r in res if r["steps"]),
                        "dead_handles_at_end": sum(sum(1 for b in r["steps"][-1]["alive"] if not b) for r in res if r["steps"]),
                        "values_compared_with_edit_only_replay": compared}
    out.notes.append("known-defect triggers avoided by the generator (operation not drawn): %s" % json.dumps(filt, sort_keys=True))
    # nested class
    nfeat, nedits, navoid, nitems, nouts = (collections.Counter() for _ in range(5))
    tot = collections.Counter()
    for c, r in zip(ncases, nres):
        nfeat.update({k.split(":")[0] + ":" + k.split(":")[1] if k.startswith(("structure", "src")) else k: v
                      for k, v in c.get("features", {}).items() if not k.startswith("pf:")})
        nedits.update(c.get("edits", []))
        navoid.update(c.get("avoided", {}))
        nitems.update({"depth_%s" % k: v for k, v in r["stats"]["items_built"].items()})
        nouts.update(s["out"][0] for s in r["steps"])
        tot["one_batch_edits"] += c.get("one_batch_edits", 0)
        for k in ("nested_deaths", "edits_killing_nested", "must_die_checked", "compared", "audits", "full_checks"):
            tot[k] += r["stats"][k]
        tot["handles"] += len(r["labels"])
        tot["cases_with_a_nested_ItemSpace_discarded"] += 1 if r["stats"]["nested_deaths"] else 0
    out.distribution["nested_class_P_only"] = {
        "cases": len(ncases), "corpus_cases": len(ncorpus), "worlds_with": dict(nfeat), "edits": dict(nedits),
        "ItemSpaces_built_by_nesting_depth": dict(nitems),
        "nested_ItemSpaces_built(depth>=2)": sum(v for k, v in nitems.items() if k != "depth_1"),
        "nested_ItemSpace_handles_killed_by_an_edit": tot["nested_deaths"],
        "edits_that_killed_a_nested_ItemSpace": tot["edits_killing_nested"],
        "edits_clearing_an_ItemSpace_and_one_nested_in_it_in_one_batch(mirror)": tot["one_batch_edits"],
        "cases_with_a_nested_ItemSpace_discarded": tot["cases_with_a_nested_ItemSpace_discarded"],
        "must_die_handles_checked": tot["must_die_checked"], "full_oracle_sweeps": tot["full_checks"],
        "rebuild_audits": tot["audits"], "members_compared_with_the_fresh_model": tot["compared"],
        "handles_kept": tot["handles"], "answers": dict(nouts), "not_generated": dict(navoid)}
    out.notes.append("nested class (ItemSpaces inside ItemSpaces with precedents): %d cases, (P) only - outside Alive/Model.v; "
                     "not generated: %s" % (len(ncases), json.dumps(dict(navoid), sort_keys=True)))
    if ncases:
        out.samples.append({"nested": True, "ops": [{k: v for k, v in op.items() if k != "dead"} for op in ncases[-1]["ops"][:14]] + ["..."]})
    return out


def replay(data):
    case = data["case"]
    if case.get("nested"):
        r = fw.run_driver("alivenest", [case])[0]
        print(json.dumps({"pfail": r["pfail"]}, indent=1))
        return 1 if r["pfail"] else 0
    r = fw.run_driver("alive", [case])[0]
    print(json.dumps({"ops": r["ops"], "pfail": r["pfail"]}, indent=1))
    return 1 if r["pfail"] else 0
