"""C16 Memory-optimised runs give the direct results and keep only the targets.

Suite: random DAG-shaped models on the real library (driver plan.py):
generate_actions + execute_actions, compared with Plan/Model.v (T) and checked
against the property itself (P).

Known defect D25 (DESIGN section 9; model.py:593-615): an element the targets
depend on that already holds a *calculated* value when generate_actions is
called is neither planned nor cleared.  Trigger predicate (decidable on the
case): some element of the dependency closure of the targets (stopping at
inputs) is in the closure of "precalc".  The generator drops "precalc" from
such cases (counted in distribution.filtered_D25); the witness
corpus/C16/finding_D25.json is replayed through the (P) oracle on every run."""
import os, json, glob, itertools
import fw
from fw import cnat, cz, clist, ctuple, Outcome

EXTRA_MODS = ["Plan.Tie"]
TRUSTED = ["networkx.topological_sort is not modelled: the order it returned is read off the calc actions, "
           "checked (check_order, in Coq) to be a topological permutation of the traced nodes and given to the model as input",
           "values: Plan/Values.v (same executor with a value next to every flag; formulas = arbitrary functions of the "
           "values of the calls); its flag part is proved equal to Plan/Model.v, its values are compared with the implementation"]
ASSUMPTIONS = ["cells are cached and every formula calls all its precedents unconditionally (static dependency DAG)",
               "no element the targets depend on holds a calculated value when generate_actions is called (D25)"]

KIND = {"calc": 0, "paste": 1, "clear": 2}
CODE = {None: 0, "i": 1, "c": 2}
CORPUS = os.path.join(fw.VERIF, "corpus", "C16")


# --------------------------------------------------------------------------
# generator
# --------------------------------------------------------------------------
def gen_graph(rng, n, shape):
    """preds over ids 0..n-1; ids are a random relabelling of a topological rank"""
    rank = list(range(n))
    rng.shuffle(rank)                 # rank[k] = id of the element at topological position k
    preds = {i: [] for i in range(n)}
    for k in range(1, n):
        e = rank[k]
        lower = rank[:k]
        if shape == "chain":
            ps = [rank[k - 1]] + ([rng.choice(lower)] if rng.random() < 0.3 else [])
        elif shape == "tree":
            ps = [rank[(k - 1) // 2]]
        elif shape == "fan":          # few sources used by everybody far away
            ps = [rank[0]] + ([rank[k - 1]] if rng.random() < 0.6 else []) + \
                 ([rng.choice(lower)] if rng.random() < 0.4 else [])
        elif shape == "layers":
            w = max(2, n // 4)
            lo = max(0, (k // w - 1) * w)
            cand = rank[lo:(k // w) * w] or lower
            ps = rng.sample(cand, min(len(cand), rng.randint(1, 3)))
        elif shape == "sparse":
            ps = rng.sample(lower, min(len(lower), rng.choice([0, 0, 1, 1, 2])))
        else:                         # dense random
            ps = rng.sample(lower, min(len(lower), rng.randint(0, 4)))
        seen = []
        for p in ps:
            if p not in seen:
                seen.append(p)
        rng.shuffle(seen)
        preds[e] = seen
    return preds


def closure_up(preds, start, stop_at=()):
    """start nodes (not in stop_at) and everything they call, transitively, not entering stop_at"""
    out, todo = set(), [s for s in start if s not in stop_at]
    while todo:
        x = todo.pop()
        if x in out:
            continue
        out.add(x)
        todo += [p for p in preds[x] if p not in stop_at and p not in out]
    return out


def make_case(rng, n, shape, targets=None, step=None, allow_inputs=True):
    preds = gen_graph(rng, n, shape)
    # distribute the elements over cells: scalar cells or cells with one parameter
    cells, elems = [], [None] * n
    ids = list(range(n))
    rng.shuffle(ids)
    two_spaces = rng.random() < 0.4
    while ids:
        ci = len(cells)
        sp = "B" if two_spaces and rng.random() < 0.5 else "A"
        if rng.random() < 0.45 or len(ids) == 1:
            cells.append({"name": "c%d" % ci, "space": sp, "param": False})
            e = ids.pop()
            elems[e] = {"cell": ci, "arg": None, "preds": preds[e], "base": rng.randint(1, 50)}
        else:
            k = min(len(ids), rng.randint(1, 5))
            cells.append({"name": "c%d" % ci, "space": sp, "param": True})
            args = rng.sample(range(0, 7), k)
            for a in args:
                e = ids.pop()
                elems[e] = {"cell": ci, "arg": a, "preds": preds[e], "base": rng.randint(1, 50)}
    inputs = []
    if allow_inputs and rng.random() < 0.35:
        for e in rng.sample(range(n), rng.randint(1, min(3, n))):
            inputs.append([e, 1000 * (e + 1) + rng.randint(0, 99)])
    inp = {e for e, _ in inputs}
    if targets is None:
        r = rng.random()
        if r < 0.5:
            k = 1
        elif r < 0.85:
            k = rng.randint(2, min(4, n))
        else:
            k = rng.randint(1, n)
        # prefer targets with many precedents (weight = size of the dependency closure)
        w = [1 + 3 * len(closure_up(preds, [e], inp)) for e in range(n)]
        targets = []
        while len(targets) < k:
            t = rng.choices(range(n), weights=w)[0]
            if t not in targets:
                targets.append(t)
        if rng.random() < 0.05:
            targets = targets + [targets[0]]      # a repeated target
    if step is None:
        d = max(1, len(closure_up(preds, targets, inp)))
        r = rng.random()
        if r < 0.55:
            step = rng.randint(1, max(1, d // 2))
        elif r < 0.8:
            step = rng.randint(max(1, d // 2), d)
        else:
            step = rng.randint(d, n + 2)
    case = {"cells": cells, "elems": elems, "inputs": inputs, "precalc": [], "targets": list(targets),
            "step": step, "shape": shape}
    if not inputs and rng.random() < 0.3:
        case["second_round"] = True
    if rng.random() < 0.08 and not inputs:
        # (P)-only: one element fails; mostly one the targets need
        dep = sorted(closure_up(preds, targets, set()))
        case["raises"] = rng.choice(dep) if dep and rng.random() < 0.8 else rng.randrange(n)
        return case
    if rng.random() < 0.35:
        # held None values: some elements sum to 0 and hold None (model.allow_none = True), read as 0 by their callers
        case["nones"] = True
        for e in elems:
            if rng.random() < 0.5:
                e["base"] = 0
    return case


def big_case(rng):
    """directed (P)-only case (seeded/C16_r5: the trace of ONE target is cut at 10000 records): a plan with more than
    5000 elements under one target - a 10-ary adder tree over 5400 leaves"""
    cells, elems = [], []
    level = []
    nleaf = 5400
    for k in range(6):
        cells.append({"name": "c%d" % k, "space": "A", "param": True})
        for a in range(nleaf // 6):
            level.append(len(elems))
            elems.append({"cell": k, "arg": a, "preds": [], "base": rng.randint(1, 9)})
    ci = 6
    while len(level) > 1:
        cells.append({"name": "c%d" % ci, "space": "A", "param": True})
        nxt = []
        for a, i in enumerate(range(0, len(level), 10)):
            nxt.append(len(elems))
            elems.append({"cell": ci, "arg": a, "preds": level[i:i + 10], "base": rng.randint(1, 9)})
        level = nxt
        ci += 1
    return {"cells": cells, "elems": elems, "inputs": [], "precalc": [], "targets": [level[0]],
            "step": rng.choice([700, 1000, 2500]), "shape": "big", "kind": "big", "ponly": True}


def add_precalc(rng, case, stats):
    """calculated values that exist before generate_actions; only kept when unrelated to the targets (D25)"""
    if case.get("raises") is not None:
        return          # evaluating the failing element beforehand would fail in the harness, not in the plan
    n = len(case["elems"])
    preds = {i: e["preds"] for i, e in enumerate(case["elems"])}
    inp = {e for e, _ in case["inputs"]}
    dep = closure_up(preds, case["targets"], inp)
    pc = [e for e in rng.sample(range(n), rng.randint(1, min(3, n))) if e not in inp]
    if pc and dep & closure_up(preds, pc, inp):
        stats["filtered_D25"] += 1          # the D25 trigger: dropped, replaced by an unrelated choice if there is one
        cand = [e for e in range(n) if e not in inp and not (dep & closure_up(preds, [e], inp))]
        pc = rng.sample(cand, min(len(cand), rng.randint(1, 2))) if cand else []
    if pc:
        case["precalc"] = pc
        stats["with_unrelated_precalc"] += 1


SHAPES = ["chain", "tree", "fan", "layers", "sparse", "dense"]


def gen_cases(rng, tier, stats):
    cases = []
    # exhaustive part: small models, every non-empty target subset, every step size 1..n+2
    small = [(3, 2), (4, 1)] if tier == "quick" else [(3, 6), (4, 5), (5, 2)]
    for n, reps in small:
        for _ in range(reps):
            shape = rng.choice(SHAPES)
            base = make_case(rng, n, shape, targets=[0], step=1, allow_inputs=rng.random() < 0.3)
            for k in range(1, n + 1):
                for tg in itertools.combinations(range(n), k):
                    for step in range(1, n + 3):
                        c = json.loads(json.dumps(base))
                        c["targets"], c["step"] = list(tg), step
                        c["kind"] = "exhaustive"
                        cases.append(c)
    stats["exhaustive_small"] = len(cases)
    nrand = 500 if tier == "quick" else 6000
    for _ in range(nrand):
        n = rng.choice([3, 4, 5, 6, 7, 8, 9, 10, 12, 14, 16, 18, 20, 22, 25])
        c = make_case(rng, n, rng.choice(SHAPES))
        if rng.random() < 0.2:
            add_precalc(rng, c, stats)
        c["kind"] = "random"
        cases.append(c)
    cases.append(big_case(rng))
    # one model, all step sizes 1..n+2 for a fixed target (block-boundary sweep)
    for _ in range(3 if tier == "quick" else 40):
        n = rng.randint(6, 14)
        base = make_case(rng, n, rng.choice(SHAPES))
        for step in range(1, n + 3):
            c = json.loads(json.dumps(base))
            c["step"] = step
            c["kind"] = "stepsweep"
            cases.append(c)
    return cases


# --------------------------------------------------------------------------
# property oracle on the implementation's own outputs
# --------------------------------------------------------------------------
def script_for(case):
    return ("# stand-alone reproducer: PYTHONPATH=<modelx repo>:/verif/harness/drivers python this.py\n"
            "import json, plan\ncase = json.loads(%r)\nr = plan.run_case(case)\nprint(json.dumps(r, indent=1))\n"
            "# then apply harness/props/C16.py:p_oracle(case, r)\n" % json.dumps(case))


def p_oracle(case, r):
    """list of violated clauses of C16 (empty = property holds on this run)"""
    bad = []
    n = len(case["elems"])
    preds = {i: e["preds"] for i, e in enumerate(case["elems"])}
    if case.get("raises") is not None:
        # (P)-only class: one element fails (after calling its precedents).  When a target needs it, generate_actions
        # raises and leaves the cache as it was; otherwise the case is an ordinary one
        inp0 = {e for e, x in enumerate(r["before"]["elems"]) if x is not None and x[0] == "i"}
        if case["raises"] in closure_up(preds, case["targets"], inp0):
            if not str(r.get("err", "")).startswith("generate:"):
                return ["a target needs the failing element %d, generate_actions did not raise: %r" % (case["raises"], r.get("err"))]
            if r["after_gen"] != r["before"]:
                return ["generate_actions failed and changed the cache: before=%r after=%r" % (r["before"]["elems"], r["after_gen"]["elems"])]
            return []
    if r.get("err"):
        return ["implementation raised: %s" % r["err"]]
    before, aftergen, final = r["before"]["elems"], r["after_gen"]["elems"], r["final"]["elems"]
    for sn in (r["before"], r["after_gen"], r["final"]):
        if sn["extra"]:
            bad.append("value at an element that does not exist: %r" % sn["extra"])
    inp = {e for e in range(n) if before[e] is not None and before[e][0] == "i"}
    tset = set(case["targets"])
    dep = closure_up(preds, case["targets"], inp)      # what the targets depend on (incl. the non-input targets)
    # generate_actions leaves no calculated values behind / restores the state
    if aftergen != before:
        bad.append("generate_actions changed the cache: before=%r after=%r" % (before, aftergen))
    if any(x is not None and x[0] == "c" and (e in dep or before[e] is None) for e, x in enumerate(aftergen)):
        bad.append("generate_actions left calculated values behind: %r" % aftergen)
    # every element the targets depend on is in exactly one calc step, after everything it depends on
    pos, flat = {}, []
    for k, (kind, ns) in enumerate(r["actions"]):
        if kind == "calc":
            for x in ns:
                flat.append(x)
    for i, x in enumerate(flat):
        if x in pos:
            bad.append("element %d is in more than one calc position" % x)
        pos[x] = i
    for x in dep:
        if x not in pos:
            bad.append("element %d (needed by the targets) is in no calc step" % x)
    for x in pos:
        if x not in dep:
            bad.append("element %d is calculated but no target depends on it" % x)
        for p in preds[x]:
            if p in dep and p in pos and pos[p] > pos[x]:
                bad.append("element %d is calculated before its precedent %d" % (x, p))
    # no formula is executed twice while the actions run
    dup = sorted({x for x in r["exec_log"] if r["exec_log"].count(x) > 1})
    if dup:
        bad.append("elements computed more than once during execute_actions: %r" % dup)
    # targets hold the directly evaluated values, nothing else is left
    direct = dict((t, v) for t, v in r["direct"])
    for t in tset:
        if final[t] is None:
            bad.append("target %d holds no value after the run" % t)
        elif final[t][1] != direct[t]:
            bad.append("target %d holds %r, direct evaluation gives %r" % (t, final[t][1], direct[t]))
    for e in range(n):
        if e in tset:
            continue
        if e in dep:
            if final[e] is not None:
                bad.append("element %d (not a target) still holds %r after the run" % (e, final[e]))
        elif final[e] != before[e]:
            bad.append("element %d unrelated to the targets changed: %r -> %r" % (e, before[e], final[e]))
        if final[e] is not None and final[e][0] == "c" and (e in dep or before[e] is None):
            bad.append("calculated value left behind at element %d" % e)
    if r.get("round2") is not None:
        r2 = dict(r["round2"], direct=r["direct"])
        c2 = {k: v for k, v in case.items() if k != "second_round"}
        bad += ["second round on the same model (target formulas assigned again): " + x for x in p_oracle(c2, r2)]
    return bad


# --------------------------------------------------------------------------
# emitting a case for Coq
# --------------------------------------------------------------------------
def lnat(l):
    return clist([cnat(x) for x in l])


def coq_term(case, r):
    n = len(case["elems"])
    g = clist([ctuple([cnat(i), lnat(e["preds"])]) for i, e in enumerate(case["elems"])])
    codes = clist([ctuple([cnat(i), cnat(CODE[None if x is None else x[0]])])
                   for i, x in enumerate(r["before"]["elems"]) if x is not None])
    acts = clist([ctuple([cnat(KIND[k]), lnat(ns)]) for k, ns in r["actions"]])
    aftergen = lnat([CODE[None if x is None else x[0]] for x in r["after_gen"]["elems"]])
    steps = clist([lnat([CODE[x] for x in s]) for s in r["steps"]])
    acts2 = clist([ctuple([cnat(KIND[k]), lnat(ns)]) for k, ns in r["actions2"]])
    final = lnat([CODE[None if x is None else x[0]] for x in r["final"]["elems"]])
    obs = ctuple([ctuple([acts, lnat(r["gen_log"]), aftergen, lnat(r["exec_log"]), final]),
                  ctuple([acts2, steps, lnat(r["steps_log"])])])
    return ctuple([g, codes, lnat(case["targets"]), cnat(case["step"]), obs])


def coq_vterm(case, r):
    """the valued executor on the implementation's own actions: final values and direct values"""
    def cv(x):
        return ctuple([cnat(CODE[None if x is None else x[0]]), cz(0 if x is None else x[1])])
    g = clist([ctuple([cnat(i), lnat(e["preds"])]) for i, e in enumerate(case["elems"])])
    init = clist([ctuple([cnat(i), cv(x)]) for i, x in enumerate(r["before"]["elems"]) if x is not None])
    bases = clist([ctuple([cnat(i), cz(e["base"])]) for i, e in enumerate(case["elems"])])
    acts = clist([ctuple([cnat(KIND[k]), lnat(ns)]) for k, ns in r["actions"]])
    final = clist([cv(x) for x in r["final"]["elems"]])
    direct = clist([ctuple([cnat(t), cz(v)]) for t, v in r["direct"]])
    return ctuple([g, init, bases, acts, final, direct])


CASE_TYPE = "tie_case"
REQ = ["Plan.Model", "Plan.Tie"]


def canon(case):
    return json.dumps({k: case[k] for k in ("cells", "elems", "inputs", "precalc", "targets", "step")}, sort_keys=True)


def nontrivial(case, r):
    """focus of the property: at least two blocks and a non-target element carried across a block boundary"""
    if r.get("err") or len(r["actions"]) < 6:
        return False
    tset = set(case["targets"])
    return any(k == "paste" and any(x not in tset for x in ns) for k, ns in r["actions"])


def load_corpus():
    ws, cs = [], []
    for p in sorted(glob.glob(os.path.join(CORPUS, "*.json"))):
        d = json.load(open(p))
        (ws if os.path.basename(p).startswith("finding_") else cs).append((os.path.basename(p), d))
    return ws, cs


def run(tier, seed, rng):
    out = Outcome()
    out.rule = ("random DAG-shaped models (3-25 elements over scalar and one-parameter cells in one or two spaces; shapes "
                "chain/tree/fan/layers/sparse/dense; optional inputs and unrelated pre-calculated values), random target "
                "sets and step sizes 1..n+2; all non-empty target subsets x all step sizes for 3-5 element models; "
                "step-size sweeps. non-trivial = the plan has >= 2 blocks and pastes a non-target element across a block "
                "boundary; distinct by the canonical JSON of the case")
    stats = {"filtered_D25": 0, "with_unrelated_precalc": 0}
    witnesses, corpus = load_corpus()
    cases = [dict(d["case"], kind="corpus:" + name) for name, d in corpus]
    cases += gen_cases(rng, tier, stats)
    res = fw.run_driver("plan", cases + [d["case"] for _, d in witnesses])
    wres = res[len(cases):]
    res = res[:len(cases)]

    # ---- (P)
    for c, r in zip(cases, res):
        bad = p_oracle(c, r)
        if bad:
            out.p_failures.append({"case": c, "impl": r, "detail": "; ".join(bad[:6]), "script": script_for(c)})
    # ---- (T)
    idx = [i for i, r in enumerate(res) if not r.get("err") and cases[i].get("raises") is None and not cases[i].get("ponly")]
    terms = [coq_term(cases[i], res[i]) for i in idx]
    vterms = [coq_vterm(cases[i], res[i]) for i in idx]
    from concurrent.futures import ThreadPoolExecutor
    with ThreadPoolExecutor(max_workers=2) as ex:
        f1 = ex.submit(fw.run_coq_cases, "C16", REQ, CASE_TYPE, "tie_check", terms, 120)
        f2 = ex.submit(fw.run_coq_cases, "C16v", REQ + ["Plan.Values"], "vtie_case", "vtie_check", vterms, 120)
        badidx, vbad = f1.result(), f2.result()
    for j in vbad[:20]:
        if j not in badidx:
            out.tie_mismatches.append({"case": cases[idx[j]], "impl": res[idx[j]],
                                       "detail": "Plan/Values.v and the implementation disagree on the values (final cache or direct evaluation)"})
    for j in badidx[:20]:
        i = idx[j]
        tm = {"case": cases[i], "impl": res[i],
              "detail": "Plan/Model.v and the implementation disagree (actions / logs / states after each action)"}
        if len(out.tie_mismatches) < 2:
            tm["model"] = fw.coq_show("C16", REQ, "tie_show %s" % terms[j])
        out.tie_mismatches.append(tm)
    nerr = sum(1 for r in res if r.get("err"))
    out.evaluations = len(cases)
    out.traces_validated = len(idx) - len(set(badidx) | set(vbad))
    out.distinct_nontrivial = len({canon(c) for c, r in zip(cases, res) if nontrivial(c, r)})
    out.samples = [{k: c[k] for k in ("cells", "elems", "inputs", "precalc", "targets", "step")} for c in cases[:1] + cases[-2:]]
    # ---- witnesses of recorded defects
    for (name, d), r in zip(witnesses, wres):
        bad = p_oracle(d["case"], r)
        fw.witness_result(out, "C16", d["key"], bool(bad), d["text"],
                          {"case": d["case"], "impl": r, "script": script_for(d["case"])})
        if not bad:
            out.notes.append("witness %s no longer fails" % name)
    kinds = {}
    for c in cases:
        k = c.get("kind", "?").split(":")[0]
        kinds[k] = kinds.get(k, 0) + 1
    blocks = {}
    for r in res:
        if not r.get("err"):
            b = len(r["actions"]) // 3
            key = str(b) if b < 6 else "6+"
            blocks[key] = blocks.get(key, 0) + 1
    out.distribution = {"kinds": kinds, "blocks_per_plan": blocks, "implementation_errors": nerr,
                        "with_inputs": sum(1 for c in cases if c["inputs"]),
                        "with_held_None_values": sum(1 for c in cases if c.get("nones")),
                        "with_a_failing_element_P_only": sum(1 for c in cases if c.get("raises") is not None),
                        "with_a_second_round_on_the_same_model": sum(1 for c in cases if c.get("second_round")),
                        "sizes": {str(k): sum(1 for c in cases if len(c["elems"]) == k) for k in sorted({len(c["elems"]) for c in cases})},
                        "shapes": {s: sum(1 for c in cases if c.get("shape") == s) for s in SHAPES},
                        **stats}
    out.notes.append("D25 trigger avoided: cases where a pre-calculated element lies in the dependency closure of the "
                     "targets have their precalc list dropped (%d such cases)" % stats["filtered_D25"])
    return out


def replay(data):
    case = data["case"]
    r = fw.run_driver("plan", [case])[0]
    bad = p_oracle(case, r)
    print(json.dumps({"case": case, "impl": r, "violated": bad}, indent=1))
    return 1 if bad else 0
