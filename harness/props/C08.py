"""C08 reported dependencies are exactly the calls made — tie of Exec/Model.v + oracle; see execprops.py"""
import execprops as E

EXTRA_MODS = ["Exec.Check"]
ORACLES = [E.oracle_graph]
ASSUMPTIONS = ["formula vocabulary of Exec/Model.v (integers/None, calls, references by name/attribute, conditional, try/except, try/finally, raising expressions)",
               "CPython evaluation order, inspect.Signature.bind, traceback line numbers are modelled, exercised by the correspondence"]


def run(tier, seed, rng):
    return E.run_exec_property("C08", tier, rng, 140, 2500, {'p_fin_world': 0.2, 'alt': [(0.4, {'p_raise': 0.15, 'p_try': 0.4})], 'p_derived': 0.3}, {'eval': 6, 'setv': 2, 'clearat': 1, 'setf': 1, 'setref': 1, 'setcached': 1, 'scn_ref': 1, 'scn_unc': 1, 'scn_unc2': 1}, (8, 26), ORACLES,
        'worlds as C01 incl. failing evaluations; evaluations interleaved with value, formula, flag and reference edits; after every operation the whole graph is compared' + "; non-trivial = graph with at least two edges and an uncached-cells object node; distinct by JSON of the case",
        lambda c, r: any(len(ob['edges'])>=2 for ob in r['obs']) and any(len(n)==1 for ob in r['obs'] for n in ob['nodes']), diff=None)


def replay(data):
    return E.replay_exec("C08", data, ORACLES)
