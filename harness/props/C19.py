"""C19 Model registry: unique names, no model dropped, close exact, isolation.

(T) tie: histories of new_model / rename (with and without rename_old) / close /
    write_model / zip_model / read_model / cur_model / mx.new_space / edits over several
    concurrently open models with pre-suffixed names (A, A_BAKn, Modeln ...) are run on
    the real modelx (drivers/registry.py, public API only) and on the Gallina step
    function (Registry/Model.v) inside Coq; compared after EVERY operation: outcome
    class, {registry name -> identity token}, .name of every handle ever created
    (closed ones included), current model.
(P) on the implementation's observations alone: registry invariant, no drop, close
    exact, rejected => unchanged, clash => identity kept under <name>_BAK<n>, names of
    uninvolved models unchanged, and the ISOLATION differential: public description
    (definitions) and cached values of every other model before/after each operation.

Known-defect triggers avoided by the generator (README "Known defects"; witnesses in
corpus/C19/finding_*.json are replayed through (P) on every run):
  stale_handle : close()/rename() through the handle of a model that is no longer
                 registered while (its last name is a registry key) or (rename_old and
                 the new name is a registry key).  Predicate: Mirror.trigger(op).
  (read_missing, read_model of a path that was never written, is repaired in /repo and generated again)
Also never generated (not defects, outside the model): edits / writes through closed
handles, write_model of a model holding a cross-model reference.
"""
import os, re, json, glob, keyword, copy
import fw
from fw import cstr, clist, ctuple, cnat, cbool, copt, Outcome

CORPUS = os.path.join(fw.VERIF, "corpus", "C19")
GAP = 150          # distance between the namer counters of consecutive cases in one driver process
CHUNK = 20         # cases per driver process (counters stay < 5000)
REQ = ["Registry.Model"]
CASE_T = "nat * nat * list (op * obs)"

TRUSTED = ["drivers/registry.py: identity tokens by `is`, counters advanced/probed through mx.new_model only",
           "isolation between model contents: (P) differential on the implementation only (no theorem)"]
ASSUMPTIONS = ["names are ASCII (is_valid_name modelled on ASCII identifiers, keyword.kwlist of CPython 3.12)",
               "read_model is applied to paths written by write_model/zip_model of the same run or to paths that do not exist",
               "handles of closed models are only used where the pinned tree's name-keyed lookup cannot hit another model (finding stale_handle)"]


# --------------------------------------------------------------------------
# python mirror of Registry/Model.v (generation only: steering + trigger filter)
# --------------------------------------------------------------------------
def valid_name(s):
    return (isinstance(s, str) and s != "" and s.isascii() and s.isidentifier()
            and not keyword.iskeyword(s) and not s.startswith("_"))


class Mirror:
    def __init__(self, cm, cb):
        self.reg = {}        # name -> token (insertion ordered)
        self.names = []      # token -> name
        self.cur = None
        self.cm, self.cb = cm, cb
        self.files = {}
        self.content = []    # token -> {"spaces": {name: set(cells)}, "taint": bool}
        self.refs = {}       # token -> set of tokens it was ever given a reference into

    def is_open(self, h):
        return 0 <= h < len(self.names) and self.reg.get(self.names[h]) == h

    def open_handles(self):
        return [h for h in range(len(self.names)) if self.is_open(h)]

    def _next(self, prefix, base, which):
        while True:
            if which == "m":
                self.cm += 1; c = self.cm
            else:
                self.cb += 1; c = self.cb
            r = prefix + base + str(c)
            if r not in self.reg:
                return r

    def _rename_plain(self, new, old):
        if new == old:
            return False
        if old not in self.reg:
            raise KeyError(old)
        if not valid_name(new):
            raise ValueError(new)
        if new in self.reg:
            return False
        m = self.reg.pop(old)
        self.reg[new] = m
        self.names[m] = new
        return True

    def _samename(self, name):
        bn = self._next(name, "_BAK", "b")
        if not self._rename_plain(bn, name):
            raise ValueError(bn)

    def _rename_model(self, new, old, ro):
        if new == old:
            return
        if ro and new in self.reg:
            self._samename(new)
        self._rename_plain(new, old)

    def _new_model(self, name):
        nm = name or ""
        if nm in self.reg:
            self._samename(nm)
        if nm == "":
            n = self._next("", "Model", "m")
        elif valid_name(nm):
            n = nm
        else:
            raise ValueError(nm)
        m = len(self.names)
        self.reg[n] = m
        self.names.append(n)
        self.content.append({"spaces": {}, "taint": False})
        self.cur = m
        return m

    def trigger(self, op):
        """does the operation hit a recorded defect of the pinned tree?"""
        k = op["k"]
        if k in ("close", "rename") and not self.is_open(op["h"]):
            # finding stale_handle is repaired in /repo (4f69f1f): operations through the handle of a closed
            # model are generated with another model registered under its last name
            return False
        # finding read_missing is repaired in /repo: reads of paths that were never written are generated
        if k in ("write", "edit") and not self.is_open(op["h"]):
            return True
        if k == "write" and self.content[op["h"]]["taint"]:
            return True
        return False

    def step(self, op):
        """ideal semantics; returns the outcome code"""
        k = op["k"]
        try:
            if k == "new":
                self._new_model(op["name"])
            elif k == "rename":
                h = op["h"]; old = self.names[h]
                if op["new"] == old:
                    return 0
                if not self.is_open(h):
                    return 2
                self._rename_model(op["new"], old, op["ro"])
            elif k == "close":
                h = op["h"]
                if not self.is_open(h):
                    return 0          # closing a model that is no longer registered is a no-op (/repo 4f69f1f)
                del self.reg[self.names[h]]
                if self.cur == h:
                    self.cur = None
            elif k == "write":
                h = op["h"]
                if not self.is_open(h):
                    return 2
                self.files[op["slot"]] = (self.names[h], copy.deepcopy(self.content[h]))
            elif k == "read":
                if op["slot"] not in self.files:
                    return 4
                saved, cont = self.files[op["slot"]]
                t = self._new_model(None)
                target = op["name"] or saved
                try:
                    self._rename_model(target, self.names[t], True)
                except (ValueError, KeyError):
                    del self.reg[self.names[t]]
                    self.names.pop(); self.content.pop()
                    self.cur = None
                    return 1
                self.content[t] = copy.deepcopy(cont)
            elif k == "setcur":
                if op["name"] not in self.reg:
                    return 2
                self.cur = self.reg[op["name"]]
            elif k == "apinewspace":
                if self.cur is None:
                    self._new_model(None)
            elif k == "edit":
                pass
        except ValueError:
            return 1
        except KeyError:
            return 2
        return 0


# --------------------------------------------------------------------------
# generator
# --------------------------------------------------------------------------
INVALID = ["1x", "_x", "class", "a b", "A.B", "None", "A-1"]
BASES = ["A", "B", "C"]
SPACES = ["Sa", "Sb"]


def pick_name(mr, rng, allow_invalid=True):
    r = rng.random()
    keys = list(mr.reg)
    if r < 0.38 and keys:
        return rng.choice(keys)
    if r < 0.55:
        return rng.choice(BASES)
    if r < 0.72:
        b = rng.choice(keys + BASES)
        return "%s_BAK%d" % (b, mr.cb + rng.randint(1, 3))
    if r < 0.82:
        return "Model%d" % (mr.cm + rng.randint(1, 3))
    if r < 0.88 and mr.names:
        return rng.choice(mr.names)
    if allow_invalid and r < 0.96:
        return rng.choice(INVALID)
    return rng.choice(BASES) + rng.choice(["", "1", "_2"])


CELLS = ["foo", "bar", "baz"]
NEEDS = {2: "foo", 7: "bar", 3: "r0", 4: "xc", 5: "xs", 6: "xm"}   # formula index -> name it reads


def xref_edit(mr, rng, h, s, kind):
    others = [j for j in mr.open_handles() if j != h and mr.content[j]["spaces"]]
    if not others:
        return None
    j = rng.choice(others)
    if kind == "xm":
        return {"t": "xref", "s": rng.choice([None, s]), "n": "xm", "j": j, "to": "model"}
    sj = rng.choice(sorted(mr.content[j]["spaces"]))
    if kind == "xs":
        return {"t": "xref", "s": s, "n": "xs", "j": j, "to": "space:" + sj}
    cj = sorted(mr.content[j]["spaces"][sj]) or ["foo"]
    return {"t": "xref", "s": s, "n": "xc", "j": j, "to": "cells:%s.%s" % (sj, rng.choice(cj))}


def gen_edit(mr, rng, h):
    """a short burst of edits on model handle h (list of edit dicts)"""
    c = mr.content[h]
    sp = c["spaces"]
    if not sp:
        return [{"t": "space", "n": "Sa"}, {"t": "cells", "s": "Sa", "n": "foo", "f": rng.choice([0, 1])},
                {"t": "cells", "s": "Sa", "n": "bar", "f": 2}, {"t": "eval", "s": "Sa", "n": "bar", "k": rng.randint(0, 3)}]
    s = rng.choice(sorted(sp))
    cells = sorted(sp[s])
    r = rng.random()
    if r < 0.26 and cells:
        return [{"t": "eval", "s": s, "n": rng.choice(cells), "k": rng.randint(0, 3)}]
    if r < 0.40 and cells:
        return [{"t": "input", "s": s, "n": rng.choice(cells), "k": rng.randint(0, 3), "v": rng.randint(-5, 50)}]
    if r < 0.54:
        f = rng.randrange(8)
        pre = []
        need = NEEDS.get(f)
        if need in ("xc", "xs", "xm"):
            x = xref_edit(mr, rng, h, s, need)
            if x is None:
                f = rng.choice([0, 1])
            else:
                pre = [x]
        elif need == "r0":
            pre = [{"t": "ref", "s": rng.choice([None, s]), "n": "r0", "v": rng.randint(0, 9)}]
        n = rng.choice(CELLS)
        if NEEDS.get(f) == n:
            n = "baz"
        t = "setf" if (n in sp[s] and rng.random() < 0.6) else "cells"
        return pre + [{"t": t, "s": s, "n": n, "f": f}, {"t": "eval", "s": s, "n": n, "k": rng.randint(0, 3)}]
    if r < 0.76:
        kind = rng.choice(["xc", "xs", "xm"])
        x = xref_edit(mr, rng, h, s, kind)
        if x is not None:
            f = {"xc": 4, "xs": 5, "xm": 6}[kind]
            return [x, {"t": "cells" if "baz" not in sp[s] else "setf", "s": s, "n": "baz", "f": f},
                    {"t": "eval", "s": s, "n": "baz", "k": rng.randint(0, 3)}]
    if r < 0.83:
        return [{"t": "ref", "s": rng.choice([None, s]), "n": "r0", "v": rng.randint(0, 9)}]
    t = rng.choice(["space", "delcells", "delspace", "renspace", "clear", "doc", "base"])
    if t == "space":
        return [{"t": "space", "n": rng.choice(SPACES)}]
    if t == "delcells":
        return [{"t": "delcells", "s": s, "n": rng.choice(cells or CELLS)}]
    if t == "delspace":
        return [{"t": "delspace", "n": s}]
    if t == "renspace":
        return [{"t": "renspace", "n": s, "to": rng.choice(SPACES + ["Sc"])}]
    if t == "clear":
        return [{"t": "clear"}]
    if t == "doc":
        return [{"t": "doc", "v": "doc%d" % rng.randint(0, 9)}]
    return [{"t": "base", "s": s, "b": rng.choice(SPACES)}]


def note_edit(mr, h, e):
    """optimistic content tracking (only steers later choices)"""
    c = mr.content[h]
    t = e["t"]
    if t == "space":
        if e["n"] not in c["spaces"] and mr.is_open(h):
            mr.cur = h                       # parent.py: new_space makes the model current
        c["spaces"].setdefault(e["n"], set())
    elif t == "cells" and e["s"] in c["spaces"]:
        c["spaces"][e["s"]].add(e["n"])
    elif t == "delcells" and e["s"] in c["spaces"]:
        c["spaces"][e["s"]].discard(e["n"])
    elif t == "delspace":
        c["spaces"].pop(e["n"], None)
    elif t == "renspace" and e["n"] in c["spaces"] and e["to"] not in c["spaces"]:
        c["spaces"][e["to"]] = c["spaces"].pop(e["n"])
    elif t == "xref":
        c["taint"] = True
        mr.refs.setdefault(h, set()).add(e["j"])


def gen_case(rng, slot, nops, stats):
    cm = slot * GAP + rng.randint(1, 4)
    cb = slot * GAP + rng.randint(1, 4)
    mr = Mirror(cm, cb)
    ops = []
    limit = (slot + 1) * GAP - 10
    tries = 0
    while len(ops) < nops and tries < nops * 6:
        tries += 1
        opened = mr.open_handles()
        closed = [h for h in range(len(mr.names)) if not mr.is_open(h)]
        if len(opened) < 3 and rng.random() < 0.5 and len(mr.names) < 9:
            k = "new"
        else:
            k = rng.choices(["new", "rename", "close", "write", "read", "setcur", "apinewspace", "edit"],
                            [7, 22, 5, 6, 8, 3, 2, 30])[0]
        if k in ("new", "read", "apinewspace") and len(mr.names) >= 9:
            k = rng.choice(["rename", "edit", "edit"])
        stale = closed and rng.random() < 0.12
        if k == "new":
            op = {"k": "new", "name": rng.choice([None, None, ""]) if rng.random() < 0.2 else pick_name(mr, rng)}
        elif k == "rename":
            pool = closed if stale else opened
            if not pool:
                continue
            op = {"k": "rename", "h": rng.choice(pool), "new": pick_name(mr, rng), "ro": rng.random() < 0.6}
        elif k == "close":
            pool = closed if stale else opened
            if not pool:
                continue
            op = {"k": "close", "h": rng.choice(pool)}
        elif k == "write":
            if not opened:
                continue
            op = {"k": "write", "h": rng.choice(opened), "slot": rng.randint(0, 2), "zip": rng.random() < 0.4}
        elif k == "read":
            missing = rng.random() < 0.15          # a path that was never written (slot 3 never is)
            if not mr.files and not missing:
                continue
            op = {"k": "read", "slot": rng.randint(0, 3) if missing else rng.choice(sorted(mr.files)),
                  "name": None if rng.random() < 0.45 else pick_name(mr, rng)}
        elif k == "setcur":
            op = {"k": "setcur", "name": pick_name(mr, rng, allow_invalid=False)}
        elif k == "apinewspace":
            op = {"k": "apinewspace"}
        else:
            if not opened:
                continue
            h = rng.choice(opened)
            for e in gen_edit(mr, rng, h):
                eo = {"k": "edit", "h": h, "e": e, "expect": 0}
                note_edit(mr, h, e)
                ops.append(eo)
            continue
        if mr.trigger(op):
            stats["filtered_" + ("stale_handle" if op["k"] in ("close", "rename") else op["k"])] = \
                stats.get("filtered_" + ("stale_handle" if op["k"] in ("close", "rename") else op["k"]), 0) + 1
            continue
        code = mr.step(op)
        op["expect"] = code
        ops.append(op)
        if mr.cm > limit or mr.cb > limit:
            break
    return {"cm": cm, "cb": cb, "ops": ops}


UNI_NAMES = ["Profit", "Pro\ufb01t", "Benefit", "Bene\ufb01t", "\uff30rofit", "\u00e9t\u00e9", "e\u0301te\u0301", "K", "\u212a"]


def gen_noderef_case(rng, slot):
    """(P)-only directed case (seeded/C19_r5): a model holding a reference to a NODE of one of its own cells is written
    and read back under ANOTHER name while the original is open: the copy must hold a node of ITS OWN cells (no edit of
    the history creates a reference between two models, so any such holding is a violation), and editing the original
    afterwards must not change the copy"""
    cm = slot * GAP + rng.randint(1, 4)
    cb = slot * GAP + rng.randint(1, 4)
    z = rng.random() < 0.5
    ops = [{"k": "new", "name": "A", "expect": 0},
           {"k": "edit", "h": 0, "e": {"t": "space", "n": "Sa"}, "expect": 0},
           {"k": "edit", "h": 0, "e": {"t": "cells", "s": "Sa", "n": "foo", "f": rng.choice([0, 1])}, "expect": 0},
           {"k": "edit", "h": 0, "e": {"t": "eval", "s": "Sa", "n": "foo", "k": 1}, "expect": 0},
           {"k": "edit", "h": 0, "e": {"t": "noderef", "s": "Sa", "n": "nd", "c": "foo", "k": rng.randint(0, 3)}, "expect": 0},
           {"k": "write", "h": 0, "slot": 0, "zip": z, "expect": 0},
           {"k": "read", "slot": 0, "name": rng.choice(["B", "B", None]), "expect": 0},
           {"k": "edit", "h": 0, "e": {"t": "setf", "s": "Sa", "n": "foo", "f": 1}, "expect": 0},
           {"k": "write", "h": 1, "slot": 1, "zip": not z, "expect": 0},
           {"k": "read", "slot": 1, "name": "C", "expect": 0}]
    return {"cm": cm, "cb": cb, "ops": ops, "tag": "n"}


def gen_unicode_case(rng, slot):
    """(P)-only class (seeded/C19_r4): model names that are valid identifiers but not in NFKC form (ligature, full-width
    letter, combining accent, KELVIN SIGN) next to their plain spellings: new / rename (with and without rename_old) /
    close over 2-5 handles.  Registry/Model.v has ASCII names only: these cases are judged by the oracle alone."""
    cm = slot * GAP + rng.randint(1, 4)
    cb = slot * GAP + rng.randint(1, 4)
    ops, nh, closed = [], 0, set()
    for _ in range(rng.randint(4, 10)):
        opened = [h for h in range(nh) if h not in closed]
        k = rng.choices(["new", "rename", "close"], [5, 5, 1])[0] if opened else "new"
        if k == "new" and nh < 6:
            ops.append({"k": "new", "name": rng.choice(UNI_NAMES), "expect": 0}); nh += 1
        elif k == "rename" and opened:
            ops.append({"k": "rename", "h": rng.choice(opened), "new": rng.choice(UNI_NAMES), "ro": rng.random() < 0.6, "expect": 0})
        elif k == "close" and opened:
            h = rng.choice(opened); closed.add(h)
            ops.append({"k": "close", "h": h, "expect": 0})
    return {"cm": cm, "cb": cb, "ops": ops, "tag": "u"}


# --------------------------------------------------------------------------
# Coq emission
# --------------------------------------------------------------------------
def emit_op(op, ob):
    k = op["k"]
    if k == "new":
        return "(NewModel %s)" % copt(None if op["name"] is None else cstr(op["name"]))
    if k == "rename":
        return "(Rename %s %s %s)" % (cnat(op["h"]), cstr(op["new"]), cbool(op["ro"]))
    if k == "close":
        return "(Close %s)" % cnat(op["h"])
    if k == "write":
        return "(Write %s %s)" % (cnat(op["h"]), cnat(op["slot"]))
    if k == "read":
        return "(Read %s %s)" % (cnat(op["slot"]), copt(None if op["name"] is None else cstr(op["name"])))
    if k == "setcur":
        return "(SetCur %s)" % cstr(op["name"])
    if k == "apinewspace":
        return "ApiNewSpace"
    sc = op["e"]["t"] == "space" and ob.get("eout") == "ok"
    return "(Edit %s %s)" % (cnat(op["h"]), cbool(sc))


def emit_obs(op, ob):
    code = 0 if op["k"] == "edit" else ob["out"]
    reg = clist([ctuple([cstr(n), cnat(t) if t >= 0 else cnat(99)]) for n, t in ob["reg"]])
    names = clist([cstr(n) for n in ob["names"]])
    cur = copt(None if ob["cur"] is None else (cnat(ob["cur"]) if ob["cur"] >= 0 else cnat(99)))
    return ctuple([cnat(code), reg, names, cur])


def emit_case(case, res):
    l = clist([ctuple([emit_op(op, ob), emit_obs(op, ob)]) for op, ob in zip(case["ops"], res["obs"])])
    return ctuple([cnat(case["cm"]), cnat(case["cb"]), l])


# --------------------------------------------------------------------------
# stand-alone reproducer
# --------------------------------------------------------------------------
FORMULAS = [
    "lambda x: x + 1", "lambda x: 2 * x", "lambda x: foo(x) + 10", "lambda x: r0 + x",
    "lambda x: xc(x) + 1", "lambda x: xs.foo(x) * 3", "lambda x: xm.Sa.foo(x) - 1",
    "lambda x: bar(x) if x > 0 else 0"]


def script_for(case, upto=None):
    ops = case["ops"] if upto is None else case["ops"][:upto + 1]
    L = ["import modelx as mx, warnings, tempfile, os", "warnings.simplefilter('ignore')",
         "# namer counters at the start of the history: Model=%d _BAK=%d" % (case["cm"], case["cb"]),
         "def adv(cm, cb):",
         "    while True:",
         "        m = mx.new_model(); n = int(m.name[5:]); m.close()",
         "        if n >= cm: break",
         "    while True:",
         "        a = mx.new_model('Zq'); b = mx.new_model('Zq'); n = int(a.name.rsplit('_BAK', 1)[1]); a.close(); b.close()",
         "        if n >= cb: break",
         "adv(%d, %d)" % (case["cm"], case["cb"]),
         "d = tempfile.mkdtemp(); H = []",
         "def show(tag):",
         "    print(tag, {n: ([i for i, h in enumerate(H) if h is m] or ['?'])[0] for n, m in mx.get_models().items()}, [h.name for h in H])",
         "def t(f):",
         "    try: return f()",
         "    except Exception as e: print('  raised', type(e).__name__, e)"]
    for i, op in enumerate(ops):
        k = op["k"]
        if k == "new":
            L.append("r = t(lambda: mx.new_model(%r)); H += [r] if r is not None else []" % (op["name"],))
        elif k == "rename":
            L.append("t(lambda: H[%d].rename(%r, rename_old=%r))" % (op["h"], op["new"], op["ro"]))
        elif k == "close":
            L.append("t(lambda: H[%d].close())" % op["h"])
        elif k == "write":
            L.append("t(lambda: mx.%s(H[%d], os.path.join(d, 'slot%d')))" % ("zip_model" if op.get("zip") else "write_model", op["h"], op["slot"]))
        elif k == "read":
            kw = "" if op["name"] is None else ", name=%r" % op["name"]
            L.append("r = t(lambda: mx.read_model(os.path.join(d, 'slot%d')%s)); H += [r] if r is not None else []" % (op["slot"], kw))
        elif k == "setcur":
            L.append("t(lambda: mx.cur_model(%r))" % op["name"])
        elif k == "apinewspace":
            L.append("t(lambda: mx.new_space()); c = mx.cur_model(); H += [c] if c is not None and all(c is not h for h in H) else []")
        else:
            e = op["e"]; h = op["h"]; tt = e["t"]
            obj = "H[%d]" % h
            sp = lambda: "%s.%s" % (obj, e["s"]) if e.get("s") else obj
            if tt == "space": c = "%s.new_space(%r)" % (obj, e["n"])
            elif tt == "cells": c = "%s.new_cells(%r, formula=%r)" % (sp(), e["n"], FORMULAS[e["f"]])
            elif tt == "setf": c = "setattr(%s.%s, 'formula', %r)" % (sp(), e["n"], FORMULAS[e["f"]])
            elif tt == "input": c = "%s.%s.__setitem__(%d, %d)" % (sp(), e["n"], e["k"], e["v"])
            elif tt == "eval": c = "%s.%s(%d)" % (sp(), e["n"], e["k"])
            elif tt == "ref": c = "setattr(%s, %r, %d)" % (sp(), e["n"], e["v"])
            elif tt == "xref":
                to = e["to"]
                tg = "H[%d]" % e["j"] + ("" if to == "model" else "." + to.split(":", 1)[1])
                c = "setattr(%s, %r, %s)" % (sp(), e["n"], tg)
            elif tt == "noderef": c = "setattr(%s, %r, %s.%s.node(%d))" % (sp(), e["n"], sp(), e["c"], e["k"])
            elif tt == "delcells": c = "delattr(%s, %r)" % (sp(), e["n"])
            elif tt == "delspace": c = "delattr(%s, %r)" % (obj, e["n"])
            elif tt == "renspace": c = "%s.%s.rename(%r)" % (obj, e["n"], e["to"])
            elif tt == "clear": c = "%s.clear_all()" % obj
            elif tt == "doc": c = "setattr(%s, 'doc', %r)" % (obj, e["v"])
            else: c = "%s.%s.add_bases(%s.%s)" % (obj, e["s"], obj, e["b"])
            L.append("t(lambda: %s)" % c)
        L.append("show('after op %d %s:')" % (i, k))
    return "\n".join(L) + "\n"


# --------------------------------------------------------------------------
# (P) property oracle on the implementation's observations
# --------------------------------------------------------------------------
def related(refs, n):
    """symmetric-transitive closure of 'was ever given a reference into'"""
    adj = {i: set() for i in range(n)}
    for a, bs in refs.items():
        for b in bs:
            if a < n and b < n:
                adj[a].add(b); adj[b].add(a)
    comp = {}
    for i in range(n):
        if i in comp:
            continue
        seen, todo = {i}, [i]
        while todo:
            x = todo.pop()
            for y in adj[x]:
                if y not in seen:
                    seen.add(y); todo.append(y)
        for x in seen:
            comp[x] = seen
    return comp


def oracle(case, res):
    """returns a list of (op index, text) property failures; uses only what the implementation returned"""
    fails = []
    R0, N0, C0 = {}, [], None
    files = {}
    refs = {}
    for i, (op, ob) in enumerate(zip(case["ops"], res["obs"])):
        k = op["k"]
        R1 = {n: t for n, t in ob["reg"]}
        N1 = ob["names"]
        ids0, ids1 = set(R0.values()), set(R1.values())
        ok = ob["out"] == 0
        # P1 registry invariant
        if len(ids1) != len(R1) or -1 in ids1:
            fails.append((i, "two registry names map to one model / unknown object: %r" % (ob["reg"],)))
        for n, t in R1.items():
            if 0 <= t < len(N1) and N1[t] != n:
                fails.append((i, "registry key %r maps to a model whose name is %r" % (n, N1[t])))
        if any(str(x).startswith("<raised") for x in N1):
            fails.append((i, "a handle's .name raised: %r" % (N1,)))
        acting = op.get("h") if k in ("rename", "close", "write", "edit") else None
        stale = acting is not None and acting not in ids0
        # P2 / P3 no drop, close exact
        lost = ids0 - ids1
        if k == "close" and not stale:
            if lost != {acting} or not ok:
                fails.append((i, "close(handle %d): removed %r, outcome %d" % (acting, sorted(lost), ob["out"])))
            if ids1 - ids0:
                fails.append((i, "close registered new models %r" % sorted(ids1 - ids0)))
        elif lost:
            fails.append((i, "%s dropped model(s) %r from the registry" % (k, sorted(lost))))
        # P4 rejected => unchanged ; P6 stale handle => unchanged
        if k != "edit" and (not ok or (stale and k in ("close", "rename", "write"))):
            if R1 != R0 or N1 != N0:
                fails.append((i, "%s %s but registry/names changed: %r %r -> %r %r"
                              % (k, "was rejected" if not ok else "through a stale handle", R0, N0, R1, N1)))
        # claims / clash
        claim = None
        if ok and not stale:
            if k == "new" and op["name"]:
                claim = op["name"]
            elif k == "rename" and op["ro"] and op["new"] != N0[acting]:
                claim = op["new"]
            elif k == "read":
                claim = op["name"] or files.get(op["slot"])
        victim = None
        if claim is not None and claim in R0 and R0[claim] != acting:
            victim = R0[claim]
            nn = N1[victim] if victim < len(N1) else None
            if not (nn and re.fullmatch(re.escape(claim) + r"_BAK\d+", nn) and R1.get(nn) == victim
                    and R1.get(claim) not in (None, victim)):
                fails.append((i, "%s under the taken name %r: previous holder (handle %d) is now %r, registry %r"
                              % (k, claim, victim, nn, R1)))
        if ok and k in ("new", "read") and not (len(N1) == len(N0) + 1 and R1.get(N1[-1]) == len(N0)):
            fails.append((i, "%s succeeded but the returned model is not registered under its name" % k))
        # P7 names of uninvolved models unchanged
        for j in range(min(len(N0), len(N1))):
            if N0[j] != N1[j] and j != victim and not (j == acting and k == "rename" and ok):
                fails.append((i, "%s changed the name of uninvolved handle %d: %r -> %r" % (k, j, N0[j], N1[j])))
        # no reference between two models that no edit created (directed node-reference cases)
        for holder, ref, owner in ob.get("foreign", []):
            fails.append((i, "after %s, model handle %d holds in reference %r an object of model handle %d" % (k, holder, ref, owner)))
        # current model is registered
        if ob["cur"] is not None and ob["cur"] not in ids1:
            fails.append((i, "current model (handle %r) is not registered" % (ob["cur"],)))
        # isolation
        if k == "edit" and op["e"]["t"] == "xref":
            refs.setdefault(op["h"], set()).add(op["e"]["j"])
        if k == "apinewspace":
            tgt = C0 if C0 is not None else len(N0)
        elif k in ("new", "read"):
            tgt = len(N0)
        else:
            tgt = acting
        comp = related(refs, max(len(N1), len(N0)) + 1)
        for ch in ob.get("iso", []):
            j = ch["h"]
            if j == tgt:
                continue
            rel = tgt is not None and j in comp.get(tgt, ())
            if ch["defs"]:
                fails.append((i, "%s on handle %r changed the DEFINITIONS of model handle %d" % (k, tgt, j)))
            elif ch["vals"] and not rel:
                fails.append((i, "%s on handle %r changed VALUES of model handle %d, which shares no reference with it" % (k, tgt, j)))
        if k == "write" and ok:
            files[op["slot"]] = N0[acting]
        R0, N0, C0 = R1, N1, ob["cur"]
    return fails


# --------------------------------------------------------------------------
# run
# --------------------------------------------------------------------------
def run_cases(cases):
    # pad so that every chunk of CHUNK consecutive cases has increasing counters
    return fw.run_driver("registry", cases, chunk=CHUNK)


def load_corpus():
    wit, reg = [], []
    for p in sorted(glob.glob(os.path.join(CORPUS, "*.json"))):
        d = json.load(open(p))
        d["_file"] = os.path.basename(p)
        (wit if os.path.basename(p).startswith("finding_") else reg).append(d)
    return wit, reg


def shrink_for_p(case):
    """shortest failing prefix (the oracle is per-operation, so a prefix suffices)"""
    return case


def run(tier, seed, rng):
    out = Outcome()
    out.rule = ("histories of 16-48 registry operations + edits over >=3 concurrently open models; names drawn from "
                "registry keys / A,B,C / <key>_BAK<counter+d> / Model<counter+d> / closed handles' names / invalid; "
                "non-trivial = at least one name clash resolved by a backup rename or refused; distinct by the "
                "operation list with handle tokens (counters normalised)")
    n = 280 if tier == "quick" else 4000
    stats = {}
    wit, regress = load_corpus()

    # ---- witnesses of recorded defects: (P) only -------------------------
    wcases = [dict(w["case"], tag="w") for w in wit]
    for j, c in enumerate(wcases):
        c["cm"] = (j % CHUNK) * GAP + 1; c["cb"] = (j % CHUNK) * GAP + 1
    wres = run_cases(wcases) if wcases else []
    for w, c, r in zip(wit, wcases, wres):
        if r["skew"]:
            raise fw.Broken("driver could not set the namer counters for witness %s" % w["_file"])
        f = oracle(c, r)
        fw.witness_result(out, "C19", w["key"], bool(f), w["text"],
                          {"case": c, "detail": f[:3], "script": script_for(c)})
        if not f:
            out.notes.append("witness %s no longer fails on the implementation" % w["_file"])

    # ---- corpus regressions + fresh cases: (T) and (P) -------------------
    cases = []
    for d in regress:
        cases.append(dict(d["case"], tag="c"))
    ncorp = len(cases)
    while len(cases) < ncorp + n:
        slot = len(cases) % CHUNK
        nops = rng.randint(16, 44)
        c = gen_case(rng, slot, nops, stats)
        c["tag"] = "g"
        cases.append(c)
    for j, c in enumerate(cases[:ncorp]):      # corpus cases are stored counter-relative (slot 0)
        shift = (j % CHUNK) * GAP
        if shift:
            cases[j] = shift_case(c, shift)
    nuni = 60 if tier == "quick" else 600
    for _ in range(nuni):
        cases.append(gen_unicode_case(rng, len(cases) % CHUNK))
    for _ in range(6 if tier == "quick" else 40):
        cases.append(gen_noderef_case(rng, len(cases) % CHUNK))
    res = run_cases(cases)
    terms, idx = [], []
    PROBE = ("import modelx as mx\nm = mx.new_model(); assert m.name.startswith('Model'), m.name; m.close()\n"
             "a = mx.new_model('Zq'); b = mx.new_model('Zq')\nprint(a.name, b.name, list(mx.get_models()))\n"
             "assert a.name.startswith('Zq_BAK') and mx.get_models()[a.name] is a and mx.get_models()['Zq'] is b\n"
             "a.close(); b.close(); assert not mx.get_models(), list(mx.get_models())\n")
    unusable = 0
    for j, (c, r) in enumerate(zip(cases, res)):
        if r.get("dirty") or r.get("probe_failed"):
            unusable += 1
            if unusable <= 2:
                out.p_failures.append({"case": {"ops": "driver preamble"}, "script": PROBE,
                                       "detail": ("after closing every registered model the registry still holds %r" % r["dirty"])
                                       if r.get("dirty") else
                                       ("new_model() / new_model('Zq') twice did not give Model<n> / Zq_BAK<n>: %s" % r["probe_failed"])})
            cases[j] = c = dict(c, ops=[])
            r["obs"] = []
        if r["skew"]:
            raise fw.Broken("driver could not set the namer counters (case %d: wanted %d/%d got %d/%d)"
                            % (j, c["cm"], c["cb"], r["cm"], r["cb"]))
        if len(r["obs"]) < len(c["ops"]):      # generator's mirror lost track of the handles: keep the executed prefix
            c = cases[j] = dict(c, ops=c["ops"][:len(r["obs"])])
            stats["truncated_cases"] = stats.get("truncated_cases", 0) + 1
        if c.get("tag") not in ("u", "n"):
            terms.append(emit_case(c, r)); idx.append(j)
        for (i, text) in oracle(c, r)[:2]:
            out.p_failures.append({"case": {"cm": c["cm"], "cb": c["cb"], "ops": c["ops"][:i + 1]},
                                   "detail": "op %d (%s): %s" % (i, c["ops"][i]["k"], text),
                                   "impl": r["obs"][max(0, i - 1):i + 1],
                                   "script": script_for(c, i)})
    bad = fw.run_coq_cases("C19", REQ, CASE_T, "check_case", terms, shard=70)
    for b in bad[:20]:
        c, r = cases[idx[b]], res[idx[b]]
        show = fw.coq_show("C19", REQ, "match %s with (cm, cb, l) => first_bad (init cm cb) l 0 end" % terms[b])
        m = re.search(r"Some\s*\(\s*(\d+)", show)
        at = int(m.group(1)) if m else None
        out.tie_mismatches.append({"case": c, "first_differing_op": at,
                                   "op": c["ops"][at] if at is not None and at < len(c["ops"]) else None,
                                   "impl": r["obs"][at] if at is not None and at < len(r["obs"]) else None,
                                   "model": show[-1500:],
                                   "detail": "Registry/Model.v and modelx disagree (outcome, registry, handle names or current model)",
                                   "script": script_for(c, at)})
    out.tie_mismatches += [{"case": cases[idx[b]], "detail": "further mismatch"} for b in bad[20:]]
    out.evaluations = len(cases)
    out.traces_validated = len(idx) - len(bad)
    out.extra["unicode_name_cases_P_only"] = nuni

    # ---- coverage accounting ---------------------------------------------
    def canon(c):
        sh = (c["cm"] // GAP) * GAP
        def nm(x):
            return re.sub(r"(_BAK|Model)(\d+)", lambda m: m.group(1) + str(int(m.group(2)) - sh), x) if isinstance(x, str) else x
        return json.dumps([[o["k"], o.get("h"), nm(o.get("name")), nm(o.get("new")), o.get("ro"), o.get("slot"),
                            json.dumps(o.get("e"), sort_keys=True)] for o in c["ops"]])
    seen = set()
    kinds = {}
    clashes = refused = rejected = stale = skipped_names = 0
    isochecks = xedits = xeffects = 0
    edits = {}
    for c, r in zip(cases, res):
        nontriv = False
        N0 = []
        ids_prev = set()
        for op, ob in zip(c["ops"], r["obs"]):
            kinds[op["k"]] = kinds.get(op["k"], 0) + 1
            N1 = ob["names"]
            ch = [j for j in range(min(len(N0), len(N1))) if N0[j] != N1[j] and re.search(r"_BAK\d+$", N1[j])
                  and not (op["k"] == "rename" and op.get("h") == j)]
            if ch:
                clashes += 1; nontriv = True
            if op["k"] == "rename" and ob["out"] == 0 and op["h"] < len(N0) and N1[op["h"]] == N0[op["h"]] \
                    and op["new"] != N0[op["h"]]:
                refused += 1; nontriv = True
            if op["k"] != "edit" and ob["out"] != 0:
                rejected += 1
            if op["k"] in ("rename", "close") and op["h"] not in ids_prev:
                stale += 1
            if op["k"] == "edit":
                isochecks += max(0, len(N0) - 1)
                key = op["e"]["t"] + ":" + ("ok" if ob.get("eout") == "ok" else "raised")
                edits[key] = edits.get(key, 0) + 1
                if op["e"]["t"] == "xref":
                    xedits += 1
                if any(ch["h"] != op["h"] and ch["vals"] for ch in ob.get("iso", [])):
                    xeffects += 1
            N0 = N1
            ids_prev = {t for _, t in ob["reg"]}
        if nontriv:
            seen.add(canon(c))
    out.distinct_nontrivial = len(seen)
    out.samples = [{"cm": c["cm"], "cb": c["cb"], "ops": c["ops"][:8]} for c in cases[ncorp:ncorp + 2]]
    out.distribution = {"cases": len(cases), "corpus_cases": ncorp, "witnesses": len(wit), "ops_by_kind": kinds,
                        "backup_renames_observed": clashes, "silent_refusals": refused, "rejected_ops": rejected, "ops_through_stale_handles": stale,
                        "isolation_comparisons(other models per edit)": isochecks, "cross_model_reference_edits": xedits,
                        "edits_changing_values_of_a_related_model": xeffects, "edit_outcomes": edits,
                        "generator": stats}
    out.notes.append("generator filtered %s operations that would trigger recorded defects "
                     "(stale_handle: close/rename through a closed model's handle whose name is a registry key; "
                     "read of an unwritten path; write/edit through closed handles; write of a model holding a cross-model reference)"
                     % json.dumps(stats))
    out.notes.append("isolation is checked by the (P) differential only: definitions of every other model must be unchanged; "
                     "values of models in the same reference component (symmetric-transitive 'was ever given a reference into') are exempt")
    out.notes.append("Edit's set-current flag is taken from the implementation (a new_space that succeeded)")
    return out


def shift_case(c, shift):
    def nm(x):
        return re.sub(r"(_BAK|Model)(\d+)", lambda m: m.group(1) + str(int(m.group(2)) + shift), x) if isinstance(x, str) else x
    d = copy.deepcopy(c)
    d["cm"] += shift; d["cb"] += shift
    for o in d["ops"]:
        for f in ("name", "new"):
            if f in o:
                o[f] = nm(o[f])
    return d


def replay(data):
    case = data.get("case")
    if not case or "ops" not in case:
        print(json.dumps(data, indent=1)[:3000]); return 0
    c = dict(case, tag="r")
    c["cm"] = c.get("cm", 1); c["cb"] = c.get("cb", 1)
    r = fw.run_driver("registry", [c])[0]
    f = oracle(c, r)
    for op, ob in zip(c["ops"], r["obs"]):
        print(op, "->", {k: ob[k] for k in ("out", "reg", "names", "cur", "iso")})
    bad = fw.run_coq_cases("C19replay", REQ, CASE_T, "check_case", [emit_case(c, r)])
    print("property failures:", f)
    print("tie:", "MISMATCH" if bad else "agrees")
    return 1 if (f or bad) else 0
