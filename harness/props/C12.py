"""C12 Names are unique per space and the visible namespace equals the containers.

Suite shared with C11 (harness/nameslib.py, drivers/names.py).  After EVERY operation:
(P) per space: cells / own references / child spaces pairwise disjoint; model: spaces vs references disjoint;
    space.refs == own references over the special names over the model's references (own ones win);
    dir(space) == cells + refs + spaces, dir(model) == spaces + refs; getattr(space, n) is the thing the
    containers say; every derived member has a definer in a base and every member of a base shows in the
    sub space; mx.core.mxsys._check_sanity() and model._impl._check_sanity() pass.
(T) as C11: Names/Model.v `step` gives the same outcome class and the same name maps / dir() after every op.

Known defects of the pinned tree (triggers avoided, witnesses corpus/C12/finding_*.json replayed through (P)):
  D13  add_bases / new_space(bases=...) never find a name conflict (`set().intersection(...)`)   (model.py:1734)
  D23  cells.rename onto a name a sub space uses for its own cells replaces that cells            (model.py:1408-1425)
  N1   new_cells(name=None, formula="def foo...") takes the name from the def without any clash test
  N2   the automatic name CellsN is not tested against the sub spaces
  N3   _can_add looks at the first sub space that has the name only                               (model.py:1220-1249)
  N5   del of a space: the sub spaces of its CHILD spaces keep their derived members
  N6   space.x = v shadowing a model-level x is not tested against the sub spaces                 (model.py:1479-1487)
  N7   cells.rename renames the derived cells of a sub space that has another base defining the old name
  N9   SpaceManager._check_sanity keys spaces by bare name: fails on a.c + c                     (model.py:1535-1549)
"""
import nameslib

EXTRA_MODS = ["Names.Tie"]
TRUSTED = ["Python mirror of the ideal model (harness/nameslib.py Mirror) steers generation and evaluates defect triggers only; "
           "it is never an oracle",
           "derived members are a view in the model (names defined in proper ancestors along MX.C3.Model.mro); the tie compares "
           "the view with space.cells / _own_refs / dir() after every operation"]
ASSUMPTIONS = ["ideal model: every name-clash test looks at ALL sub spaces and add_bases / new_space test the clash for real; the "
               "pinned tree deviates on the triggers listed in the module docstring (recorded as findings, witnesses replayed)",
               "ItemSpaces / parameters are outside the model: the references chain is own > special names > model-level",
               "names are ASCII strings"]


def run(tier, seed, rng):
    return nameslib.run_check("C12", tier, seed, rng)


def replay(data):
    return nameslib.replay_check("C12", data)
