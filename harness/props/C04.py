"""C04 write/read round trip.

Suites
  paths   Base/Paths.v vs core/util.py (abs_to_rel / rel_to_abs)
  serial  (P) on the real library: generated models (harness/c04gen.py) are described, written to a
          directory and a zip archive, read back, chained; describe-before == describe-after, writing
          alters nothing but path, zip members == directory files, cells return the same values
  zipfs   (T) Serial/ZipFS.v + Serial/Layout.v: the recorded sequence of ziputil.write_file calls of the real
          writer == the model's write plan of the described model; pairwise distinct; the DirFS / ZipFS models
          applied to the recorded writes give exactly the directory listing / the archive member list
  codec   (T) Serial/Codec.v: every written __init__.py, parsed with `ast` into abstract statements, equals
          `encode` of the described model, and `decode` of it gives the description back
  lexer   (T) Serial/Lexer.v: lex_triple on generated documentation strings == Python's own reading
Known defects of the pinned tree: triggers avoided by the generator (see c04gen.py), witnesses in
corpus/C04/finding_*.json, ledger lines in findings.d/C04.txt."""
import os, re, json, glob, collections
import fw
import c04gen
from fw import cstr, clist, ctuple, cnat, cN, cbool, copt, Outcome

NAMES = ["a", "b", "S", "S2", "aaa", "x_1", "B"]
CORPUS = os.path.join(fw.VERIF, "corpus", "C04")
EXTRA_MODS = []
TRUSTED = ["CPython: tokenizer/ast/asttokens (formula and statement text), pickle (value fidelity), zipfile, pathlib/os "
           "(modelled by Serial/ZipFS.v only as path -> content maps)",
           "harness: describe() in harness/drivers/serial.py (public API walk) and the ast -> statement abstraction in "
           "harness/c04codec.py"]
ASSUMPTIONS = ["models are built from the generated vocabulary; triggers of recorded defects D24 D33 D36 are avoided (D1 D8 D9 D34 D35 D37 repaired in /repo and generated)",
               "IOSpec-backed references (pandas/Excel files) are not generated (C18)"]


# ==========================================================================
# suite: paths
# ==========================================================================
def gen_paths(rng, n):
    cases = []
    for _ in range(n):
        ns = [rng.choice(NAMES) for _ in range(rng.randint(1, 5))]
        if rng.random() < 0.7:   # share a prefix with the namespace
            k = rng.randint(0, len(ns))
            tg = ns[:k] + [rng.choice(NAMES) for _ in range(rng.randint(0 if k else 1, 3))]
        else:
            tg = [rng.choice(NAMES) for _ in range(rng.randint(1, 5))]
        rel = "." * rng.randint(0, len(ns) + 2) + ".".join(rng.choice(NAMES) for _ in range(rng.randint(0, 3)))
        cases.append({"tg": tg, "ns": ns, "rel": rel})
    return cases


def suite_paths(tier, rng, out):
    n = 400 if tier == "quick" else 6000
    cases = gen_paths(rng, n)
    res = fw.run_driver("paths", cases)
    terms = []
    pfail = []
    for c, r in zip(cases, res):
        if any(v[0] != "ok" for v in r.values()):
            raise fw.Broken("path function raised on %r: %r" % (c, r))
        tgs, nss = ".".join(c["tg"]), ".".join(c["ns"])
        # (P) the round trip on the implementation itself
        if r["r2a"][1] != tgs or r["r2at"][1] != c["tg"]:
            pfail.append({"case": c, "detail": "rel_to_abs(abs_to_rel(tg, ns), ns) != tg: %r" % (r,),
                          "script": "from modelx.core.util import *\ntg,ns=%r,%r\nassert rel_to_abs(abs_to_rel(tg,ns),ns)==tg" % (tgs, nss)})
        t = r["a2rt"][1]
        terms.append(ctuple([
            cstr(tgs), cstr(nss), cstr(c["rel"]),
            cstr(r["a2r"][1]),
            ctuple([cnat(len(t[0])), clist([cstr(x) for x in t[1:]])]),
            cstr(r["r2a_free"][1])]))
    check = ("fun c => match c with (tg, ns, rel, a2r, a2rt, r2af) =>"
             " String.eqb (abs_to_rel tg ns) a2r"
             " && pair_eqb Nat.eqb lstr_eqb (abs_to_rel_tuple (split_dot tg) (split_dot ns)) a2rt"
             " && String.eqb (rel_to_abs rel ns) r2af end")
    bad = fw.run_coq_cases("C04paths", ["Base.Paths"], "string * string * string * string * (nat * list string) * string",
                           check, terms)
    for i in bad:
        out.tie_mismatches.append({"case": cases[i], "impl": res[i],
                                   "detail": "Base/Paths.v and core/util.py disagree",
                                   "model": fw.coq_show("C04paths", ["Base.Paths"],
                                                        "(abs_to_rel %s %s, rel_to_abs %s %s)" % (
                                                            cstr(".".join(cases[i]["tg"])), cstr(".".join(cases[i]["ns"])),
                                                            cstr(cases[i]["rel"]), cstr(".".join(cases[i]["ns"]))))})
    out.p_failures += pfail
    out.evaluations += len(cases)
    out.traces_validated += len(cases) - len(bad)
    distinct = {(tuple(c["tg"]), tuple(c["ns"])) for c in cases if c["tg"][:1] == c["ns"][:1] and c["tg"] != c["ns"]}
    out.distinct_nontrivial += len(distinct)
    out.samples += cases[:2]
    out.distribution["paths"] = {"cases": len(cases), "sharing_a_prefix": len(distinct),
                                 "ns_len": {k: sum(1 for c in cases if len(c["ns"]) == k) for k in range(1, 6)}}


# ==========================================================================
# suite: serial  -- the property oracle (P) on the implementation
# ==========================================================================
def strip(d):
    """drop the dict-order observations (the property speaks about sets of members)"""
    if isinstance(d, dict):
        return {k: strip(v) for k, v in d.items() if not k.endswith("_order")}
    if isinstance(d, list):
        return [strip(x) for x in d]
    return d


def diff(a, b, path=""):
    if type(a) != type(b):
        return [(path, a, b)]
    if isinstance(a, dict):
        o = []
        for k in sorted(set(a) | set(b)):
            if k not in a:
                o.append((path + "/" + k, "<missing>", b[k]))
            elif k not in b:
                o.append((path + "/" + k, a[k], "<missing>"))
            else:
                o += diff(a[k], b[k], path + "/" + k)
        return o
    if isinstance(a, list):
        if len(a) != len(b):
            return [(path, a, b)]
        o = []
        for i, (x, y) in enumerate(zip(a, b)):
            o += diff(x, y, path + "[%d]" % i)
        return o
    return [] if a == b else [(path, a, b)]


def fmt_diff(dd, n=3):
    return "; ".join("%s: %s -> %s" % (p, json.dumps(a)[:160], json.dumps(b)[:160]) for p, a, b in dd[:n])


_IDREF = re.compile(r'\("(Pickle|IOSpec)", (\d+)(?:, (\d+))?\)')


def norm_text(path, text):
    """replace object ids (memory addresses written by the serializer) by first-occurrence indices"""
    table = {}

    def idx(s):
        return "#%d" % table.setdefault(s, len(table))
    if "/_data/" in "/" + path and not path.endswith("__init__.py"):
        return re.sub(r"\b\d+\b", lambda m: idx(m.group(0)), text)
    return _IDREF.sub(lambda m: '("%s", %s)' % (m.group(1), ", ".join(idx(g) for g in m.groups()[1:] if g)), text)


STRUCT_OPS = ("space", "add_bases", "ref", "cells")


def rejected_struct(case, r):
    return [(o["op"], s.split(":")[0]) for o, s in zip(case["ops"], r.get("ops", [])) if s != "ok" and o["op"] in STRUCT_OPS]


def oracle(case, r):
    """the property evaluated on what the implementation did; returns a list of failure texts"""
    f = []
    if "crash" in r:
        return ["driver crashed while building/describing: " + r["crash"][:400]]
    for k, what in (("wdir_err", "write_model raised"), ("wzip_err", "zip_model raised")):
        if k in r:
            f.append("%s: %s" % (what, r[k][:200]))
    dA, dB, dC = strip(r["dA"]), strip(r["dB"]), strip(r["dC"])
    if dA != dB:
        f.append("writing to a directory altered the model: " + fmt_diff(diff(dA, dB)))
    if dB != dC:
        f.append("writing to a zip altered the model: " + fmt_diff(diff(dB, dC)))
    if "wdir_err" not in r and r["path_after_dir"] != r["expect_paths"][0]:
        f.append("model.path after write_model is %r" % r["path_after_dir"])
    if "wzip_err" not in r and r["path_after_zip"] != r["expect_paths"][1]:
        f.append("model.path after zip_model is %r" % r["path_after_zip"])
    d0 = strip(r["d0"])
    for k, what in (("rdir_err", "directory"), ("rzip_err", "zip")):
        if k in r:
            f.append("a model written without error cannot be read back from the %s: %s" % (what, r[k][:200]))
    for k, what in (("d_dir", "read from directory"), ("d_zip", "read from zip"),
                    ("d_dir_after_probe", "read from directory, after evaluating"),
                    ("d_chain_mid", "dir -> zip chain"), ("d_chain", "dir -> zip -> dir chain")):
        if k in r:
            dd = diff(d0, strip(r[k]))
            if dd:
                f.append("description differs (%s): %s" % (what, fmt_diff(dd)))
    if "d_renamed" in r:
        dr = strip(r["d_renamed"])
        if dr.get("name") != "C04renamed":
            f.append("read_model(name=...) gives a model named %r" % dr.get("name"))
        dd = diff(dict(d0, name=None), dict(dr, name=None))
        if dd:
            f.append("description differs (read under another model name): " + fmt_diff(dd))
    for k, what in (("v_dir", "directory"), ("v_zip", "zip"), ("v_chain", "chain"), ("v_renamed", "directory under another name")):
        if k in r and r[k] != r["v0"]:
            bad = [(p, a, b) for p, a, b in zip(case["probes"], r["v0"], r[k]) if a != b]
            f.append("cells return other values after reading from the %s: %s" % (what, json.dumps(bad[:2])[:400]))
    if "ls_dir" in r and "ls_zip" in r:
        a = dict(map(tuple, r["ls_dir"])); b = dict(map(tuple, r["ls_zip"]))
        if len(b) != len(r["ls_zip"]):
            f.append("zip archive has duplicate members")
        if set(a) != set(b):
            f.append("zip members != directory files: only in dir %s, only in zip %s" % (sorted(set(a) - set(b)), sorted(set(b) - set(a))))
        else:
            df = [k for k in a if a[k] != b[k] and not k.endswith(".pickle")]
            if df:
                f.append("zip member content != directory file content: %s" % df)
    if "chain_err" in r:
        f.append("write-read-write chain raised: " + r["chain_err"][:300])
    elif case.get("chain") and "ls_dir" in r and "d_dir" in r:
        # an ItemSpace created by an evaluation makes the writer emit an (empty) _dynamic_inputs file:
        # file sets are compared modulo those cache-dependent empty files
        def core(names_):
            return sorted(x for x in names_ if not x.endswith("/_data/_dynamic_inputs"))
        dyn1 = {p_: t for p_, t in r.get("texts", {}).items() if p_.endswith("/_data/_dynamic_inputs") and t.strip()}
        dyn3 = {p_: t for p_, t in r.get("texts3", {}).items() if p_.endswith("/_data/_dynamic_inputs") and t.strip()}
        if set(dyn1) != set(dyn3):
            f.append("chain: non-empty _dynamic_inputs files differ: %s" % sorted(set(dyn1) ^ set(dyn3)))
        names = core(x[0] for x in r["ls_dir"])
        for k in ("ls_zip2", "ls_dir3"):
            if core(x[0] for x in r.get(k, [])) != names:
                f.append("chain: %s file set differs from the first directory: %s" % (k, sorted(set(core(x[0] for x in r.get(k, []))) ^ set(names))))
        if core(r.get("ls_dir3b", [])) != names:
            f.append("writing twice to the same directory changes the file set")
        t1 = {p: norm_text(p, t) for p, t in r.get("texts", {}).items() if not (p.endswith("/_data/_dynamic_inputs") and not t.strip())}
        t3 = {p: norm_text(p, t) for p, t in r.get("texts3", {}).items() if not (p.endswith("/_data/_dynamic_inputs") and not t.strip())}
        bad = [p for p in sorted(set(t1) | set(t3)) if t1.get(p) != t3.get(p)]
        if bad:
            f.append("chain: text written by the third write differs from the first (ids normalised): %s" % bad[:3])
    return f


def script_of(case):
    return ("# stand-alone reproducer: PYTHONPATH=/repo:/verif/harness python this.py\n"
            "import json, subprocess, sys\ncase = json.loads(%r)\n"
            "p = subprocess.run([sys.executable, '/verif/harness/drivers/serial.py'], input=json.dumps([case]), text=True, capture_output=True)\n"
            "r = json.loads([l for l in p.stdout.splitlines() if l.startswith('@@RESULT ')][0][9:])[0]\n"
            "sys.path.insert(0, '/verif/harness'); from props.C04 import oracle\nprint('\\n'.join(oracle(case, r)) or 'no failure')\n"
            % json.dumps(case))


def load_corpus():
    ws, regress = [], []
    for p in sorted(glob.glob(os.path.join(CORPUS, "*.json"))):
        d = json.load(open(p))
        (ws if os.path.basename(p).startswith("finding_") else regress).append(d)
    return ws, regress


def suite_serial(tier, rng, out, shared):
    n = 260 if tier == "quick" else 5000
    witnesses, regress = load_corpus()
    cases = []
    for i, w in enumerate(witnesses):
        cases.append(dict(w["case"], id="w%d" % i, witness=w["key"]))
    for i, c in enumerate(regress):
        cases.append(dict(c["case"], id="r%d" % i))
    nfix = len(cases)
    filt = collections.Counter()
    for i in range(n):
        c = c04gen.gen_case(rng, i, avoid=True, big=(tier != "quick" and i % 3 == 0))
        for k, v in c["filtered"].items():
            filt[k] += v
        c["lex"] = [rng.choice(c04gen.SAFE_DOCS + c04gen.UNSAFE_DOCS) for _ in range(2)] + [c04gen.random_doc(rng) for _ in range(6)]
        cases.append(c)
    res = fw.run_driver("serial", cases, chunk=max(1, min(40, (len(cases) + fw.JOBS - 1) // fw.JOBS)))
    shared["cases"], shared["res"], shared["nfix"] = cases, res, nfix
    # ---- witnesses of recorded defects
    texts = {w["key"]: w["text"] for w in witnesses}
    for c, r in zip(cases[:len(witnesses)], res[:len(witnesses)]):
        fails = oracle(c, r)
        fw.witness_result(out, "C04", c["witness"], bool(fails), texts[c["witness"]],
                          {"case": c, "detail0": fails[:2], "script": script_of(c)})
    # ---- corpus regressions + generated cases
    seen = set()
    feat = collections.Counter()
    ok_cases = []
    nrej = 0
    for c, r in zip(cases[len(witnesses):], res[len(witnesses):]):
        rej = rejected_struct(c, r)
        if rej:
            nrej += 1            # a rejected edit may leave a half-applied state (C11); not a C04 case
            continue
        fails = oracle(c, r)
        out.evaluations += 1
        for ft in c.get("features", []):
            feat[ft] += 1
        key = c04gen.canonical_key(c)
        nontrivial = len(c["ops"]) >= 4 and any(o["op"] in ("cells", "ref") for o in c["ops"]) and "d_dir" in r and "d_zip" in r
        if nontrivial and key not in seen:
            seen.add(key)
            out.distinct_nontrivial += 1
        if fails:
            out.p_failures.append({"case": c, "detail": " | ".join(fails)[:1500], "script": script_of(c)})
        else:
            ok_cases.append((c, r))
    shared["ok"] = ok_cases
    out.samples.append({"ops": cases[len(witnesses) + len(regress)]["ops"][:8], "probes": cases[len(witnesses) + len(regress)]["probes"][:3]})
    out.distribution["serial"] = {"generated": n, "witnesses": len(witnesses), "corpus": len(regress),
                                  "skipped_rejected_edit": nrej, "features": dict(sorted(feat.items())),
                                  "chains": sum(1 for c in cases if c.get("chain")),
                                  "defect_triggers_avoided": dict(filt),
                                  "ops_per_case": round(sum(len(c["ops"]) for c in cases) / max(1, len(cases)), 1)}
    out.notes.append("serial: generator avoids the triggers of D24 D33 D36 (D37 counted only; counts in distribution.serial."
                     "defect_triggers_avoided); %d generated cases skipped because an edit was rejected while building" % nrej)


# ==========================================================================
# suite: zipfs -- (T) Serial/ZipFS.v + Serial/Layout.v against the recorded writes
# ==========================================================================
def cpath(p):
    return clist([cstr(x) for x in p.split("/")])


def layout_of(d):
    """the writer-relevant abstraction of a description (taken with caches, at write time)"""
    pick = [False]

    def ref_pickled(rd):
        return rd["value"][0] not in ("lit", "obj", "module")

    def dyn_has_inputs(items):
        return bool(items)

    def space(name, sd):
        ins = [c for c in sd["cells_order"] if not sd["cells"][c]["derived"] and sd["cells"][c]["inputs"]]
        if ins or dyn_has_inputs(sd["items"]):
            pick[0] = True
        if any(ref_pickled(rd) for rd in sd["refs"].values() if not rd["derived"]):
            pick[0] = True
        ch = [space(n, sd["spaces"][n]) for n in sd["spaces_order"]]
        return "(SpaceL %s %s %s %s)" % (cstr(name), clist([cstr(c) for c in ins]), cbool(sd["n_items"] > 0), clist(ch))
    if any(ref_pickled(rd) for rd in d["refs"].values()):
        pick[0] = True
    sps = [space(n, d["spaces"][n]) for n in d["spaces_order"]]
    return clist(sps), cbool(pick[0])


def suite_zipfs(tier, rng, out, shared):
    terms, idx = [], []
    for c, r in shared["ok"]:
        if "ls_dir" not in r or "ls_zip" not in r:
            continue
        table = {}

        def cid(h):
            return cN(table.setdefault(h, len(table) + 1))
        sp, pk = layout_of(r["dB"])
        wd = clist([ctuple([cpath(e["path"]), cid(e["h"])]) for e in r["log_dir"]])
        wz = clist([ctuple([cpath(e["path"]), cid(e["h"])]) for e in r["log_zip"]])
        ld = clist([ctuple([cpath(p), cid(h)]) for p, h in r["ls_dir"]])
        lz = clist([ctuple([cpath(p), cid(h)]) for p, h in r["ls_zip"]])
        terms.append(ctuple([sp, pk, wd, wz, ld, lz]))
        idx.append((c, r))
    bad = fw.run_coq_cases("C04zipfs", ["Serial.ZipFS", "Serial.Layout"], "layout_case", "check_layout", terms, shard=120)
    for i in bad:
        c, r = idx[i]
        out.tie_mismatches.append({"case": c, "detail": "Serial/Layout.v write plan / ZipFS.v file maps disagree with the recorded writes "
                                   "of ziputil.write_file or with the listings",
                                   "impl": {"log_dir": [e["path"] for e in r["log_dir"]], "log_zip": [e["path"] for e in r["log_zip"]],
                                            "ls_dir": [p for p, _ in r["ls_dir"]], "ls_zip": [p for p, _ in r["ls_zip"]]},
                                   "model": fw.coq_show("C04zipfs", ["Serial.ZipFS", "Serial.Layout"],
                                                        "write_plan %s %s" % layout_of(r["dB"]))[-1500:]})
    out.traces_validated += len(terms) - len(bad)
    out.distribution["zipfs"] = {"cases": len(terms), "writes": sum(len(r["log_dir"]) for _, r in idx),
                                 "with_data_files": sum(1 for _, r in idx if any("/_data/" in e["path"] for e in r["log_dir"]))}


# ==========================================================================
# suite: codec -- (T) Serial/Codec.v against the written __init__.py files
# ==========================================================================
def suite_codec(tier, rng, out, shared):
    import c04codec
    terms, idx = [], []
    skipped = 0
    for c, r in shared["ok"]:
        if "texts" not in r:
            continue
        try:
            terms.append(c04codec.case_term(r["d0"], r["texts"]))
            idx.append((c, r))
        except (c04codec.Abstraction, SyntaxError, KeyError) as e:
            # a written file outside the statement vocabulary: the model does not describe the code
            out.tie_mismatches.append({"case": c, "detail": "written __init__.py cannot be abstracted into Codec.v statements: %r" % (e,)})
    bad = fw.run_coq_cases("C04codec", ["Base.Paths", "Serial.Codec"], "modelD * (list line * list ftree)", "check_codec", terms, shard=60)
    for i in bad:
        c, r = idx[i]
        out.tie_mismatches.append({"case": c, "detail": "Serial/Codec.v: encode(description) differs from the statements of the written "
                                   "__init__.py files, or decode of the written files does not re-encode to them",
                                   "impl": {k: v for k, v in r["texts"].items() if k.endswith("__init__.py")},
                                   "model": fw.coq_show("C04codec", ["Base.Paths", "Serial.Codec"],
                                                        "let c := %s in (wf_model (fst c), encode (fst c), decode (snd c))" % terms[i])[-3000:]})
    out.traces_validated += len(terms) - len(bad)
    out.distribution["codec"] = {"cases": len(terms), "files": sum(sum(1 for k in r["texts"] if k.endswith("__init__.py")) for _, r in idx)}


# ==========================================================================
# suite: lexer -- (T) Serial/Lexer.v against Python's own reading of """doc"""
# ==========================================================================
def suite_lexer(tier, rng, out, shared):
    terms, docs = [], []
    seen = set()
    for c, r in zip(shared["cases"], shared["res"]):
        for d, py in zip(c.get("lex", []), r.get("lex", [])):
            if d in seen or py[0] == "other":
                continue
            seen.add(d)
            docs.append((d, py))
            try:
                terms.append(ctuple([cstr(d), copt(cstr(py[1]) if py[0] == "ok" else None)]))
            except UnicodeEncodeError:      # lone surrogate produced by an escape: outside the byte model
                docs.pop()
    bad = fw.run_coq_cases("C04lexer", ["Serial.Lexer"], "string * option string", "check_lex", terms, shard=400)
    for i in bad:
        d, py = docs[i]
        out.tie_mismatches.append({"case": {"doc": d}, "impl": py,
                                   "detail": "Serial/Lexer.v lex_triple / safe_doc disagree with ast.literal_eval on a triple-quoted literal",
                                   "model": fw.coq_show("C04lexer", ["Serial.Lexer"], "(lex_triple (q3 ++ %s ++ q3), safe_doc %s)" % (cstr(d), cstr(d)))[-800:]})
    out.traces_validated += len(terms) - len(bad)
    out.evaluations += len(terms)
    nsafe = sum(1 for d, _ in docs if c04gen.safe_doc(d))
    out.distribution["lexer"] = {"docs": len(terms), "safe": nsafe, "python_rejects": sum(1 for _, p in docs if p[0] == "err"),
                                 "altered": sum(1 for d, p in docs if p[0] == "ok" and p[1] != d)}
    # (P) the harness predicate used by the generator is the exact condition on these samples
    for d, py in docs:
        if c04gen.safe_doc(d) and not (py[0] == "ok" and py[1] == d):
            out.p_failures.append({"case": {"doc": d}, "detail": "a safe documentation string is not read back unchanged by Python: %r -> %r" % (d, py),
                                   "script": "import ast\nd=%r\nassert ast.literal_eval('\"\"\"'+d+'\"\"\"')==d" % d})


# ==========================================================================
def run(tier, seed, rng):
    out = Outcome()
    out.rule = ("paths: random (target, namespace, relative name) triples over a name pool with string-prefix pairs; "
                "non-trivial = target shares a proper prefix with the namespace; distinct by (target, namespace). "
                "serial: random model-building programs (spaces nested <= 3, bases at other levels, lambda/def cells, flags, docs, "
                "literal/pickled/object references in 3 modes, inputs, ItemSpace inputs); non-trivial = >= 4 edits with a cells or "
                "reference and both containers read back; distinct by the program text")
    suite_paths(tier, rng, out)
    shared = {}
    suite_serial(tier, rng, out, shared)
    for name in ("suite_zipfs", "suite_codec", "suite_lexer"):
        fn = globals().get(name)
        if fn:
            fn(tier, rng, out, shared)
    return out


def replay(data):
    case = data.get("case")
    if not case or "ops" not in case:
        print(json.dumps(data, indent=1)[:3000])
        return 0
    r = fw.run_driver("serial", [case])[0]
    fails = oracle(case, r)
    print("\n".join(fails) or "no failure")
    return 1 if fails else 0
