"""C04 write/read round trip.
Suites: paths (Base/Paths.v vs core/util.py) ; serial (added below when built)."""
import fw
from fw import cstr, clist, ctuple, cnat, Outcome

NAMES = ["a", "b", "S", "S2", "aaa", "x_1", "B"]


def gen_paths(rng, n):
    cases = []
    for _ in range(n):
        ns = [rng.choice(NAMES) for _ in range(rng.randint(1, 5))]
        if rng.random() < 0.7:   # share a prefix with the namespace
            k = rng.randint(0, len(ns))
            tg = ns[:k] + [rng.choice(NAMES) for _ in range(rng.randint(0 if k else 1, 3))]
        else:
            tg = [rng.choice(NAMES) for _ in range(rng.randint(1, 5))]
        rel = "." * rng.randint(0, len(ns) + 2) + ".".join(rng.choice(NAMES) for _ in range(rng.randint(0, 3)))
        cases.append({"tg": tg, "ns": ns, "rel": rel})
    return cases


def suite_paths(tier, rng, out):
    n = 400 if tier == "quick" else 6000
    cases = gen_paths(rng, n)
    res = fw.run_driver("paths", cases)
    terms = []
    pfail = []
    for c, r in zip(cases, res):
        if any(v[0] != "ok" for v in r.values()):
            raise fw.Broken("path function raised on %r: %r" % (c, r))
        tgs, nss = ".".join(c["tg"]), ".".join(c["ns"])
        # (P) the round trip on the implementation itself
        if r["r2a"][1] != tgs or r["r2at"][1] != c["tg"]:
            pfail.append({"case": c, "detail": "rel_to_abs(abs_to_rel(tg, ns), ns) != tg: %r" % (r,),
                          "script": "from modelx.core.util import *\ntg,ns=%r,%r\nassert rel_to_abs(abs_to_rel(tg,ns),ns)==tg" % (tgs, nss)})
        t = r["a2rt"][1]
        terms.append(ctuple([
            cstr(tgs), cstr(nss), cstr(c["rel"]),
            cstr(r["a2r"][1]),
            ctuple([cnat(len(t[0])), clist([cstr(x) for x in t[1:]])]),
            cstr(r["r2a_free"][1])]))
    check = ("fun c => match c with (tg, ns, rel, a2r, a2rt, r2af) =>"
             " String.eqb (abs_to_rel tg ns) a2r"
             " && pair_eqb Nat.eqb lstr_eqb (abs_to_rel_tuple (split_dot tg) (split_dot ns)) a2rt"
             " && String.eqb (rel_to_abs rel ns) r2af end")
    bad = fw.run_coq_cases("C04paths", ["Base.Paths"], "string * string * string * string * (nat * list string) * string",
                           check, terms)
    for i in bad:
        out.tie_mismatches.append({"case": cases[i], "impl": res[i],
                                   "detail": "Base/Paths.v and core/util.py disagree",
                                   "model": fw.coq_show("C04paths", ["Base.Paths"],
                                                        "(abs_to_rel %s %s, rel_to_abs %s %s)" % (
                                                            cstr(".".join(cases[i]["tg"])), cstr(".".join(cases[i]["ns"])),
                                                            cstr(cases[i]["rel"]), cstr(".".join(cases[i]["ns"]))))})
    out.p_failures += pfail
    out.evaluations += len(cases)
    out.traces_validated += len(cases) - len(bad)
    distinct = {(tuple(c["tg"]), tuple(c["ns"])) for c in cases if c["tg"][:1] == c["ns"][:1] and c["tg"] != c["ns"]}
    out.distinct_nontrivial += len(distinct)
    out.samples += cases[:2]
    out.distribution["paths"] = {"cases": len(cases), "sharing_a_prefix": len(distinct),
                                 "ns_len": {k: sum(1 for c in cases if len(c["ns"]) == k) for k in range(1, 6)}}


def run(tier, seed, rng):
    out = Outcome()
    out.rule = ("paths: random (target, namespace, relative name) triples over a name pool with string-prefix pairs; "
                "non-trivial = target shares a proper prefix with the namespace; distinct by (target, namespace)")
    suite_paths(tier, rng, out)
    return out


def replay(data):
    print(data)
    return 0
