"""C01 memoisation is transparent — tie of Exec/Model.v + oracle; see execprops.py"""
import execprops as E

EXTRA_MODS = ["Exec.Check"]
ORACLES = [E.oracle_spec_values]
ASSUMPTIONS = ["formula vocabulary of Exec/Model.v (integers/None, calls, references by name/attribute, conditional, try/except, try/finally, raising expressions)",
               "CPython evaluation order, inspect.Signature.bind, traceback line numbers are modelled, exercised by the correspondence"]


def run(tier, seed, rng):
    return E.run_exec_property("C01", tier, rng, 150, 3000, {'p_fin_world': 0.2, 'alt': [(0.3, {'p_none': 0.3, 'p_allow_none': 0.8, 'p_raise': 0.02})], 'p_ref': 0.35}, {'eval': 10, 'setref': 1, 'clearat': 1}, (8, 30), ORACLES,
        'random worlds (1-3 spaces, 3-8 cells, 0-2 parameters with defaults, cached/uncached, references by name and by attribute path, guarded recursion, try/except, raising expressions, None; 30% of the worlds with mostly None-allowing cells and frequent None results: held None values must be served as hits) and 8-30 top-level evaluations in random spellings (call, keywords, defaults, subscription, .value)' + "; non-trivial = at least one cache hit and one evaluation running several formulas; distinct by JSON of the case",
        lambda c, r: any(not ob['log'] and ob['out'][0]=='val' for ob in r['obs']) and any(len(ob['log'])>1 for ob in r['obs']), diff=None)


def replay(data):
    return E.replay_exec("C01", data, ORACLES)
