"""C20 Formula capture is faithful and idempotent; rename and doc edits are inert.

(T) tie: Capture/Model.v (dedent, splitlines/join, remove_decorator, replace_funcname,
    replace_docstring, lambda extraction; token positions are inputs, cross-checked with
    asttokens) evaluated by vm_compute on the very texts modelx worked on, and
    Capture/Texts.v (structured texts, positions by construction, canonical form);
    nested decorated defs (decorators that must SURVIVE capture and every edit) are ordinary
    body lines of the structured text: c20gen.DefGen.nested_decorated;
(P) oracle on the implementation: values / parameters equal the plain Python function,
    stored source is self-contained and AST-equal to the definition, recreation from the
    stored source is a fixed point, rename / doc change only the name token / docstring.

Known defects of the pinned tree whose triggers the generator avoids (witnesses in
corpus/C20/finding_*.json are replayed on every run):
  (D30 oneline_doc, set_doc on a one-line body without docstring, is repaired in /repo and generated again)
  D31 doc_quote       documentation ending in '"', containing '\"\"\"' or a backslash (trigger: not safe_doc(d))
  (D32 splitlines_ff, form feed etc. inside string literals, is repaired in /repo and generated again; CR is not generated:
   it is a line boundary for the tokenizer too and the model knows LF only)
  D33 dedent_literal  multi-line string literal in an indented definition / with blank-only lines (trigger: such a literal)
  D10 defcells_flags  @defcells(space=, is_cached=) on an existing cells     (trigger: never generated)
"""
import os, json, ast, io, tokenize, textwrap, glob, inspect
import fw
from fw import Outcome, cnat, cN, cbool, clist, ctuple, copt
import c20gen as G

EXTRA_MODS = ["Capture.Tie"]
TRUSTED = ["CPython tokenizer/compiler, ast + asttokens token positions, textwrap.dedent, inspect.getsource/findsource: "
           "modelled-not-verified; positions are inputs of the model and compared with the ones the structured text has by construction",
           "behavioural half of C20 (a cells computes what the plain function computes) rests on the (P) oracle, not on a theorem"]
ASSUMPTIONS = ["texts are compared as UTF-8 bytes (the harness converts the character offsets asttokens reports); the only line boundary is LF (D32)",
               "theorems quantify over well-formed structured texts (Capture/Texts.v wf_ftext / wf_ltext / safe_doc)"]

CORPUS = os.path.join(fw.VERIF, "corpus", "C20")
D32_CHARS = "\r"     # D32 is repaired in /repo: only CR (a line boundary of the tokenizer too; the model knows LF only) stays out


# ---- Coq emission ---------------------------------------------------------------
def cs(s):
    """a Python str (ASCII) as a Coq string term"""
    if all(32 <= ord(ch) < 127 for ch in s):
        return '"%s"%%string' % s.replace('"', '""')
    if "\n" in s and all(32 <= ord(ch) < 127 or ch == "\n" for ch in s):
        return "(jn [%s])" % "; ".join('"%s"%%string' % l.replace('"', '""') for l in s.split("\n"))
    b = s.encode("utf-8")
    return "(sb [%s])" % "; ".join("%d%%N" % c for c in b)


def clines(ls):
    return clist(["(%s, %s)" % (cbool(l[0]), cs(l[1])) for l in ls])


def cft(t):
    return "(mk_ft %s %s %s %s %s %s %s %s %s)" % (
        cs(t["ind"]), clines(t["lead"]), clines(t["deco"]), clines(t["mid"]), cs(t["defws"]),
        cs(t["name"]), cs(t["sig"]), clines(t["rest"]), cbool(t["eofnl"]))


def cpos3(p):
    return "(%s, %s, %s)" % (cnat(p[0]), cnat(p[1]), cnat(p[2]))


def cpos2o(p):
    return "None" if p is None else "(Some (%s, %s))" % (cnat(p[0]), cnat(p[1]))


def csopt(s):
    return "None" if s is None else "(Some %s)" % cs(s)


# ---- independent helpers for the (P) oracle -----------------------------------------
def comments_of(text):
    out = []
    try:
        for tok in tokenize.generate_tokens(io.StringIO(text).readline):
            if tok.type == tokenize.COMMENT:
                out.append(tok.string)
    except (tokenize.TokenError, IndentationError):
        return None
    return out


def fdef_node(text):
    mod = ast.parse(text)
    assert len(mod.body) == 1 and isinstance(mod.body[0], ast.FunctionDef)
    return mod.body[0]


def dump_def(text, drop_name=False, drop_doc=False, drop_deco=False):
    n = fdef_node(text)
    if drop_name:
        n.name = "_"
    if drop_deco:
        n.decorator_list = []
    if drop_doc and n.body and isinstance(n.body[0], ast.Expr) and isinstance(n.body[0].value, ast.Constant) \
            and isinstance(n.body[0].value.value, str):
        n.body = n.body[1:] or [ast.Pass()]
    return ast.dump(n)


def name_token_offset(text):
    """offset of the token after the first 'def' keyword (tokenize, not asttokens)"""
    lines = text.split("\n")
    toks = list(tokenize.generate_tokens(io.StringIO(text).readline))
    for i, tk in enumerate(toks):
        if tk.type == tokenize.NAME and tk.string == "def":
            nt = toks[i + 1]
            off = sum(len(l) + 1 for l in lines[:nt.start[0] - 1]) + nt.start[1]
            return off, nt.string
    return None


def exec_values(source, fname, globs, argsets, is_lambda=False):
    ns = dict(globs)
    exec(G_OTHER, ns)
    try:
        if is_lambda:
            f = eval(source, ns)
        else:
            exec(source, ns)
            f = ns[fname]
    except Exception as e:
        return "exec failed: %s: %s" % (type(e).__name__, e)
    out = []
    for a in argsets:
        try:
            out.append(["ok", repr(f(*a))])
        except Exception as e:
            out.append(["err", type(e).__name__])
    return out


G_OTHER = "def other(v):\n    return v * 2 + 1\n"


def ft_from_source(src, row_def, defws, name):
    """generic structured text of a stored (canonical) source"""
    lines = src[:-1].split("\n") if src.endswith("\n") else src.split("\n")
    sl = lambda l: [bool(l.strip(" \t")), l]
    head = "def" + defws + name
    if row_def >= len(lines) or not lines[row_def].startswith(head):
        return None
    dl = lines[row_def]
    return {"ind": "", "lead": [sl(l) for l in lines[:row_def]], "deco": [], "mid": [], "defws": defws, "name": name,
            "sig": dl[len(head):], "rest": [sl(l) for l in lines[row_def + 1:]], "eofnl": src.endswith("\n")}


def is_valid_name(n):
    import keyword
    return n.isidentifier() and not keyword.iskeyword(n) and not n.startswith("_")


# ---- case construction -----------------------------------------------------------------
def gen_ops(rng, has_doc, oneline, cur_name, stats, is_lambda=False, text=""):
    ops = []
    # CPython 3.12.1's tokenizer reports the END column of a string token that spans several lines short by the number
    # of extra UTF-8 bytes on the token's FIRST line ('é' before a multi-line docstring on the def line: (2, 25) instead
    # of (2, 26)); asttokens and replace_docstring take the position from it.  Not modelx: a one-line definition that
    # holds non-ASCII text gets no documentation with a line break (which would create exactly that layout)
    tok_bug = oneline and any(ord(ch) > 127 for ch in text)
    if rng.random() < 0.8:
        ops.append({"op": "recreate"})
    for _ in range(rng.choice([0, 1, 1, 2, 3])):
        k = rng.random()
        if k < 0.4:
            nn = rng.choice([n for n in G.NEWNAMES if n != cur_name])
            ops.append({"op": "rename", "name": nn, "bystanders": rng.random() < 0.5})
            cur_name = nn
        elif k < 0.9:
            d = rng.choice(G.SAFE_DOCS + G.UNSAFE_DOCS[:2]) if rng.random() < 0.9 else rng.choice(G.UNSAFE_DOCS)
            if not is_lambda:
                if not G.safe_doc(d):
                    stats["filtered_D31_unsafe_doc"] += 1
                    continue
                if tok_bug and "\n" in d:
                    stats["filtered_cpython_tokenizer_multiline_string_end"] = stats.get("filtered_cpython_tokenizer_multiline_string_end", 0) + 1
                    continue
                if oneline and not has_doc:      # D30 is repaired in /repo: generated again
                    stats["oneline_doc_edits_without_docstring"] = stats.get("oneline_doc_edits_without_docstring", 0) + 1
            ops.append({"op": "doc", "doc": d, "ins": (not is_lambda) and rng.random() < 0.2,
                        "via": rng.choice(["prop", "method"])})
            if ops[-1]["ins"]:
                ops[-1]["via"] = "method"
            has_doc = True
        else:
            ops.append({"op": "recreate"})
    return ops


def gen_redefine(rng, cur_name, stats):
    """@mx.defcells (no is_cached: D10) on a new def named like the existing cells"""
    while True:
        g = G.DefGen(rng, "deco")
        t, info = g.generate()
        if info["deco_variant"] not in ("plain", "call_empty"):
            continue
        if any(ch in G.render(t) for ch in D32_CHARS) or ("multiline_string" in g.feat and t["ind"]):
            continue
        break
    t["name"] = cur_name
    text = G.render(t)
    nl = "" if text.endswith("\n") else "\n"
    body = ("if True:\n" + text + nl + t["ind"] + "zz_ = 1\n") if t["ind"] else (text + nl + "ZZ_ = 1\n")
    return {"op": "redefine", "t": t, "info": {k: v for k, v in info.items() if k != "params"}, "file_body": body,
            "getter": cur_name, "plain": G.plain_text(t), "plain_name": cur_name, "args": g.sample_args(info["params"]),
            "feat": sorted(g.feat)}


def build_def_case(rng, mode, stats):
    while True:
        g = G.DefGen(rng, mode)
        t, info = g.generate()
        text = G.render(t)
        if any(ch in text for ch in D32_CHARS):
            stats["filtered_D32_linebreak_char"] += 1
            continue
        if "multiline_string" in g.feat and t["ind"]:
            stats["filtered_D33_literal_in_indented_text"] += 1
            continue
        break
    case = {"kind": "def", "mode": mode, "t": t, "info": {k: v for k, v in info.items() if k != "params"},
            "globals": {"g1": rng.randint(-2, 9), "g2": rng.randint(1, 5)},
            "args": g.sample_args(info["params"]), "plain": G.plain_text(t), "plain_name": t["name"],
            "feat": sorted(g.feat)}
    name = None
    if mode != "deco" and rng.random() < 0.4:
        name = rng.choice(G.NEWNAMES)
    case["name"] = name
    nl = "" if text.endswith("\n") else "\n"
    if mode == "source":
        case["text"] = text
    elif mode == "func":
        if t["ind"]:
            case["file_body"] = "class Host:\n" + text + nl + t["ind"] + "zz_ = 1\n"
            case["getter"] = "Host.__dict__[%r]" % t["name"]
        else:
            case["file_body"] = text + nl + "ZZ_ = 1\n"
            case["getter"] = t["name"]
    else:
        if t["ind"]:
            case["file_body"] = "if True:\n" + text + nl + t["ind"] + "zz_ = 1\n"
        else:
            case["file_body"] = text + nl + "ZZ_ = 1\n"
        case["getter"] = t["name"]
        name = info.get("given_name")
    has_doc = bool(info.get("doc_lit")) if info["oneline"] else bool(info.get("doc_nlines"))
    case["ops"] = gen_ops(rng, has_doc, info["oneline"], name or t["name"], stats, text=text)
    cur = name or t["name"]
    for o in case["ops"]:
        if o["op"] == "rename":
            cur = o["name"]
    if is_valid_name(cur) and rng.random() < 0.25:
        case["ops"].append(gen_redefine(rng, cur, stats))
        i2 = case["ops"][-1]["info"]
        hd = bool(i2.get("doc_lit")) if i2["oneline"] else bool(i2.get("doc_nlines"))
        case["ops"] += [o for o in gen_ops(rng, hd, i2["oneline"], cur, stats, text=case["ops"][-1]["file_body"]) if o["op"] != "rename"][:2]
    return case


# embeddings with a SIBLING lambda on the line of the wanted one (recorded finding D35 lambda_same_line: such a lambda
# object is REFUSED with "more than 1 lambda expressions found"; what must never happen is that another lambda of the
# line is captured instead - seeded/C20_r4): refusal is accepted for these cases, a capture must be faithful
LAM_EMBED_SIBLING = [("L0_, L_ = lambda q_: q_ - 7, ", ""), ("L_, L1_ = ", ", lambda q_: q_ - 7"),
                     ("L_ = dict(low=lambda q_: 0, high=", ")['high']"), ("L_ = [lambda: 5, ", "][1]"),
                     ("L_ = (lambda q_: (", "))(0)")]
LAM_EMBED_FUNC = [("L_ = ", ""), ("L_ = (", ")"), ("L_ = grab(", ", 3)"), ("L_ = [1, ", "][1]"), ("L_ = {'k': ", "}['k']"),
                  ("L_ = ", "  # comment"), ("L_ = ", "; z_ = 1"), ("L_ = grab(k=1, f=", ")"), ("L_ = grab( ", " )"),
                  ("z_ = 'lambda: 0'; L_ = ", "")]


def build_lam_case(rng, mode, stats):
    while True:
        L = G.gen_lambda(rng, mode)
        if mode == "func" and L["lam"].count("lambda") > 1:
            stats["filtered_D35_two_lambdas_on_a_line"] += 1
            continue
        break
    ind = rng.choice(["", "", "    ", "\t", "  "])
    case = {"kind": "lam", "mode": mode, "globals": {"g1": rng.randint(-2, 9), "g2": rng.randint(1, 5)},
            "args": L["args"], "lam": L["lam"], "name": rng.choice(G.NAMES[:8] + G.NEWNAMES),
            "feat": sorted(L["feat"] | ({"indented"} if ind else set())), "multiline": L["multiline"]}
    if not is_valid_name(case["name"]):
        case["name"] = "lam_1"
    if mode == "source":
        before = []
        for _ in range(rng.choice([0, 0, 1, 2])):
            before.append([True, rng.choice(G.COMMENTS)] if rng.random() < 0.7 else [False, rng.choice(["", "   "])])
        eofnl = rng.random() < 0.5
        lam = L["lam"]
        if L["multiline"]:
            # continuation lines carry the indentation of the statement
            lam_r = lam.replace("\n", "\n" + ind)
            text = "\n".join(G.rline(ind, l) for l in before + [[True, L["pre"] + lam_r + L["post"]]]) + ("\n" if eofnl else "")
            case["lt"] = None
            case["lam_expected"] = lam   # dedent strips [ind] from the continuation lines again
        else:
            lt = {"ind": ind, "before": before, "pre": L["pre"], "lam": lam, "post": L["post"], "eofnl": eofnl}
            text = "\n".join(G.rline(ind, l) for l in before + [[True, L["pre"] + lam + L["post"]]]) + ("\n" if eofnl else "")
            case["lt"] = lt
            case["lam_expected"] = lam
        case["text"] = text
    else:
        pre, post = rng.choice(LAM_EMBED_FUNC)
        if rng.random() < 0.12 and not L["multiline"]:
            pre, post = rng.choice(LAM_EMBED_SIBLING)
            case["sibling_lambda"] = True
        lam = L["lam"]
        if ind:
            lam_r = lam.replace("\n", "\n" + ind)
            case["file_body"] = "if True:\n" + ind + pre + lam_r + post + "\n" + ind + "zz_ = 1\n"
            case["lam_expected"] = lam_r      # no dedent on this path: the text of the file is kept
        else:
            case["file_body"] = pre + lam + post + "\nZZ_ = 1\n"
            case["lam_expected"] = lam
        case["getter"] = "L_"
        case["lt"] = None
    case["ops"] = gen_ops(rng, False, False, case["name"], stats, is_lambda=True)
    return case


# ---- analysis of one result: Coq terms for (T), failures for (P) ---------------------------
def script_of(case):
    c = {k: v for k, v in case.items() if k not in ("t", "info", "feat", "lt")}
    c["ops"] = [{k: v for k, v in o.items() if k not in ("t", "info", "feat")} for o in case["ops"]]
    return ("# stand-alone reproducer: feeds this case to the C20 driver\n"
            "import json, subprocess, os\ncase = json.loads(%r)\n"
            "env = dict(os.environ, PYTHONPATH=os.environ.get('MODELX_REPO', '/repo'))\n"
            "p = subprocess.run(['/venv/bin/python', '/verif/harness/drivers/capture.py'], input=json.dumps([case]), text=True, capture_output=True, env=env)\n"
            "print(p.stdout[-4000:], p.stderr[-2000:])\n" % json.dumps(c))


def analyse(case, res, terms, out):
    """appends (case_index_label, term) to terms and (P) failures to out.p_failures; returns #violations"""
    fails = []

    def pf(detail):
        fails.append(detail)

    if "driver_err" in res or "plain_err" in res:
        raise fw.Broken("harness problem on case %r: %r" % (case.get("text") or case.get("file_body"), res))
    if "create_err" in res:
        if case.get("sibling_lambda") and "more than 1 lambda" in res["create_err"]:
            return fails            # D35 (recorded): refused, nothing captured
        pf("creation of a cells from a valid definition failed: %s" % res["create_err"])
        return fails
    if "pos_err" in res:
        raise fw.Broken("position lookup failed: %r" % res)
    cr = res["created"]
    if "snap_err" in cr:
        pf("cannot observe created cells: %s" % cr["snap_err"])
        return fails
    is_lambda = case["kind"] == "lam"
    globs, argsets = case["globals"], case["args"]
    exp = res["expected"]
    if any(v[0] != "ok" for v in exp):
        raise fw.Broken("generator produced a function that raises: %r %r" % (case.get("plain") or case.get("lam"), exp))
    label = {"case": case.get("text") or case.get("file_body"), "mode": case["mode"]}

    cur = {"exp": exp, "params": res["expected_params"], "sig": res.get("expected_sig")}

    def behaviour(snap, what):
        if snap.get("values") != cur["exp"]:
            pf("%s: values differ from the plain function: %r vs %r" % (what, snap.get("values"), cur["exp"]))
        if snap.get("params") != cur["params"]:
            pf("%s: parameters %r != %r" % (what, snap.get("params"), cur["params"]))
        if cur["sig"] is not None and snap.get("sig") != cur["sig"]:
            # kinds, defaults and the annotation OBJECTS of the captured function (an annotation that became a string
            # means the definition was compiled under other compiler flags than the text says)
            pf("%s: signature/annotations of the captured function %r != those of the plain function %r"
               % (what, snap.get("sig"), cur["sig"]))

    if not is_lambda:
        t = case["t"]
        info = case["info"]
        if case["mode"] == "deco":
            want = info.get("given_name") or t["name"]
        else:
            want = case["name"] or t["name"]
        name = cr["name"]
        if is_valid_name(want) and name != want:
            pf("cells name %r, expected %r" % (name, want))
        if case["mode"] == "deco" and cr["cached"] != (not info.get("uncached", False)):
            pf("is_cached %r after decorator variant %s" % (cr["cached"], info.get("deco_variant")))
        dp = res["defpos"]
        terms.append((label, "(TDef %s (Some %s) %s %s %s %s %s)" % (
            cft(t), cs(name), cs(res["raw"]), cs(dp["dedent"]), cpos2o(dp["deco"]), cpos3(dp["npos"]), cs(cr["source"]))))
        if "formula_none" in res:
            terms.append((dict(label, op="Formula(text)"), "(TDef %s None %s %s %s %s %s)" % (
                cft(t), cs(res["raw"]), cs(dp["dedent"]), cpos2o(dp["deco"]), cpos3(dp["npos"]), cs(res["formula_none"]))))
        behaviour(cr, "created")
        if "direct" in res and res["direct"] != exp:
            raise fw.Broken("function object and plain text disagree: %r" % (case,))
        src = cr["source"]
        # self-contained definition of the same function under the cells' name
        ev = exec_values(src, name, globs, argsets)
        if ev != exp:
            pf("stored source is not a self-contained definition of the function: %r vs %r" % (ev, exp))
        try:
            if fdef_node(src).name != name:
                pf("stored definition is named %r, cells %r" % (fdef_node(src).name, name))
            if dump_def(src, drop_name=True) != dump_def(case["plain"], drop_name=True):
                pf("stored source is not AST-equal to the definition")
        except (SyntaxError, AssertionError) as e:
            pf("stored source does not parse as one def: %s" % e)
        dd = textwrap.dedent(res["raw"])
        allc = comments_of(dd)
        if dp["deco"] and allc is not None:
            # comments inside the decorator region are dropped with it
            keep = []
            for tok in tokenize.generate_tokens(io.StringIO(dd).readline):
                if tok.type == tokenize.COMMENT and not (dp["deco"][0] <= tok.start[0] <= dp["deco"][1]):
                    keep.append(tok.string)
            allc = keep
        if comments_of(src) != allc:
            pf("comments changed: %r vs %r" % (comments_of(src), allc))
        # mirror of the stored text
        mirror = G.DocView(G.canon(t, name), info)
        row_def = len(t["lead"]) + len(t["mid"])
        if G.render(G.canon(t, name)) != src:
            return fails     # the Coq tie reports the details; nothing to mirror further
        if mirror.source(name) != src:
            raise fw.Broken("harness: docstring view does not reproduce the canonical text: %r vs %r" % (mirror.source(name), src))
    else:
        name = cr["name"]
        if name != case["name"]:
            pf("cells name %r, expected %r" % (name, case["name"]))
        src = cr["source"]
        lp = res["lampos"]
        if lp.get("count", 1) != 1 and not case.get("sibling_lambda"):
            raise fw.Broken("generator put %d lambdas on one line" % lp["count"])
        if case.get("sibling_lambda"):
            pass        # accepted although D35 refuses such lines: (P) only - the capture must be the wanted lambda
        elif case["mode"] == "source":
            if case["lt"] is not None:
                lt = case["lt"]
                terms.append((label, "(TLam (mk_lt %s %s %s %s %s %s) %s %s %s %s %s)" % (
                    cs(lt["ind"]), clines(lt["before"]), cs(lt["pre"]), cs(lt["lam"]), cs(lt["post"]), cbool(lt["eofnl"]),
                    cs(res["raw"]), cs(lp["dedent"]), cN(lp["b"]), cN(lp["e"]), cs(src))))
            else:
                terms.append((label, "(TLamRaw true %s %s %s %s)" % (cs(res["raw"]), cN(lp["b"]), cN(lp["e"]), cs(src))))
        else:
            terms.append((label, "(TLamRaw false %s %s %s %s)" % (cs(res["raw"]), cN(lp["b"]), cN(lp["e"]), cs(src))))
        behaviour(cr, "created")
        if src != case["lam_expected"]:
            pf("stored source %r is not the lambda expression %r" % (src, case["lam_expected"]))
        try:
            if ast.dump(ast.parse(textwrap.dedent(src), mode="eval")) != ast.dump(ast.parse(case["lam"], mode="eval")):
                pf("stored source is not AST-equal to the lambda")
        except SyntaxError as e:
            pf("stored lambda does not parse: %s" % e)
        ev = exec_values(src, None, globs, argsets, is_lambda=True)
        if ev != exp:
            pf("stored lambda is not self-contained: %r vs %r" % (ev, exp))
    # ---- edits ----
    cur_doc = cr.get("doc")
    for op, st in zip(case["ops"], res["steps"]):
        snap = st.get("snap", {})
        what = op["op"]
        if "err" in st:
            pf("%s %r raised %s" % (what, op.get("name", op.get("doc")), st["err"]))
            break
        if "snap_err" in snap:
            pf("%s: cannot observe: %s" % (what, snap["snap_err"]))
            break
        before = st["before"]
        if what == "recreate":
            if snap["source"] != before:
                pf("recreation from formula.source is not a fixed point: %r -> %r" % (before, snap["source"]))
            if snap["name"] != name:
                pf("recreated cells is named %r, not %r" % (snap["name"], name))
            behaviour(snap, "recreated")
            if not is_lambda:
                tt = ft_from_source(before, row_def, t["defws"], name)
                if tt is None:
                    pf("stored text has no 'def %s' on line %d: %r" % (name, row_def + 1, before))
                    break
                terms.append((dict(label, op="recreate"), "(TDef %s (Some %s) %s %s None %s %s)" % (
                    cft(tt), cs(name), cs(before), cs(st["defpos"]["dedent"]), cpos3(st["defpos"]["npos"]), cs(snap["source"]))))
            else:
                terms.append((dict(label, op="recreate"), "(TLamRaw true %s %s %s %s)" % (cs(before), cN(0), cN(len(before.encode("utf-8"))), cs(snap["source"]))))
        elif what == "redefine":
            t, info = op["t"], op["info"]
            cur["exp"], cur["params"], cur["sig"] = st["expected"], st["expected_params"], st.get("expected_sig")
            if any(v[0] != "ok" for v in cur["exp"]):
                raise fw.Broken("generator produced a function that raises: %r" % (op["plain"],))
            argsets = op["args"]
            if not st.get("same_object"):
                pf("defcells on an existing cells did not return that cells")
            if snap["name"] != name:
                pf("redefinition changed the name")
            behaviour(snap, "redefined")
            dp = st["defpos"]
            terms.append((dict(label, op="redefine", text=op["file_body"]), "(TDef %s (Some %s) %s %s %s %s %s)" % (
                cft(t), cs(name), cs(st["raw"]), cs(dp["dedent"]), cpos2o(dp["deco"]), cpos3(dp["npos"]), cs(snap["source"]))))
            ev = exec_values(snap["source"], name, globs, argsets)
            if ev != cur["exp"]:
                pf("redefined source is not a self-contained definition: %r vs %r" % (ev, cur["exp"]))
            if G.render(G.canon(t, name)) != snap["source"]:
                break
            mirror = G.DocView(G.canon(t, name), info)
            row_def = len(t["lead"]) + len(t["mid"])
        elif what == "rename":
            new = op["name"]
            if snap["name"] != new or not st.get("in_space"):
                pf("rename to %r: name %r in_space %r" % (new, snap["name"], st.get("in_space")))
            behaviour(snap, "renamed")
            by = st.get("bystanders")
            if by:
                # the overriding cells of a sub space keeps its own definition under the new name, the plainly
                # derived one shows the base's
                if by["own_before"] != by["own_text"]:
                    pf("an overriding formula was not stored as given: %r" % by["own_before"])
                want = by["own_text"].replace("def %s(" % by["old"], "def %s(" % new, 1)
                if by["own_after"] != want or not by["own_defined"] or by["own_value"] != "('own', 3)" or by["own_doc"] != "own doc":
                    pf("rename of the base cells changed the overriding cells of a sub space: source %r (wanted %r) defined %r value %r doc %r"
                       % (by["own_after"], want, by["own_defined"], by["own_value"], by["own_doc"]))
                if by["plain_after"] != snap["source"] or not by["plain_derived"]:
                    pf("after the rename the plainly derived cells shows %r, the base %r" % (by["plain_after"], snap["source"]))
                if by["names"] != [[new], [new]] and len(by["names"][0]) == 1:
                    pf("cells of the sub spaces after the rename: %r" % (by["names"],))
            if snap.get("doc") != cur_doc:
                pf("rename changed doc: %r -> %r" % (cur_doc, snap.get("doc")))
            after = snap["source"]
            if is_lambda:
                if after != before:
                    pf("rename changed a lambda source")
            else:
                off = name_token_offset(before)
                if off is None or before[:off[0]] + new + before[off[0] + len(off[1]):] != after:
                    pf("rename changed more than the name token: %r -> %r" % (before, after))
                tt = ft_from_source(before, row_def, t["defws"], name)
                if tt is None:
                    pf("stored text has no 'def %s' on line %d: %r" % (name, row_def + 1, before))
                    break
                terms.append((dict(label, op="rename"), "(TRename %s %s %s %s %s)" % (
                    cft(tt), cs(new), cs(before), cpos3(st["defpos"]["npos"]), cs(after))))
            name = new
        elif what == "doc":
            d = op["doc"]
            after = snap["source"]
            behaviour(snap, "doc edited")
            if snap["name"] != name:
                pf("doc edit changed the name")
            if is_lambda:
                if after != before:
                    pf("doc edit changed a lambda source")
                if snap["doc"] != d:
                    pf("doc of lambda cells %r != %r" % (snap["doc"], d))
            else:
                if not op["ins"] and snap["doc"] != d:
                    pf("doc %r != %r" % (snap["doc"], d))
                if op["ins"]:
                    # every non-blank continuation line is indented like the body
                    bind = "" if mirror.oneline else mirror.bindstr
                    dl_ = d.split("\n")
                    want_doc = "\n".join([dl_[0]] + [(bind + l if l.strip() else l) for l in dl_[1:]])
                    if (snap["doc"] or "").rstrip(" \t") != want_doc.rstrip(" \t"):
                        pf("doc (insert_indents) %r != %r" % (snap["doc"], want_doc))
                try:
                    if dump_def(after, drop_doc=True) != dump_def(before, drop_doc=True):
                        pf("doc edit changed more than the docstring statement")
                except (SyntaxError, AssertionError) as e:
                    pf("source after doc edit does not parse: %s" % e)
                if comments_of(after) != comments_of(before):
                    pf("doc edit changed comments")
                dpz = st["docpos"]
                terms.append((dict(label, op="doc", doc=d), "(TDoc (mk_dt %s %s %s %s %s) %s (mk_dpos %s %s %s %s %s) %s %s %s %s %s %s)" % (
                    clist([cs(x) for x in mirror.front_lines(name)]), cs(mirror.bind(name)), cbool(mirror.oneline),
                    csopt(mirror.lit), cs(mirror.tail),
                    cs(before), csopt(dpz["indent"]), cbool(dpz["has"]), cN(dpz["P"]), cN(dpz["S"]), cN(dpz["E"]),
                    cs(d), cbool(op["ins"]), cs(name), cpos3(st["defpos"]["npos"]), cs(after), cs(snap["doc"] or ""))))
                mirror.set_doc(d, op["ins"])
            cur_doc = snap["doc"]
    return fails


# ---- witnesses of recorded defects -----------------------------------------------------------
def run_witnesses(out):
    files = sorted(glob.glob(os.path.join(CORPUS, "finding_*.json")))
    ws = [json.load(open(f)) for f in files]
    if not ws:
        return
    res = fw.run_driver("capture", [{"kind": "script", "script": w["script"]} for w in ws], chunk=len(ws))
    for w, r in zip(ws, res):
        fw.witness_result(out, "C20", w["key"], r["fails"], w["what"],
                          payload={"case": w["history"], "script": w["script"], "observed": r.get("err")})
        out.extra.setdefault("witnesses", []).append({"key": w["key"], "still_fails": r["fails"], "observed": r.get("err")})


def corpus_cases():
    out = []
    for f in sorted(glob.glob(os.path.join(CORPUS, "case_*.json"))):
        out.append(json.load(open(f)))
    return out


def run(tier, seed, rng):
    out = Outcome()
    stats = {"filtered_D31_unsafe_doc": 0, "filtered_D32_linebreak_char": 0,
             "filtered_D33_literal_in_indented_text": 0, "filtered_D35_two_lambdas_on_a_line": 0}
    n = {"quick": 420, "thorough": 7000}[tier]
    cases = corpus_cases()
    ncorpus = len(cases)
    plan = [("def", "source")] * 40 + [("def", "func")] * 22 + [("def", "deco")] * 10 + [("lam", "source")] * 16 + [("lam", "func")] * 12
    for i in range(n):
        kind, mode = plan[rng.randrange(len(plan))]
        cases.append(build_def_case(rng, mode, stats) if kind == "def" else build_lam_case(rng, mode, stats))
    drv = [dict({k: v for k, v in c.items() if k not in ("t", "info", "feat", "lt", "ops")},
                ops=[{k: v for k, v in o.items() if k not in ("t", "info", "feat")} for o in c["ops"]]) for c in cases]
    res = fw.run_driver("capture", drv)
    terms = []
    nviol = 0
    for c, r in zip(cases, res):
        fails = analyse(c, r, terms, out)
        for d in fails[:2]:
            out.p_failures.append({"case": {k: (c.get(k) if k != "ops" else [{a: b for a, b in o.items() if a not in ("t", "info", "feat")} for o in c["ops"]])
                                            for k in ("kind", "mode", "text", "file_body", "name", "ops", "globals", "args")},
                                   "detail": d, "script": script_of(c)})
    bad = fw.run_coq_cases("C20", ["Capture.Model", "Capture.Texts", "Capture.Tie"], "tcase", "check",
                           [t for _, t in terms], shard=120)
    for i in bad[:10]:
        out.tie_mismatches.append({"case": terms[i][0], "detail": "Capture model and formula.py disagree",
                                   "model": fw.coq_show("C20_%d" % i, ["Capture.Model", "Capture.Texts", "Capture.Tie"],
                                                        "explain %s" % terms[i][1])[-600:]})
    for i in bad[10:]:
        out.tie_mismatches.append({"case": terms[i][0], "detail": "Capture model and formula.py disagree"})
    run_witnesses(out)
    out.evaluations = len(terms)
    out.traces_validated = len(terms) - len(bad)
    distinct = set()
    feats = {}
    for c, r in zip(cases, res):
        raw = r.get("raw")
        src = r.get("created", {}).get("source")
        if raw is not None and (raw != src or c["ops"]):
            distinct.add((raw, c.get("name"), json.dumps([{k: v for k, v in o.items() if k not in ("t", "info")} for o in c["ops"]])))
        for f in c.get("feat", []):
            feats[f] = feats.get(f, 0) + 1
    out.distinct_nontrivial = len(distinct)
    out.rule = ("structured def / lambda texts drawn from the grammar of the property (see distribution.features), created from a source "
                "string, from a function object defined in a temporary module file, or through the defcells decorator, followed by up to "
                "4 edits (recreate from formula.source / rename / doc); one evaluation = one creation or edit compared in Coq; "
                "non-trivial = normalisation changes the text or at least one edit is applied; distinct by (text, name, edits)")
    kinds = {}
    for c in cases:
        k = c["kind"] + "/" + c["mode"]
        kinds[k] = kinds.get(k, 0) + 1
    opsd = {}
    for c in cases:
        for o in c["ops"]:
            opsd[o["op"]] = opsd.get(o["op"], 0) + 1
    # definitions holding a nested DECORATED def (inner function / method of a nested class): per creation mode,
    # and how many of them are followed by each kind of edit
    ND = {"nested_decorated_def", "nested_property_function", "nested_class_decorators"}
    nested = {"redefinitions": 0}
    for c in cases:
        if ND & set(c.get("feat", [])):
            nested[c["mode"]] = nested.get(c["mode"], 0) + 1
            for o in {o["op"] for o in c["ops"]}:
                nested["then_" + o] = nested.get("then_" + o, 0) + 1
        nested["redefinitions"] += sum(1 for o in c["ops"] if o["op"] == "redefine" and ND & set(o.get("feat", [])))
    out.distribution = {"cases": len(cases), "corpus": ncorpus, "by_kind": kinds, "edits": opsd, "features": dict(sorted(feats.items())),
                        "with_nested_decorated_def": nested,
                        "filtered": stats, "coq_terms": len(terms)}
    out.samples = [{"kind": c["kind"], "mode": c["mode"], "text": c.get("text"), "file_body": c.get("file_body"), "name": c.get("name"),
                    "ops": [{k: v for k, v in o.items() if k in ("op", "name", "doc", "ins", "via", "file_body")} for o in c["ops"]]}
                   for c in cases[ncorpus:ncorpus + 3]]
    out.notes = [
        "the Python tokenizer / compiler are outside the theorems: token positions are inputs of the model; the harness compares the "
        "positions asttokens reports with the ones the structured text has by construction; behaviour (values) rests on (P)",
        "generator avoids the triggers of D31 (unsafe doc), CR in the text, "
        "D33 (multi-line literal in an indented text), D10 (decorator with is_cached on an existing cells); filtered counts in distribution.filtered",
        "non-ASCII characters occur in comments and string literals only; function bodies evaluate to ints so that values can be compared by repr",
        "about a quarter of the def texts hold a nested decorated definition (decorator defined earlier in the body, @property on an inner "
        "function, @property/@staticmethod/@classmethod methods of a nested class; distribution.with_nested_decorated_def); they are built so "
        "that losing a nested decorator changes the value or raises (c20gen.DefGen.nested_decorated); for the line/token model they are body lines",
    ]
    return out


def replay(data):
    case = data.get("case")
    print(json.dumps(data, indent=1)[:3000])
    if data.get("script"):
        print("--- stand-alone reproducer ---")
        print(data["script"])
    return 0
