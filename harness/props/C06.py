"""C06 value edits discard exactly the dependents; inputs persist — tie of Exec/Model.v + oracle; see execprops.py"""
import execprops as E

EXTRA_MODS = ["Exec.Check"]
ORACLES = [E.oracle_value_edit, E.oracle_spec_values]
ASSUMPTIONS = ["formula vocabulary of Exec/Model.v (integers/None, calls, references by name/attribute, conditional, try/except, try/finally, raising expressions)",
               "CPython evaluation order, inspect.Signature.bind, traceback line numbers are modelled, exercised by the correspondence"]


def run(tier, seed, rng):
    return E.run_exec_property("C06", tier, rng, 150, 3000, {'alt': [(0.4, {'p_raise': 0.15, 'p_try': 0.4})], 'p_derived': 0.3, 'p_raise': 0.02}, {'eval': 6, 'setv': 4, 'clearat': 2, 'clear': 1, 'clearall': 1, 'setref': 1, 'recalc': 1, 'scn_ref': 2, 'scn_recalc': 1, 'scn_unc2': 1}, (10, 30), ORACLES,
        'worlds as C01; histories of evaluations, value assignments/overwrites, clear_at, clear, clear_all, reference changes, both settings of set_recalc' + "; non-trivial = a value edit that discarded at least one dependent; distinct by JSON of the case",
        lambda c, r: any(op[0] in ('setv','clearat') and k and len(r['obs'][k-1]['data'])>len([d for d in r['obs'][k]['data']]) for k,op in enumerate(c['ops'])), diff=None)


def replay(data):
    return E.replay_exec("C06", data, ORACLES)
