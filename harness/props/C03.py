"""C03 - derived members equal re-derivation from defined members along the C3 order.

Suites
  mro   (layer C3):   ordered-base DAGs (exhaustive small + random larger); three-way comparison
                      Coq [mro_of]  ==  SpaceGraph.get_mro  ==  CPython's own C3 (type(...).__mro__)
  hist  (layer Defs): inheritance DAG construction + member / base edits on the real modelx, observed
                      after every operation;
                      (T) Coq model [step] reproduces every observation and outcome,
                      (P) the implementation's members == Coq [rederive] of its own defined members and
                          direct bases, its [bases] == Coq [mro], values of cells == evaluation in the sub space
  exh   (layer Defs): every ordered-base DAG on <= N spaces x every enabled edit sequence of length <= L

Known defects of the pinned tree (generator avoids their triggers, witnesses in corpus/C03/finding_*.json):
  D1      new_cells(S, n): a sub space holding a *derived* n whose new first definer is S keeps the old formula
  D2      set_formula(S, n): a sub space whose first definer of n is not S is overwritten anyway
  D3      remove_bases / del space: descendants are re-derived in BFS order of the old graph -> IndexError half-way
  D33     change_ref(S, n): the loop over sub spaces stops ([break]) at the first sub that does not take n from S
  D34     remove_bases / del space never test the MRO of the descendants -> TypeError half-way
  D13     (C12's) base edits / new_cells that make a name both a cells and a reference are accepted
  D23     (C12's) renaming a base cells onto a name a sub defines replaces the sub's cells (rename is not in
          the vocabulary; witness only)
A trigger is a decidable predicate on (ideal state before the op, op); see Mirror.triggers.
"""
import os, json, copy, itertools, glob
import networkx as nx
import fw
from fw import cstr, clist, ctuple, cnat, cz, cbool, copt, Outcome

EXTRA_MODS = ["Defs.Check"]
TRUSTED = ["harness/props/C03.py generator+emitter, harness/drivers/c03.py, Defs/Check.v comparison functions",
           "Python mirror of the ideal model is used ONLY to steer generation / evaluate defect triggers, never as oracle"]
ASSUMPTIONS = ["flat (top-level) user spaces only; values of references are integers; formulas are 'lambda: <int>' or 'lambda: <refname>'",
               "cells/reference observation through Space.cells / _impl.own_refs / _is_derived() / formula.source / bases / _direct_bases",
               "histories avoid the triggers of the recorded defects D1 D2 D3 D13 D33 D34 (counted in coverage.filtered)"]

(ACCEPTED, REJ, NOSUCHSPACE, SPACEEXISTS, NOSUCHBASE, CYCLIC, NOMRO, NOTABASE, NAMECONFLICT, NAMEINUSE,
 NOSUCHMEMBER, ISDERIVED) = range(12)

SPACES = ["A", "B", "C", "D", "S", "S2", "T"]
CELLS = ["foo", "bar", "baz", "k"]
REFS = ["x", "y", "k"]


# --------------------------------------------------------------------------
# C3 in Python (generator side only)
# --------------------------------------------------------------------------
def c3(g, n, memo=None, depth=0):
    """list, or None when no linearisation exists (inconsistent or cyclic)"""
    memo = {} if memo is None else memo
    if n in memo:
        return memo[n]
    if depth > len(g) + 1:
        return None
    bs = g.get(n, [])
    seqs = []
    for b in bs:
        l = c3(g, b, memo, depth + 1)
        if l is None:
            memo[n] = None
            return None
        seqs.append(list(l))
    seqs.append(list(bs))
    res = []
    while True:
        ne = [s for s in seqs if s]
        if not ne:
            break
        cand = None
        for s in ne:
            if not any(s[0] in t[1:] for t in ne):
                cand = s[0]
                break
        if cand is None:
            memo[n] = None
            return None
        res.append(cand)
        for s in ne:
            if s[0] == cand:
                del s[0]
    memo[n] = [n] + res
    return memo[n]


def add_base(bs, b):
    return [x for x in bs if x != b] + [b]


class Mirror:
    """ideal semantics (== Defs/Model.v, not verified: steering only) + defect triggers"""

    def __init__(self):
        self.sp = {}     # name -> {"cells": {n: [pay, derived]}, "refs": {...}}
        self.g = {}      # name -> ordered direct bases
        self.adj = nx.DiGraph()   # replays the implementation's add_edge/remove_edge order (for D3's edge_bfs)

    def clone(self):
        m = Mirror()
        m.sp = copy.deepcopy(self.sp)
        m.g = {k: list(v) for k, v in self.g.items()}
        m.adj = self.adj.copy()
        return m

    # ---- helpers
    def mro(self, n, g=None):
        return c3(self.g if g is None else g, n)

    def subs(self, s, g=None):
        g = self.g if g is None else g
        return [d for d in g if (self.mro(d, g) or []).count(s)]

    def first_definer(self, kind, n, chain, sp=None):
        sp = self.sp if sp is None else sp
        for b in chain:
            m = sp[b][kind].get(n)
            if m is not None and not m[1]:
                return b
        return None

    @staticmethod
    def rederive(sp, g):
        out = {}
        for s in sp:
            l = c3(g, s)
            new = {"cells": {}, "refs": {}}
            for kind in ("cells", "refs"):
                for n, m in sp[s][kind].items():
                    if not m[1]:
                        new[kind][n] = [m[0], False]
                for b in (l or [s])[1:]:
                    for n, m in sp[b][kind].items():
                        if not m[1] and n not in new[kind]:
                            new[kind][n] = [m[0], True]
            out[s] = new
        return out

    @staticmethod
    def clash(sp):
        return any(set(v["cells"]) & set(v["refs"]) for v in sp.values())

    # ---- ideal step: returns (code, newstate or None)
    def plan(self, op):
        k, s = op[0], op[1]
        sp, g = self.sp, self.g
        if k == "NewSpace":
            if s in sp:
                return SPACEEXISTS, None
            if any(b not in sp for b in op[2]):
                return NOSUCHBASE, None
            bs = []
            for b in op[2]:
                bs = add_base(bs, b)
            g1 = dict(g); g1[s] = bs
            sp1 = copy.deepcopy(sp); sp1[s] = {"cells": {}, "refs": {}}
            return self._commit_graph(g1, sp1)
        if s not in sp:
            return NOSUCHSPACE, None
        if k == "AddBases":
            if any(b not in sp for b in op[2]):
                return NOSUCHBASE, None
            if any(s in (self.mro(b) or []) for b in op[2]):
                return CYCLIC, None
            bs = list(g[s])
            for b in op[2]:
                bs = add_base(bs, b)
            g1 = dict(g); g1[s] = bs
            return self._commit_graph(g1, copy.deepcopy(sp))
        if k == "RemoveBases":
            if any(b not in sp for b in op[2]):
                return NOSUCHBASE, None
            bs = list(g[s])
            for b in op[2]:
                if b not in bs:
                    return NOTABASE, None
                bs.remove(b)
            g1 = dict(g); g1[s] = bs
            return self._commit_graph(g1, copy.deepcopy(sp))
        if k == "DelSpace":
            g1 = {n: [b for b in bs if b != s] for n, bs in g.items() if n != s}
            sp1 = copy.deepcopy(sp); del sp1[s]
            return self._commit_graph(g1, sp1)
        kind = "cells" if k in ("NewCells", "DelCells", "SetFormula") else "refs"
        other = "refs" if kind == "cells" else "cells"
        n = op[2]
        if k in ("NewCells", "NewRef"):
            if n in sp[s]["cells"] or n in sp[s]["refs"]:
                return NAMEINUSE, None
            for d in self.subs(s):
                if n in sp[d][other] or (kind == "refs" and n in sp[d]["refs"]):
                    return NAMEINUSE, None
            sp1 = copy.deepcopy(sp); sp1[s][kind][n] = [op[3], False]
            return ACCEPTED, (Mirror.rederive(sp1, g), g)
        if k in ("SetFormula", "ChangeRef"):
            if n not in sp[s][kind]:
                return NOSUCHMEMBER, None
            sp1 = copy.deepcopy(sp); sp1[s][kind][n] = [op[3], False]
            return ACCEPTED, (Mirror.rederive(sp1, g), g)
        if k in ("DelCells", "DelRef"):
            if n not in sp[s][kind]:
                return NOSUCHMEMBER, None
            if sp[s][kind][n][1]:
                return ISDERIVED, None
            sp1 = copy.deepcopy(sp); del sp1[s][kind][n]
            return ACCEPTED, (Mirror.rederive(sp1, g), g)
        raise RuntimeError(op)

    def _commit_graph(self, g1, sp1):
        if any(c3(g1, n) is None for n in g1):
            return NOMRO, None
        sp2 = Mirror.rederive(sp1, g1)
        if Mirror.clash(sp2):
            return NAMECONFLICT, None
        return ACCEPTED, (sp2, g1)

    def apply(self, op, code, new):
        """commit an accepted plan; also replay the networkx edge order"""
        if code != ACCEPTED:
            return
        k, s = op[0], op[1]
        if k == "NewSpace":
            self.adj.add_node(s)
        if k in ("NewSpace", "AddBases"):
            for b in op[2]:
                self.adj.add_edge(b, s)
        elif k == "RemoveBases":
            for b in op[2]:
                self.adj.remove_edge(b, s)
        elif k == "DelSpace":
            self.adj.remove_node(s)
        if k in ("NewSpace", "AddBases", "RemoveBases", "DelSpace"):
            self.adj = self.adj.copy()     # SpaceUpdater works on graph.copy() and commits the copy
        self.sp, self.g = new

    # ---- defect triggers (evaluated on the state BEFORE the op)
    def triggers(self, op, code, new):
        k, s = op[0], op[1]
        t = []
        sp, g = self.sp, self.g
        # D13 (add_bases / new_space never detected a name conflict) is repaired in /repo: generated
        # D34 (remove_bases / del of a space leaving a descendant without MRO), D3 (re-derivation order) and the
        # first-sub-only name test (N3) are repaired in /repo: their former triggers are generated
        if k == "NewRef" and s in sp and op[2] in sp[s]["cells"]:
            t.append("setattr-on-cells")     # `S.n = v` assigns the value of a scalar cells: not this operation
        if code != ACCEPTED:
            return t
        sp2, g2 = new
        # D1 (NewCells in an earlier base of a sub space that derives the name from a later base) is repaired in /repo
        # D2 / D2b (SetFormula reaching cells derived from another definer) and D33 (ChangeRef stopping at the first
        # overriding sub space) are repaired in /repo: their former triggers are generated
        return t

    def _d3(self, op, g2):
        """simulate the code: _update_derived_space in edge_bfs order over the OLD graph, each visit
        reads the CURRENT member dicts of the bases along the NEW mro; a name held (derived) by a
        base not yet re-derived whose definers are gone -> bs == [] -> IndexError"""
        k, s = op[0], op[1]
        order = ([s] if k == "RemoveBases" else []) + [v for _, v in nx.edge_bfs(self.adj, s)]
        for kind in ("cells", "refs"):
            cur = {p: set(v[kind]) for p, v in self.sp.items()}
            dfn = {p: {n for n, m in v[kind].items() if not m[1]} for p, v in self.sp.items()}
            for v in order:
                chain = c3(g2, v)[1:]
                names = set()
                for b in chain:
                    names |= cur[b]
                for n in names:
                    if n not in dfn[v] and not any(n in dfn[b] for b in chain):
                        return True
                cur[v] = dfn[v] | names
        return False


# --------------------------------------------------------------------------
# generators
# --------------------------------------------------------------------------
class Gen:
    def __init__(self, rng):
        self.rng = rng
        self.next_id = 100
        self.filtered = {}
        self.kinds = {}

    def pay(self, allow_read=True):
        if allow_read and self.rng.random() < 0.3:
            return ["r", self.rng.choice(["x", "y"])]
        self.next_id += 1
        return ["v", self.next_id]

    def val(self):
        self.next_id += 1
        return ["v", self.next_id]

    def draw(self, mir, building):
        rng = self.rng
        sp = mir.sp
        names = list(sp)
        w = {"NewCells": 20, "SetFormula": 14, "DelCells": 12, "NewRef": 10, "ChangeRef": 10, "DelRef": 8,
             "AddBases": 10, "RemoveBases": 9, "NewSpace": 4, "DelSpace": 2}
        if building:
            w = {"NewSpace": 60, "NewCells": 22, "NewRef": 12, "SetFormula": 3, "ChangeRef": 3}
        if not names:
            k = "NewSpace"
        else:
            k = rng.choices(list(w), weights=list(w.values()))[0]
        if k == "NewSpace":
            free = [n for n in SPACES if n not in sp]
            if not free or (rng.random() < 0.03 and names):
                return ["NewSpace", rng.choice(names), []]
            nb = rng.choice([0, 1, 1, 2, 2, 3]) if names else 0
            bs = rng.sample(names, min(nb, len(names)))
            return ["NewSpace", rng.choice(free[:2]), bs]
        s = rng.choice(names)
        if k == "AddBases":
            cand = [n for n in names if n != s] or names
            bs = rng.sample(cand, min(len(cand), rng.choice([1, 1, 1, 2])))
            return [k, s, bs]
        if k == "RemoveBases":
            withb = [n for n in names if mir.g[n]]
            if withb and rng.random() < 0.92:
                s = rng.choice(withb)
                bs = rng.sample(mir.g[s], rng.choice([1, 1, 1, min(2, len(mir.g[s]))]))
            else:
                bs = [rng.choice(names)]
            return [k, s, bs]
        if k == "DelSpace":
            return [k, s]
        kind = "cells" if k in ("NewCells", "SetFormula", "DelCells") else "refs"
        pool = CELLS if kind == "cells" else REFS
        wts = [5, 4, 3, 1] if kind == "cells" else [5, 4, 1]
        if k in ("NewCells", "NewRef"):
            n = rng.choices(pool, weights=wts)[0]
            if k == "NewRef" and n in sp[s]["refs"]:
                k = "ChangeRef"       # `S.n = v` on an existing reference IS change_ref
            return [k, s, n, self.pay() if kind == "cells" else self.val()]
        # edits of existing members: prefer spaces that have some
        have = [(p, n) for p in names for n, m in sp[p][kind].items()]
        dfd = [(p, n) for p in names for n, m in sp[p][kind].items() if not m[1]]
        if k == "ChangeRef":      # `S.n = v` is change_ref only when S has the reference n
            if not have:
                return ["NewRef", s, rng.choice(["x", "y"]), self.val()]
            s, n = rng.choice(have)
            return [k, s, n, self.val()]
        if k == "SetFormula":
            if have and rng.random() < 0.95:
                s, n = rng.choice(have)
            else:
                n = rng.choice(pool)
            return [k, s, n, self.pay()]
        if dfd and rng.random() < 0.85:
            s, n = rng.choice(dfd)
        elif have and rng.random() < 0.7:
            s, n = rng.choice(have)
        else:
            n = rng.choice(pool)
            if n in sp[s]["cells" if kind == "refs" else "refs"]:
                n = "zz"
        return [k, s, n]

    def history(self, nspaces, nedits):
        mir = Mirror()
        ops = []
        tries = 0
        while (len(mir.sp) < nspaces or len(ops) < nspaces + nedits) and tries < 400:
            tries += 1
            building = len(mir.sp) < nspaces
            if not building and len(ops) >= nspaces + nedits:
                break
            op = self.draw(mir, building)
            code, new = mir.plan(op)
            trig = mir.triggers(op, code, new)
            if trig:
                for t in trig:
                    self.filtered[t] = self.filtered.get(t, 0) + 1
                continue
            if code != ACCEPTED and self.rng.random() < 0.5:
                continue          # keep only half of the rejected draws
            mir.apply(op, code, new)
            ops.append(op)
            key = op[0] + ("" if code == ACCEPTED else "/rejected")
            self.kinds[key] = self.kinds.get(key, 0) + 1
        return ops


def ordered_subsets(items, maxlen=None):
    yield []
    for r in range(1, len(items) + 1 if maxlen is None else min(maxlen, len(items)) + 1):
        for c in itertools.permutations(items, r):
            yield list(c)


def all_dags(nmax):
    """every ordered-base DAG on <= nmax nodes, nodes named in a topological order"""
    names = ["A", "B", "C", "D", "S"][:nmax]
    def rec(i, graph):
        if i > 0:
            yield list(graph)
        if i == len(names):
            return
        for bs in ordered_subsets(names[:i]):
            yield from rec(i + 1, graph + [[names[i], bs]])
    return rec(0, [])


def enabled_ops(mir, vocab):
    sp = mir.sp
    ops = []
    for s in sp:
        if "cells" in vocab:
            ops += [["NewCells", s, "foo", None], ["SetFormula", s, "foo", None], ["DelCells", s, "foo"]]
        if "refs" in vocab:
            ops += [["NewRef", s, "x", None], ["ChangeRef", s, "x", None], ["DelRef", s, "x"]]
        if "bases" in vocab:
            for b in sp:
                if b != s:
                    ops.append(["AddBases", s, [b]])
            for b in mir.g[s]:
                ops.append(["RemoveBases", s, [b]])
    return ops


def exhaustive(nmax, depth, vocab, filtered, limit=None):
    """DAG construction + every sequence (length <= depth) of enabled edits; only maximal sequences are
    returned (every prefix is observed on the way). Rejected edits end a sequence."""
    out = []
    counter = [1000]
    def fresh(op):
        if len(op) == 4 and op[3] is None:
            counter[0] += 1
            op = op[:3] + [["v", counter[0]]]
        return op
    def rec(mir, ops, d):
        ext = 0
        if d < depth:
            for op0 in enabled_ops(mir, vocab):
                op = fresh(op0)
                code, new = mir.plan(op)
                trig = mir.triggers(op, code, new)
                if trig:
                    for t in trig:
                        filtered[t] = filtered.get(t, 0) + 1
                    continue
                if code != ACCEPTED:
                    # a rejected edit: keep one sample per (state, kind) at the first level only
                    if d == 0 and code not in (NOSUCHMEMBER,):
                        out.append(ops + [op]); ext += 1
                    continue
                m2 = mir.clone(); m2.apply(op, code, new)
                rec(m2, ops + [op], d + 1)
                ext += 1
        if ext == 0:
            out.append(ops)
    for graph in all_dags(nmax):
        mir = Mirror()
        ops = []
        ok = True
        for node, bs in graph:
            op = ["NewSpace", node, bs]
            code, new = mir.plan(op)
            ops.append(op)
            if code != ACCEPTED:
                ok = False
                break
            mir.apply(op, code, new)
        if not ok:
            if len(ops) == len(graph):
                out.append(ops)       # the last space has no linearisation: the rejection is the test
            continue
        rec(mir, ops, 0)
        if limit and len(out) > limit:
            break
    return out


# --------------------------------------------------------------------------
# emitting Coq terms
# --------------------------------------------------------------------------
def cpath(n):
    return clist([cstr(x) for x in n.split(".")])


def cpay(p):
    if p[0] == "v":
        return "(PVal %s)" % cz(p[1])
    if p[0] == "r":
        return "(PRead %s)" % cstr(p[1])
    raise fw.Broken("payload the model has no term for: %r" % (p,))


def cop(op):
    k = op[0]
    if k in ("NewSpace", "AddBases", "RemoveBases"):
        return "(%s %s %s)" % (k, cpath(op[1]), clist([cpath(b) for b in op[2]]))
    if k == "DelSpace":
        return "(DelSpace %s)" % cpath(op[1])
    if k in ("NewCells", "SetFormula", "NewRef", "ChangeRef"):
        return "(%s %s %s %s)" % (k, cpath(op[1]), cstr(op[2]), cpay(op[3]))
    if k in ("DelCells", "DelRef"):
        return "(%s %s %s)" % (k, cpath(op[1]), cstr(op[2]))
    raise fw.Broken("op the model has no term for: %r" % (op,))


def cmembers(d):
    return clist([ctuple([cstr(n), ctuple([cbool(m[0]), cpay(m[1])])]) for n, m in sorted(d.items())])


def csnap(spaces):
    items = []
    for name, o in sorted(spaces.items()):
        ev = clist([ctuple([cstr(n), copt(None if v == "err" else cz(v))]) for n, v in sorted(o["evals"].items())])
        items.append(ctuple([cpath(name), ctuple([cmembers(o["cells"]), cmembers(o["refs"])]),
                             ctuple([clist([cpath(b) for b in o["direct"]]), clist([cpath(b) for b in o["bases"]])]), ev]))
    return clist(items)


def chist(ops, steps):
    return ctuple([clist([cop(o) for o in ops]),
                   clist([ctuple([cnat(st["out"]), "None" if st.get("skipped") else "(Some %s)" % csnap(st["spaces"])]) for st in steps])])


CASE_T = "list op * list obs"
REQ = ["C3.Model", "Defs.Model", "Defs.Check"]


def script_of(ops):
    lines = ["import modelx as mx", "m = mx.new_model('M')"]
    for op in ops:
        k = op[0]
        S = "m.%s" % op[1]
        if k == "NewSpace":
            lines.append("m.new_space(%r, bases=[%s])" % (op[1], ", ".join("m." + b for b in op[2])))
        elif k == "AddBases":
            lines.append("%s.add_bases(%s)" % (S, ", ".join("m." + b for b in op[2])))
        elif k == "RemoveBases":
            lines.append("%s.remove_bases(%s)" % (S, ", ".join("m." + b for b in op[2])))
        elif k == "DelSpace":
            lines.append("del m.%s" % op[1])
        elif k == "NewCells":
            lines.append("%s.new_cells(%r, formula='lambda: %s')" % (S, op[2], op[3][1]))
        elif k == "SetFormula":
            lines.append("%s.cells[%r].set_formula('lambda: %s')" % (S, op[2], op[3][1]))
        elif k in ("DelCells", "DelRef"):
            lines.append("del %s.%s" % (S, op[2]))
        elif k in ("NewRef", "ChangeRef"):
            lines.append("%s.%s = %s" % (S, op[2], op[3][1]))
        elif k == "RenameCells":
            lines.append("%s.cells[%r].rename(%r)" % (S, op[2], op[3]))
    lines.append("for s in m.spaces.values(): print(s.name, [b.name for b in s.bases], "
                 "{k: (c._is_derived(), c.formula.source) for k, c in s.cells.items()}, "
                 "{k: (r.is_derived(), r.interface) for k, r in s._impl.own_refs.items() if not k.startswith('_')})")
    return "\n".join(lines)


# --------------------------------------------------------------------------
# (P) in Python for witnesses (their ops may be outside the model's vocabulary / crash half-way)
# --------------------------------------------------------------------------
def py_oracle(spaces):
    """the property itself on one observation of the implementation; returns None or a text"""
    sp = {s: {"cells": {n: [m[1], m[0]] for n, m in o["cells"].items()},
              "refs": {n: [m[1], m[0]] for n, m in o["refs"].items()}} for s, o in spaces.items()}
    g = {s: list(o["direct"]) for s, o in spaces.items()}
    want = Mirror.rederive(sp, g)
    for s, o in spaces.items():
        l = c3(g, s)
        if l is None or o["bases"] != l[1:]:
            return "space %s: bases %r but C3 of the direct bases gives %r" % (s, o["bases"], l)
        for kind in ("cells", "refs"):
            if sp[s][kind] != want[s][kind]:
                return "space %s: %s are %r, re-derivation gives %r" % (s, kind, sp[s][kind], want[s][kind])
    return None


def defined_of(spaces):
    return {s: {"cells": {n: m[1] for n, m in o["cells"].items() if not m[0]},
                "refs": {n: m[1] for n, m in o["refs"].items() if not m[0]},
                "direct": list(o["direct"])} for s, o in spaces.items()}


def frame_oracle(ops, steps):
    """(P, part 2) the DEFINED members and the direct bases are exactly what the history defined: an accepted
    edit changes the defined members / direct bases of its own space as it says and of no other space, a
    rejected one changes nothing.
    Returns None or (step index, text)."""
    prev = {}
    for i, (op, st) in enumerate(zip(ops, steps)):
        exp = copy.deepcopy(prev)
        k = op[0]
        if st["out"] == ACCEPTED:
            if k == "NewSpace":
                exp[op[1]] = {"cells": {}, "refs": {}, "direct": []}
            if k in ("NewSpace", "AddBases"):
                for b in op[2]:
                    exp[op[1]]["direct"] = add_base(exp[op[1]]["direct"], b)
            elif k == "RemoveBases":
                exp[op[1]]["direct"] = [b for b in exp[op[1]]["direct"] if b not in op[2]]
            elif k == "DelSpace":
                exp.pop(op[1], None)
                for v in exp.values():
                    v["direct"] = [b for b in v["direct"] if b != op[1]]
            elif k in ("NewCells", "SetFormula"):
                exp[op[1]]["cells"][op[2]] = op[3]
            elif k in ("NewRef", "ChangeRef"):
                exp[op[1]]["refs"][op[2]] = op[3]
            elif k == "DelCells":
                exp[op[1]]["cells"].pop(op[2], None)
            elif k == "DelRef":
                exp[op[1]]["refs"].pop(op[2], None)
        if st.get("skipped"):
            prev = exp
            continue
        cur = defined_of(st["spaces"])
        if cur != exp:
            diff = [(s_, cur.get(s_), exp.get(s_)) for s_ in sorted(set(cur) | set(exp)) if cur.get(s_) != exp.get(s_)]
            return i, "defined members / direct bases after %r (outcome %s) are not the ones the history defined: (space, actual, expected) = %r" % (op, st["out"], diff[:3])
        prev = cur
    return None


# --------------------------------------------------------------------------
# suites
# --------------------------------------------------------------------------
def suite_mro(tier, rng, out):
    nmax = 4 if tier == "quick" else 5
    graphs = [g for g in all_dags(nmax) if len(g) == nmax or len(g) >= 2]
    nexh = len(graphs)
    nrand = 150 if tier == "quick" else 1500
    names = ["N%d" % i for i in range(10)] + ["S", "S2"]
    for _ in range(nrand):
        n = rng.randint(5, 9)
        ns = rng.sample(names, n)
        g = []
        for i, x in enumerate(ns):
            k = min(i, rng.choice([0, 1, 1, 2, 2, 3, 3, 4]))
            g.append([x, rng.sample(ns[:i], k)])
        graphs.append(g)
    cases = [{"kind": "mro", "graph": g} for g in graphs]
    res = fw.run_driver("c03", cases)
    terms = []
    ninc = 0
    for c, r in zip(cases, res):
        for node, _ in c["graph"]:
            if r["impl"][node] != r["py"][node]:
                out.p_failures.append({"case": c, "detail": "SpaceGraph.get_mro(%s) = %r but CPython's C3 gives %r" % (node, r["impl"][node], r["py"][node]),
                                       "script": "from modelx.core.model import SpaceGraph\ng = SpaceGraph()\nfor n, bs in %r:\n    g.add_node(n)\n    for b in bs: g.add_edge(b, n, index=g.max_index(n) + 1)\nprint(g.get_mro(%r))" % (c["graph"], node)})
            ninc += r["impl"][node] is None
        terms.append(ctuple([
            clist([ctuple([cpath(n), clist([cpath(b) for b in bs])]) for n, bs in c["graph"]]),
            clist([ctuple([cpath(n), copt(None if r["impl"][n] is None else clist([cpath(x) for x in r["impl"][n]]))]) for n, _ in c["graph"]])]))
    bad = fw.run_coq_cases("C03mro", REQ, "graph * list (path * option (list path))", "check_mro", terms, shard=400)
    for i in bad:
        out.tie_mismatches.append({"case": cases[i], "impl": res[i], "detail": "C3/Model.v mro_of and SpaceGraph.get_mro disagree"})
    out.evaluations += len(cases)
    out.traces_validated += len(cases) - len(bad)
    nontriv = {json.dumps(c["graph"]) for c in cases if any(len(bs) >= 2 for _, bs in c["graph"])}
    out.distinct_nontrivial += len(nontriv)
    out.distribution["mro"] = {"graphs": len(cases), "exhaustive_up_to_nodes": nmax, "exhaustive_graphs": nexh,
                               "random_graphs": nrand, "nodes_without_linearisation": ninc,
                               "with_multiple_bases": len(nontriv)}
    out.samples.append({"suite": "mro", "graph": cases[min(40, len(cases) - 1)]["graph"], "impl": res[min(40, len(cases) - 1)]["impl"]})


def run_histories(tag, hists, out, label, observe_from=None):
    """driver + (T) + (P) for a list of op lists; observe_from(ops) = index of the first op after which the
    model is looked at (default: all)"""
    cases = [{"kind": "hist", "ops": ops} for ops in hists]
    if observe_from is not None:
        for c in cases:
            k = observe_from(c["ops"])
            c["observe"] = [i >= k for i in range(len(c["ops"]))]
    res = fw.run_driver("c03", cases)
    terms = []
    keep = []
    for ci, (c, r) in enumerate(zip(cases, res)):
        broken = next((i for i, st in enumerate(r["steps"]) if st["spaces"] is None and not st.get("skipped")), None)
        if broken is not None:
            out.p_failures.append({"case": c["ops"][:broken + 1], "suite": label,
                                   "detail": "the model cannot be observed any more after the last operation: %s" % r["steps"][broken]["exc"],
                                   "script": script_of(c["ops"][:broken + 1])})
            continue
        fo = frame_oracle(c["ops"], r["steps"])
        if fo is not None:
            out.p_failures.append({"case": c["ops"][:fo[0] + 1], "suite": label, "detail": fo[1],
                                   "script": script_of(c["ops"][:fo[0] + 1])})
        keep.append(ci)
        terms.append(chist(c["ops"], r["steps"]))
    nskipped = len(cases) - len(keep)
    cases = [cases[i] for i in keep]
    res_all = res
    res = [res[i] for i in keep]
    bad = fw.run_coq_cases(tag, REQ, CASE_T, "check_both", terms, shard=40)
    if bad:
        sub = [terms[i] for i in bad]
        badt = set(fw.run_coq_cases(tag + "_t", REQ, CASE_T, "check_tie", sub, shard=40))
        badp = set(fw.run_coq_cases(tag + "_p", REQ, CASE_T, "check_p", sub, shard=40))
        for j, i in enumerate(bad):
            ops, steps = cases[i]["ops"], res[i]["steps"]
            if j in badp:
                k = next((n for n, st in enumerate(steps) if st["spaces"] is not None and py_oracle(st["spaces"])), len(steps) - 1)
                out.p_failures.append({"case": ops[:k + 1], "suite": label,
                                       "detail": "after op %d %r the implementation's members/bases differ from the re-derivation of its own defined members: %s"
                                                 % (k, ops[k], py_oracle(steps[k]["spaces"]) or "(evaluation / Coq check_snapshot)"),
                                       "observed": steps[k]["spaces"], "script": script_of(ops[:k + 1])})
            if j in badt:
                out.tie_mismatches.append({"case": ops, "suite": label, "impl": [(st["out"], st["exc"]) for st in steps],
                                           "detail": "Defs/Model.v step and the implementation disagree (outcome or observation)",
                                           "script": script_of(ops)})
    out.evaluations += len(cases) + nskipped
    out.traces_validated += len(cases) - len(bad)
    return res


def canon(ops):
    return json.dumps(ops)


def nontrivial(ops):
    """exercises the focus: some space with >= 2 direct bases or a chain of depth >= 2, and a member edit
    in a space that has sub spaces"""
    g = {}
    multi = False
    for op in ops:
        if op[0] == "NewSpace":
            g[op[1]] = list(op[2])
        if op[0] in ("NewSpace", "AddBases") and (len(op[2]) >= 2 or any(g.get(b) for b in op[2])):
            multi = True
    based = {b for bs in g.values() for b in bs}
    return multi and any(op[0] in ("NewCells", "SetFormula", "DelCells", "NewRef", "ChangeRef", "DelRef", "RemoveBases", "AddBases")
                         and (op[1] in based or op[0] in ("RemoveBases", "AddBases")) for op in ops)


def suite_hist(tier, rng, out):
    gen = Gen(rng)
    n = 260 if tier == "quick" else 3000
    hists = []
    for _ in range(n):
        hists.append(gen.history(rng.randint(2, 7), rng.randint(5, 25)))
    res = run_histories("C03hist", hists, out, "hist")
    out.distinct_nontrivial += len({canon(h) for h in hists if nontrivial(h)})
    derived_seen = sum(1 for r in res for st in r["steps"][-1:] for o in st["spaces"].values() for m in o["cells"].values() if m[0])
    out.distribution["hist"] = {"histories": len(hists), "ops": sum(len(h) for h in hists), "op_kinds": dict(sorted(gen.kinds.items())),
                                "draws_filtered_by_defect_trigger": dict(sorted(gen.filtered.items())),
                                "derived_cells_in_final_states": derived_seen,
                                "nontrivial": sum(1 for h in hists if nontrivial(h))}
    out.samples.append({"suite": "hist", "ops": hists[0]})
    return gen.filtered


def suite_exh(tier, rng, out):
    filtered = {}
    if tier == "quick":
        hists = exhaustive(3, 2, ("cells", "bases"), filtered)
        desc = "all ordered-base DAGs on <= 3 spaces x enabled cells/base edit sequences of length <= 2"
    else:
        hists = exhaustive(4, 3, ("cells",), filtered) + exhaustive(4, 2, ("cells", "bases"), filtered) \
            + exhaustive(4, 2, ("refs",), filtered) + exhaustive(3, 3, ("cells", "bases"), filtered) \
            + exhaustive(3, 2, ("cells", "refs", "bases"), filtered)
        desc = ("all ordered-base DAGs on <= 4 spaces x enabled cells edit sequences of length <= 3, "
                "x cells/base edit sequences of length <= 2, x reference edit sequences of length <= 2; "
                "<= 3 spaces x cells/base edits of length <= 3 and x cells/refs/base edits of length <= 2")
    seen, uniq = set(), []
    for h in hists:
        c = canon(h)
        if c not in seen:
            seen.add(c); uniq.append(h)
    # the DAG construction prefix is observed once, at its end
    run_histories("C03exh", uniq, out, "exh",
                  observe_from=lambda ops: max(0, next((i for i, o in enumerate(ops) if o[0] != "NewSpace"), len(ops)) - 1))
    out.distinct_nontrivial += len([h for h in uniq if nontrivial(h)])
    out.distribution["exh"] = {"histories": len(uniq), "what": desc, "draws_filtered_by_defect_trigger": dict(sorted(filtered.items()))}
    out.extra["exhaustive"] = True
    out.extra["exhaustive_scope"] = desc
    out.samples.append({"suite": "exh", "ops": uniq[len(uniq) // 2]})


def suite_corpus(out):
    """stored witnesses of the recorded defects (finding_<key>.json) and minimised histories (hist_*.json)"""
    d = os.path.join(fw.VERIF, "corpus", "C03")
    wit = sorted(glob.glob(os.path.join(d, "finding_*.json")))
    data = [json.load(open(p)) for p in wit]
    if data:
        res = fw.run_driver("c03", [{"kind": "hist", "ops": w["ops"]} for w in data])
        for w, r in zip(data, res):
            last = r["steps"][-1]
            why = py_oracle(last["spaces"]) if last["spaces"] is not None else "model cannot be observed: %s" % last["exc"]
            for sname, kind, n, want in w.get("expect_members", []):
                got = (last["spaces"] or {}).get(sname, {}).get(kind, {}).get(n)
                if why is None and got != want:
                    why = "%s.%s is %r, the defined member %r was expected to survive" % (sname, n, got, want)
            fw.witness_result(out, "C03", w["key"], why is not None, w["text"],
                              {"case": w["ops"], "script": script_of(w["ops"]), "observed": last["spaces"], "why": why})
            out.notes.append("witness %s: %s" % (w["key"], "still fails: " + why if why else "no longer fails"))
    reg = sorted(glob.glob(os.path.join(d, "hist_*.json")))
    hs = [json.load(open(p))["ops"] for p in reg]
    if hs:
        run_histories("C03corpus", hs, out, "corpus")
    out.distribution["corpus"] = {"witnesses": len(data), "regression_histories": len(hs)}


def run(tier, seed, rng):
    out = Outcome()
    out.rule = ("mro: every ordered-base DAG on <= 4 (thorough 5) nodes + random DAGs on 5-9 nodes, non-trivial = some node with >= 2 bases, distinct by graph; "
                "hist: random DAG construction on 2-7 spaces interleaved with member definitions, then 5-25 member/base edits steered by a mirror "
                "of the ideal model (mostly accepted edits, defect triggers filtered); exh: exhaustive small DAGs x enabled edit sequences; "
                "non-trivial history = has a space with >= 2 bases or an inheritance chain of depth >= 2 and edits a space that has sub spaces "
                "or edits bases; distinct by the exact op list")
    suite_corpus(out)
    suite_mro(tier, rng, out)
    suite_hist(tier, rng, out)
    suite_exh(tier, rng, out)
    out.notes.append("defect triggers avoided by the generators: D1 D2 D3 D13 D33 D34 (see module docstring); counts in coverage.distribution.*.draws_filtered_by_defect_trigger")
    return out


def replay(data):
    ops = data.get("case")
    if not isinstance(ops, list) or not ops or not isinstance(ops[0], list):
        print(json.dumps(data, indent=1)[:4000])
        return 0
    res = fw.run_driver("c03", [{"kind": "hist", "ops": ops}])[0]
    bad = 0
    for op, st in zip(ops, res["steps"]):
        why = py_oracle(st["spaces"]) if st["spaces"] is not None else st["exc"]
        print(op, "->", st["out"], st["exc"] or "", "| oracle:", why or "ok")
        bad += why is not None
    fo = frame_oracle(ops, res["steps"])
    if fo is not None:
        print("step %d: %s" % fo)
        bad += 1
    print(script_of(ops))
    print("REPLAY: property fails" if bad else "REPLAY: property holds on this history")
    return 1 if bad else 0
