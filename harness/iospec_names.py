"""numbering shared by harness/props/C18.py, harness/drivers/iospec.py and coq/theories/IOSpec/Model.v"""
NAMES = {0: "S0", 1: "S1", 2: "S2", 10: "x", 11: "y", 12: "z", 20: "c", 21: "k", 30: "g", 31: "h",
         1000: "_p", 1001: "1q"}
PATHS = {0: "a.csv", 1: "b.csv", 2: "d/e.xlsx", 3: "f.xlsx", 4: "mod/m1.py", 5: "mod/m2.py"}
SHEETS = {1: "s1", 2: "s2", 3: "s3", 8: "Sheet1", 9: ""}
