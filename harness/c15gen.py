"""C15 helpers shared by props/C15.py and drivers/export.py: the formula AST
(JSON lists mirroring Export/Model.v [expr]), its Python printer, the inverse
parser from Python's ast, the Gallina emitter, scope analysis for the
known-defect trigger predicates, and the seeded model generator.

Reference value specs: ["int",z] ["bool",b] ["str",s] ["float",repr] ["none",None] ["list",[..]] ["dict",[[k,v]..]]
["tuple",[..]] ["space",i] ["cells",i,name] ["module",name] and ["lit",key]: an instance of a SUBCLASS of
int/float/str from c15lits.LITS (IntEnum/StrEnum members, float/str/int subclasses); such references are read only
by the "probe" cells (spec flag "probe", names PROBE_NAMES, listed in case["probes"]), never by int-typed formulas.

AST nodes:
 ["int",z] ["none"] ["name",x] ["attr",e,a] ["bin",op,a,b] ["if",c,a,b]
 ["call",f,[args],[kwnames],[kwvals]] ["sub",e,[idx]] ["lam",[ps],body]
 ["list",[es]] ["comp",kind,elt,x,iter,[conds]] ["let",x,e1,rest]
 ["def",f,[ps],fbody,rest]
"""
import ast as pyast
import c15lits as L

BINOPS = {"Add": "+", "Sub": "-", "Mul": "*", "FloorDiv": "//", "Mod": "%", "Lt": "<", "Eq": "=="}
PY_BIN = {pyast.Add: "Add", pyast.Sub: "Sub", pyast.Mult: "Mul", pyast.FloorDiv: "FloorDiv", pyast.Mod: "Mod"}
PY_CMP = {pyast.Lt: "Lt", pyast.Eq: "Eq"}


# --------------------------------------------------------------------------
# printer
# --------------------------------------------------------------------------
def pexpr(e):
    k = e[0]
    if k == "int":
        return str(e[1]) if e[1] >= 0 else "(%d)" % e[1]
    if k == "none":
        return "None"
    if k == "name":
        return e[1]
    if k == "attr":
        return "%s.%s" % (pexpr(e[1]), e[2])
    if k == "bin":
        return "(%s %s %s)" % (pexpr(e[2]), BINOPS[e[1]], pexpr(e[3]))
    if k == "if":
        return "(%s if %s else %s)" % (pexpr(e[2]), pexpr(e[1]), pexpr(e[3]))
    if k == "call":
        args = [pexpr(a) for a in e[2]] + ["%s=%s" % (n, pexpr(v)) for n, v in zip(e[3], e[4])]
        return "%s(%s)" % (pexpr(e[1]), ", ".join(args))
    if k == "sub":
        return "%s[%s]" % (pexpr(e[1]), ", ".join(pexpr(a) for a in e[2]))
    if k == "lam":
        return "(lambda %s: %s)" % (", ".join(e[1]), pexpr(e[2])) if e[1] else "(lambda: %s)" % pexpr(e[2])
    if k == "list":
        return "[%s]" % ", ".join(pexpr(a) for a in e[1])
    if k == "comp":
        conds = "".join(" if %s" % pexpr(c) for c in e[5])
        body = "%s for %s in %s%s" % (pexpr(e[2]), e[3], pexpr(e[4]), conds)
        return "[%s]" % body if e[1] == "CList" else "(%s)" % body
    raise ValueError("statement form %s in expression position" % k)


def pblock(e, ind):
    pad = "    " * ind
    if e[0] == "let":
        return "%s%s = %s\n" % (pad, e[1], pexpr(e[2])) + pblock(e[3], ind)
    if e[0] == "def":
        return "%sdef %s(%s):\n" % (pad, e[1], ", ".join(e[2])) + pblock(e[3], ind + 1) + pblock(e[4], ind)
    return "%sreturn %s\n" % (pad, pexpr(e))


def is_block(e):
    return e[0] in ("let", "def")


def formula_source(name, params, body, style):
    """params: list of [name, default-int-or-None]"""
    ps = ", ".join(p if d is None else "%s=%s" % (p, d) for p, d in params)
    if style == "lambda" and not is_block(body):
        return "lambda %s: %s" % (ps, pexpr(body)) if ps else "lambda: %s" % pexpr(body)
    return "def %s(%s):\n" % (name, ps) + pblock(body, 1)


# --------------------------------------------------------------------------
# parser (python ast -> formula AST); raises Unsupported outside the grammar
# --------------------------------------------------------------------------
class Unsupported(Exception):
    pass


def from_py(n):
    if isinstance(n, pyast.Constant):
        if n.value is None:
            return ["none"]
        if type(n.value) is int:
            return ["int", n.value]
        raise Unsupported("constant %r" % (n.value,))
    if isinstance(n, pyast.UnaryOp) and isinstance(n.op, pyast.USub) and isinstance(n.operand, pyast.Constant) \
            and type(n.operand.value) is int:
        return ["int", -n.operand.value]
    if isinstance(n, pyast.Name):
        return ["name", n.id]
    if isinstance(n, pyast.Attribute):
        return ["attr", from_py(n.value), n.attr]
    if isinstance(n, pyast.BinOp) and type(n.op) in PY_BIN:
        return ["bin", PY_BIN[type(n.op)], from_py(n.left), from_py(n.right)]
    if isinstance(n, pyast.Compare) and len(n.ops) == 1 and type(n.ops[0]) in PY_CMP:
        return ["bin", PY_CMP[type(n.ops[0])], from_py(n.left), from_py(n.comparators[0])]
    if isinstance(n, pyast.IfExp):
        return ["if", from_py(n.test), from_py(n.body), from_py(n.orelse)]
    if isinstance(n, pyast.Call):
        if any(k.arg is None for k in n.keywords) or any(isinstance(a, pyast.Starred) for a in n.args):
            raise Unsupported("star args")
        return ["call", from_py(n.func), [from_py(a) for a in n.args],
                [k.arg for k in n.keywords], [from_py(k.value) for k in n.keywords]]
    if isinstance(n, pyast.Subscript):
        sl = n.slice
        idx = [from_py(a) for a in sl.elts] if isinstance(sl, pyast.Tuple) else [from_py(sl)]
        return ["sub", from_py(n.value), idx]
    if isinstance(n, pyast.Lambda):
        a = n.args
        if a.defaults or a.kwonlyargs or a.vararg or a.kwarg or a.posonlyargs:
            raise Unsupported("lambda parameters")
        return ["lam", [x.arg for x in a.args], from_py(n.body)]
    if isinstance(n, pyast.List):
        return ["list", [from_py(a) for a in n.elts]]
    if isinstance(n, (pyast.ListComp, pyast.GeneratorExp)):
        if len(n.generators) != 1 or n.generators[0].is_async or not isinstance(n.generators[0].target, pyast.Name):
            raise Unsupported("comprehension shape")
        g = n.generators[0]
        return ["comp", "CList" if isinstance(n, pyast.ListComp) else "CGen", from_py(n.elt), g.target.id,
                from_py(g.iter), [from_py(c) for c in g.ifs]]
    raise Unsupported(type(n).__name__)


def block_from_py(stmts):
    s = stmts[0]
    if isinstance(s, pyast.Return) and len(stmts) == 1 and s.value is not None:
        return from_py(s.value)
    if isinstance(s, pyast.Assign) and len(s.targets) == 1 and isinstance(s.targets[0], pyast.Name) and len(stmts) > 1:
        return ["let", s.targets[0].id, from_py(s.value), block_from_py(stmts[1:])]
    if isinstance(s, pyast.FunctionDef) and len(stmts) > 1:
        a = s.args
        if a.defaults or a.kwonlyargs or a.vararg or a.kwarg or a.posonlyargs or s.decorator_list:
            raise Unsupported("def parameters")
        return ["def", s.name, [x.arg for x in a.args], block_from_py(s.body), block_from_py(stmts[1:])]
    raise Unsupported("statement %s" % type(s).__name__)


def funcs_from_source(src):
    """{function name: (param names, body AST)} for every top-level def / a single lambda"""
    src = src.strip()
    mod = pyast.parse(src)
    out = {}
    for s in mod.body:
        if isinstance(s, pyast.FunctionDef):
            out[s.name] = ([x.arg for x in s.args.args], block_from_py(s.body))
        elif isinstance(s, pyast.Expr) and isinstance(s.value, pyast.Lambda):
            out["<lambda>"] = ([x.arg for x in s.value.args.args], from_py(s.value.body))
    return out


# --------------------------------------------------------------------------
# Gallina emitter
# --------------------------------------------------------------------------
def _cs(s):
    assert all(32 <= ord(c) < 127 and c != '"' for c in s), s
    return '"%s"' % s


def _cl(items):
    return "[" + "; ".join(items) + "]"


def coq_expr(e):
    k = e[0]
    if k == "int":
        return "(EInt (%d))" % e[1]
    if k == "none":
        return "ENone"
    if k == "name":
        return "(EName %s)" % _cs(e[1])
    if k == "attr":
        return "(EAttr %s %s)" % (coq_expr(e[1]), _cs(e[2]))
    if k == "bin":
        return "(EBin %s %s %s)" % (e[1], coq_expr(e[2]), coq_expr(e[3]))
    if k == "if":
        return "(EIf %s %s %s)" % (coq_expr(e[1]), coq_expr(e[2]), coq_expr(e[3]))
    if k == "call":
        return "(ECall %s %s %s %s)" % (coq_expr(e[1]), _cl([coq_expr(a) for a in e[2]]),
                                       _cl([_cs(n) for n in e[3]]), _cl([coq_expr(a) for a in e[4]]))
    if k == "sub":
        return "(ESub %s %s)" % (coq_expr(e[1]), _cl([coq_expr(a) for a in e[2]]))
    if k == "lam":
        return "(ELam %s %s)" % (_cl([_cs(p) for p in e[1]]), coq_expr(e[2]))
    if k == "list":
        return "(EList %s)" % _cl([coq_expr(a) for a in e[1]])
    if k == "comp":
        return "(EComp %s %s %s %s %s)" % (e[1], coq_expr(e[2]), _cs(e[3]), coq_expr(e[4]),
                                          _cl([coq_expr(c) for c in e[5]]))
    if k == "let":
        return "(ELet %s %s %s)" % (_cs(e[1]), coq_expr(e[2]), coq_expr(e[3]))
    if k == "def":
        return "(EDef %s %s %s %s)" % (_cs(e[1]), _cl([_cs(p) for p in e[2]]), coq_expr(e[3]), coq_expr(e[4]))
    raise ValueError(k)


# --------------------------------------------------------------------------
# scope analysis (generator side; independent of the Coq model) used for the
# trigger predicates of the known defects
# --------------------------------------------------------------------------
def assigned(e):
    k = e[0]
    if k in ("int", "none", "name", "lam"):
        return []
    if k == "attr":
        return assigned(e[1])
    if k == "bin":
        return assigned(e[2]) + assigned(e[3])
    if k == "if":
        return assigned(e[1]) + assigned(e[2]) + assigned(e[3])
    if k == "call":
        return assigned(e[1]) + [x for a in e[2] for x in assigned(a)] + [x for a in e[4] for x in assigned(a)]
    if k == "sub":
        return assigned(e[1]) + [x for a in e[2] for x in assigned(a)]
    if k == "list":
        return [x for a in e[1] for x in assigned(a)]
    if k == "comp":
        return assigned(e[4])
    if k == "let":
        return [e[1]] + assigned(e[2]) + assigned(e[3])
    if k == "def":
        return [e[1]] + assigned(e[4])
    raise ValueError(k)


class Scan:
    """walks a top-level function in the order symtable opens scopes and
    records: global name occurrences, keyword names with the scope they are in,
    the pre-order list of scopes, comprehension variables"""

    def __init__(self, params, body):
        self.scopes = []        # dicts: kind fn|lam|def|gen|lcomp, parent, bearer (index of nearest table-bearing scope incl. itself)
        self.globals_in = {}    # scope index (table bearer) -> set of global names read there
        self.all_globals = []   # (name, bearer) in visiting order
        self.kwnames = []       # (kwname, bearer, sc tuple)
        self.lcomp_vars = []    # (var, scope index)
        self.names = set()
        self.flags = set()
        top = self.open("fn", None)
        self.visit(body, list(params) + assigned(body), top)
        self.names |= set(params)

    def open(self, kind, parent):
        i = len(self.scopes)
        bearer = i if kind != "lcomp" else self.scopes[parent]["bearer"]
        self.scopes.append({"kind": kind, "parent": parent, "bearer": bearer})
        return i

    def visit(self, e, sc, cur):
        k = e[0]
        if k in ("int", "none"):
            return
        if k == "name":
            self.names.add(e[1])
            if e[1] not in sc:
                b = self.scopes[cur]["bearer"]
                self.globals_in.setdefault(b, set()).add(e[1])
                self.all_globals.append((e[1], cur))
            return
        if k == "attr":
            return self.visit(e[1], sc, cur)
        if k == "bin":
            self.visit(e[2], sc, cur); self.visit(e[3], sc, cur); return
        if k == "if":
            # ifexp_order (function scopes in both a and c of  a if c else b): repaired in /repo.
            # symtable opens the scopes of the test first (c, a, b); py312_comp_sibling relies on that order
            self.visit(e[1], sc, cur)
            self.visit(e[2], sc, cur)
            self.visit(e[3], sc, cur); return
        if k == "call":
            self.visit(e[1], sc, cur)
            for a in e[2]:
                self.visit(a, sc, cur)
            for n, a in zip(e[3], e[4]):
                self.kwnames.append((n, cur, tuple(sc)))
                self.visit(a, sc, cur)
            return
        if k == "sub":
            self.visit(e[1], sc, cur)
            for a in e[2]:
                self.visit(a, sc, cur)
            return
        if k == "list":
            for a in e[1]:
                self.visit(a, sc, cur)
            return
        if k == "lam":
            self.names |= set(e[1])
            i = self.open("lam", cur)
            return self.visit(e[2], list(e[1]) + assigned(e[2]) + sc, i)
        if k == "comp":
            self.names.add(e[3])
            self.visit(e[4], sc, cur)
            i = self.open("lcomp" if e[1] == "CList" else "gen", cur)
            if e[1] == "CList":
                self.lcomp_vars.append((e[3], i))
            sc2 = [e[3]] + assigned(e[2]) + [x for c in e[5] for x in assigned(c)] + sc
            for c in e[5]:
                self.visit(c, sc2, i)
            return self.visit(e[2], sc2, i)
        if k == "let":
            self.names.add(e[1])
            self.visit(e[2], sc, cur)
            return self.visit(e[3], sc, cur)
        if k == "def":
            self.names |= {e[1]} | set(e[2])
            i = self.open("def", cur)
            self.visit(e[3], list(e[2]) + assigned(e[3]) + sc, i)
            return self.visit(e[4], sc, cur)
        raise ValueError(k)


def binds_self(params, body):
    """the formula has a parameter, local variable, nested function, lambda parameter or comprehension variable named
    `self`: outside the export subset (Export/Model.v no_self, Run.v stbl_okb); export refuses the model"""
    def bound(e):
        if not isinstance(e, list) or not e:
            return []
        k = e[0]
        out = []
        if k == "lam":
            out += e[1]
        elif k == "comp":
            out.append(e[3])
        elif k == "let":
            out.append(e[1])
        elif k == "def":
            out += [e[1]] + list(e[2])
        for x in e[1:]:
            if isinstance(x, list):
                out += bound(x) if (x and isinstance(x[0], str) and x[0] in NODE_KINDS) else [b for y in x for b in bound(y)]
        return out
    return "self" in list(params) + bound(body)


NODE_KINDS = ("int", "none", "name", "attr", "bin", "if", "call", "sub", "lam", "list", "comp", "let", "def")


def would_replace(x, top, builtins):
    return x in top or x not in builtins


def py312_comp_sibling(s):
    """Scan s: some name is bound by an inlined comprehension, read as a global in an inlined comprehension of the same
    function that is opened later, and read as a global neither by the function's own block nor by an inlined
    comprehension opened earlier (the name is then a global of the function already when the binder is inlined)"""
    for v, i in s.lcomp_vars:
        b = s.scopes[i]["bearer"]
        if any(n == v and s.scopes[cur]["bearer"] == b and (cur == b or cur < i) for n, cur in s.all_globals):
            continue
        if any(n == v and cur > i and s.scopes[cur]["kind"] == "lcomp" and s.scopes[cur]["bearer"] == b for n, cur in s.all_globals):
            return True
    return False


def triggers(params, body, top, builtins):
    """set of known-defect keys whose trigger condition holds for this formula.
    top = names assigned at module level of the source given to FormulaTransformer"""
    s = Scan(params, body)
    out = set(s.flags)
    # self_local: repaired in /repo (export refuses a formula that binds `self`: binds_self below, props/C15.py expects the refusal)
    # D29: a keyword-argument name that the symbol table of its scope lists as a replaced global
    for n, cur, sc in s.kwnames:
        b = s.scopes[cur]["bearer"]
        if n not in sc and n in s.globals_in.get(b, ()) and would_replace(n, top, builtins):
            out.add("D29")
    # comp_scope (an inlined list comprehension after a sibling lambda / def / generator expression): repaired in /repo
    # comp_var (the variable of an inlined comprehension is also read as a global somewhere in the formula): repaired in /repo
    # What stays out is a defect of CPython 3.12.1 itself, not of modelx (the MODEL raises UnboundLocalError): a name that is the
    # variable of one inlined comprehension and a global read in a LATER inlined comprehension of the same function, and that
    # the function mentions neither outside comprehensions nor in an earlier one, is compiled as a local of the function
    # (symtable.c inline_comprehension copies it as a local; the later comprehension then reads the unbound local):
    #     def f(r): a = [r for k in range(1)]; return [4 for w in range(1) if r < k]        # k is a module global
    if py312_comp_sibling(s):
        out.add("cpython3121_comp_sibling")
    return out


# --------------------------------------------------------------------------
# canonical values (both the modelx side and the exported side use this)
# --------------------------------------------------------------------------
def canon(v, depth=0):
    if v is None:
        return ["n"]
    if type(v) is bool:
        return ["i", int(v)]     # True == 1 (and they share memo keys): compared as Python's == does
    if type(v) is int:
        return ["i", v]
    if type(v) is float:
        return ["fl", repr(v)]
    if type(v) is str:
        return ["s", v]
    for base in (int, float, str):
        # instance of a SUBCLASS of a literal type (IntEnum / StrEnum member, float subclass ...): the exact type counts
        if isinstance(v, base):
            return ["sub", "%s.%s" % (type(v).__module__, type(v).__qualname__), canon(base(v), depth + 1)]
    if isinstance(v, (list, tuple)) and depth < 6:
        return ["l" if isinstance(v, list) else "t", [canon(x, depth + 1) for x in v]]
    if isinstance(v, dict) and depth < 6:
        return ["d", sorted([[canon(a, depth + 1), canon(b, depth + 1)] for a, b in v.items()], key=repr)]
    if isinstance(v, range):
        return ["r", v.start, v.stop, v.step]
    if callable(v):
        return ["fn"]
    return ["o", type(v).__name__]


# --------------------------------------------------------------------------
# generator of models in the documented export subset
# --------------------------------------------------------------------------
LOCALS = ["x", "y", "z", "a", "b", "t", "u", "i", "w", "val"]     # "val": the name of the cache wrapper's local before /repo fix val_param
FN_LOCALS = ["g", "h", "aux", "fn"]
CELL_NAMES = ["foo", "bar", "baz", "qux", "c1", "c2", "min", "len", "abs"]
INT_REFS = ["k", "r", "m1", "max", "id", "sum", "x", "a"]       # some shadow built-ins, some collide with local names
LIST_REFS = ["lst", "d2", "list", "vals"]
SPACE_REFS = ["sp", "other", "s2"]
CELL_REFS = ["cf", "cg"]
BI_INT_OF_LIST = ["sum", "max", "min", "len"]
# references whose values are instances of subclasses of int / float / str (c15lits), and the "probe" cells that
# use them in a type-sensitive way.  These names are disjoint from every other name list, so no int-typed formula
# reads them: they are covered by (P) and the namespace check only (the Gallina values have no strings / enums).
LIT_REFS = ["hs", "hm", "sg", "rt", "cd", "ni", "value", "real"]   # the last two: names that are also attributes
ATTR_NAMED = {"value": ["ienum", "senum"], "real": ["ienum", "num", "rate", "xfloat"]}
MODEL_LIT_REFS = ["ghs", "grt", "gcd"]
PROBE_NAMES = ["pr1", "pr2", "pr3"]
ARITH = ["Add", "Add", "Sub", "Mul"]
P_SELF = 0.002      # chance that a fresh local / parameter is named `self` (about 3 models in 100 are then refused by export)


class Gen:
    """typed random generator; ctx: dict name -> kind
    kinds: ("int",) ("list",) ("dead",) ("fn", arity, kwnames|None, level, recursive)
           ("space", info) ("bi", name)   info = {"ints","lists","cells","params"}"""

    def __init__(self, rng, py_builtins):
        self.rng = rng
        self.bi = set(py_builtins)

    # ---- expressions ----
    def pick(self, ctx, tag):
        return [n for n, k in ctx.items() if k[0] == tag]

    def fresh_local(self, ctx, avoid=()):
        r = self.rng
        # mostly plain locals, sometimes a name that shadows a global of the namespace
        if r.random() < 0.25:
            cand = [n for n, k in ctx.items() if k[0] in ("int", "list", "fn", "bi") and n not in avoid and n != "self"]
            if cand:
                return r.choice(cand)
        cand = [n for n in LOCALS if n not in avoid]
        if "self" not in avoid and r.random() < P_SELF:
            return "self"       # self_local, repaired in /repo: a model with such a formula must be refused by export
        return r.choice(cand)

    def g_int(self, ctx, d, budget):
        r = self.rng
        ints = self.pick(ctx, "int")
        if d <= 0 or r.random() < 0.12:
            if ints and r.random() < 0.7:
                return ["name", r.choice(ints)]
            return ["int", r.randint(-2, 9)]
        c = r.random()
        if c < 0.20:
            return ["bin", r.choice(ARITH), self.g_int(ctx, d - 1, budget), self.g_int(ctx, d - 1, budget)]
        if c < 0.26:
            return ["bin", r.choice(["Mod", "FloorDiv"]), self.g_int(ctx, d - 1, budget), ["int", r.randint(2, 7)]]
        if c < 0.34:
            cond = ["bin", r.choice(["Lt", "Eq"]), self.g_int(ctx, d - 1, budget), self.g_int(ctx, d - 1, budget)]
            return ["if", cond, self.g_int(ctx, d - 1, budget), self.g_int(ctx, d - 1, budget)]
        if c < 0.50:
            fns = [n for n in self.pick(ctx, "fn") if ctx[n][3] <= budget["level"]]
            if fns and budget["calls"] > 0:
                budget["calls"] -= 1
                return self.g_callfn(ctx, ["name", r.choice(fns)], ctx, d, budget)
        if c < 0.60:
            sps = self.pick(ctx, "space")
            if sps:
                sp = r.choice(sps)
                e = self.g_space_use(ctx, ["name", sp], ctx[sp][1], d, budget)
                if e is not None:
                    return e
        if c < 0.72:
            bis = [n for n in BI_INT_OF_LIST if ctx.get(n, ("x",))[0] == "bi"]
            if bis:
                f = r.choice(bis)
                if f in ("max", "min") and r.random() < 0.3:
                    return ["call", ["name", f], [self.g_int(ctx, d - 1, budget), self.g_int(ctx, d - 1, budget)], [], []]
                if f == "sum" and r.random() < 0.5:
                    return ["call", ["name", "sum"], [self.g_comp(ctx, d - 1, budget, "CGen")], [], []]
                return ["call", ["name", f], [self.g_list(ctx, d - 1, budget)], [], []]
        if c < 0.80:
            n = r.randint(0, 2)
            used = []
            for _ in range(n):
                used.append(self.fresh_local(ctx, used))
            c2 = dict(ctx)
            for p in used:
                c2[p] = ("int",)
            return ["call", ["lam", used, self.g_int(c2, d - 1, budget)], [self.g_int(ctx, d - 1, budget) for _ in used], [], []]
        if c < 0.88:
            ls = self.pick(ctx, "list")
            base = ["name", r.choice(ls)] if ls and r.random() < 0.7 else ["list", [["int", r.randint(0, 9)] for _ in range(3)]]
            return ["sub", base, [["int", r.choice([0, 1, 2, -1])]]]
        if ints:
            return ["name", r.choice(ints)]
        return ["int", r.randint(0, 9)]

    def g_callfn(self, ctx, fexpr, kctx, d, budget, kind=None):
        r = self.rng
        kind = kind or kctx[fexpr[1]]
        _, arity, kwnames, level, rec = kind
        args = [self.g_int(ctx, d - 2, budget) for _ in range(arity)]
        if rec:
            args = [["bin", "Mod", a, ["int", 4]] for a in args]
        nkw = 0
        if kwnames and arity and r.random() < 0.3:
            nkw = r.randint(1, arity)
        if nkw:
            return ["call", fexpr, args[:arity - nkw], list(kwnames[arity - nkw:]), args[arity - nkw:]]
        return ["call", fexpr, args, [], []]

    def g_space_use(self, ctx, spexpr, info, d, budget):
        r = self.rng
        if info.get("params"):
            np = info["params"]
            keyargs = [["int", r.randint(0, 3)] for _ in range(np)]
            inst = ["sub", spexpr, keyargs] if r.random() < 0.5 else ["call", spexpr, keyargs, [], []]
            spexpr = inst
        opts = []
        if info["ints"]:
            opts.append("int")
        cells = [n for n, k in info["cells"].items() if k[3] <= budget["level"]]
        if cells and budget["calls"] > 0:
            opts += ["cell", "cell"]
        if info["lists"]:
            opts.append("list")
        if not opts:
            return None
        o = r.choice(opts)
        if o == "int":
            return ["attr", spexpr, r.choice(sorted(info["ints"]))]
        if o == "list":
            return ["sub", ["attr", spexpr, r.choice(sorted(info["lists"]))], [["int", r.choice([0, 1, -1])]]]
        budget["calls"] -= 1
        n = r.choice(cells)
        return self.g_callfn(ctx, ["attr", spexpr, n], None, d, budget, kind=info["cells"][n])

    def g_comp(self, ctx, d, budget, kind):
        r = self.rng
        it = self.g_iter(ctx, d - 1, budget)
        x = self.fresh_local(ctx)
        c2 = dict(ctx)
        c2[x] = ("int",)
        conds = []
        if r.random() < 0.35:
            conds.append(["bin", "Lt", self.g_int(c2, d - 2, budget), self.g_int(c2, d - 2, budget)])
        return ["comp", kind, self.g_int(c2, d - 1, budget), x, it, conds]

    def g_iter(self, ctx, d, budget):
        r = self.rng
        if ctx.get("range", ("x",))[0] == "bi" and r.random() < 0.4:
            return ["call", ["name", "range"], [["int", r.randint(1, 4)]], [], []]
        return self.g_list(ctx, d, budget)

    def g_list(self, ctx, d, budget):
        r = self.rng
        ls = self.pick(ctx, "list")
        c = r.random()
        if d <= 0 or c < 0.3:
            if ls and r.random() < 0.7:
                return ["name", r.choice(ls)]
            return ["list", [self.g_int(ctx, 0, budget) for _ in range(r.randint(1, 3))]]
        if c < 0.65:
            return self.g_comp(ctx, d, budget, "CList")
        if c < 0.75:
            return ["bin", "Add", self.g_list(ctx, d - 1, budget), self.g_list(ctx, d - 1, budget)]
        if c < 0.85 and ctx.get("sorted", ("x",))[0] == "bi":
            return ["call", ["name", "sorted"], [self.g_list(ctx, d - 1, budget)], [], []]
        sps = self.pick(ctx, "space")
        sps = [s for s in sps if ctx[s][1]["lists"] and not ctx[s][1].get("params")]
        if sps:
            s = r.choice(sps)
            return ["attr", ["name", s], r.choice(sorted(ctx[s][1]["lists"]))]
        return ["list", [self.g_int(ctx, d - 1, budget) for _ in range(r.randint(1, 3))]]

    # ---- function bodies ----
    def g_block(self, ctx, d, budget, nst):
        """statements then a returned int expression"""
        r = self.rng
        plan = []
        used = []
        for _ in range(nst):
            c = r.random()
            if c < 0.4:
                x = self.fresh_local(ctx, used); plan.append(("int", x))
            elif c < 0.55:
                x = self.fresh_local(ctx, used); plan.append(("list", x))
            elif c < 0.8:
                x = r.choice([n for n in FN_LOCALS if n not in used] or ["g9"]); plan.append(("lam", x))
            else:
                x = r.choice([n for n in FN_LOCALS if n not in used] or ["g8"]); plan.append(("def", x))
            used.append(x)
        ctx = dict(ctx)
        for _, x in plan:
            ctx[x] = ("dead",)            # local in the whole body: shadows the global even before assignment
        stmts = []
        for kind, x in plan:
            if kind == "int":
                stmts.append(("let", x, self.g_int(ctx, d - 1, budget))); ctx[x] = ("int",)
            elif kind == "list":
                stmts.append(("let", x, self.g_list(ctx, d - 1, budget))); ctx[x] = ("list",)
            elif kind == "lam":
                n = r.randint(0, 2)
                ps = []
                for _ in range(n):
                    ps.append(self.fresh_local(ctx, ps + [x]))
                c2 = dict(ctx)
                for p in ps:
                    c2[p] = ("int",)
                stmts.append(("let", x, ["lam", ps, self.g_int(c2, d - 1, budget)]))
                ctx[x] = ("fn", n, list(ps), 0, False)
            else:
                n = r.randint(1, 2)
                ps = []
                for _ in range(n):
                    ps.append(self.fresh_local(ctx, ps + [x]))
                c2 = dict(ctx)
                for p in ps:
                    c2[p] = ("int",)
                rec = r.random() < 0.3
                if rec:
                    c3 = dict(c2); c3[x] = ("dead",)
                    inner = self.g_block(c3, d - 1, budget, r.randint(0, 1))
                    # wrap the returned expression of the inner block
                    def wrap(b):
                        if b[0] == "let":
                            return ["let", b[1], b[2], wrap(b[3])]
                        if b[0] == "def":
                            return ["def", b[1], b[2], b[3], wrap(b[4])]
                        call = ["call", ["name", x], [["bin", "Sub", ["name", ps[0]], ["int", 1]]] + [["name", p] for p in ps[1:]], [], []]
                        return ["if", ["bin", "Lt", ["int", 0], ["name", ps[0]]], ["bin", "Add", call, b], ["int", r.randint(0, 3)]]
                    # the recursion variable must still be the parameter: regenerate if the inner block rebinds it
                    if (set(ps) & set(assigned(inner))) or x in assigned(inner):
                        rec = False
                        body = inner
                    else:
                        body = wrap(inner)
                else:
                    body = self.g_block(c2, d - 1, budget, r.randint(0, 1))
                stmts.append(("def", x, ps, body))
                ctx[x] = ("fn", n, list(ps), 0, rec)
        ret = self.g_int(ctx, d, budget)
        for s in reversed(stmts):
            if s[0] == "let":
                ret = ["let", s[1], s[2], ret]
            else:
                ret = ["def", s[1], s[2], s[3], ret]
        return ret


def info_of(sp):
    return {"ints": set(sp["_ints"]), "lists": set(sp["_lists"]), "lits": dict(sp["_lits"]),
            "cells": dict(sp["_cells"]), "params": len(sp["params"]) if sp.get("params") is not None else 0,
            "minparams": len([p for p in (sp.get("params") or []) if p[1] is None])}


def gen_case(rng, cid, py_builtins, stats):
    """one model spec + queries.  Returns None when no formula could be generated."""
    g = Gen(rng, py_builtins)
    r = rng
    bi = set(py_builtins)
    spaces = []

    def new_space(name, parent, bases=(), params=None):
        sp = {"name": name, "parent": parent, "bases": list(bases), "params": params, "refs": [], "cells": [],
              "_ints": {}, "_lists": {}, "_cells": {}, "_spaces": {}, "_order": [], "_done": False,
              "_lits": {}, "_probes": {}, "_porder": []}
        spaces.append(sp)
        return len(spaces) - 1

    # ---- structure ----
    # builtin_child (repaired in /repo): child spaces and ItemSpace parameters are sometimes named like a built-in
    def bi_name(plain, *builtin):
        return r.choice(builtin) if r.random() < 0.3 else plain

    a = new_space("A", None)
    if r.random() < 0.6:
        new_space(bi_name("C", "ord"), a)
    if r.random() < 0.6:
        new_space("B", None, bases=[a])
    if r.random() < 0.65:
        pn, pq = bi_name("n", "id", "abs"), bi_name("q", "pow", "len")
        ps = [[pn, None]] + ([[pq, r.randint(1, 4)]] if r.random() < 0.5 else []) if r.random() < 0.8 else [[pn, None], [pq, None]]
        p = new_space("P", None, params=ps)
        if r.random() < 0.6:
            new_space("Q", p, params=([[bi_name("v", "hash", "sorted"), None]] if r.random() < 0.5 else None))
        if r.random() < 0.3:
            new_space(bi_name("R", "vars"), p)
    if r.random() < 0.4:
        new_space("D", None)
    mrefs = []
    mints = {}
    if r.random() < 0.4:
        nm = r.choice(["gk", "max", "k"])
        mrefs.append([nm, ["int", r.randint(1, 9)]])
        mints[nm] = True
    mlits = {}
    if r.random() < 0.35:
        for nm in r.sample(MODEL_LIT_REFS, r.randint(1, 2)):
            kind = r.choice(L.KINDS)
            mrefs.append([nm, ["lit", r.choice(L.BY_KIND[kind])]])
            mlits[nm] = kind

    def children(i):
        return [j for j, s in enumerate(spaces) if s["parent"] == i]

    def anc_params(i):
        out = []
        j = i
        while j is not None:
            if spaces[j].get("params") is not None:
                out += [p[0] for p in spaces[j]["params"]]
            j = spaces[j]["parent"]
        return out

    done = []
    all_top_names = set(m[0] for m in mrefs)

    def ctx_of(i):
        sp = spaces[i]
        ctx = {n: ("bi", n) for n in ["sum", "max", "min", "len", "abs", "range", "sorted", "list"]}
        for n in mints:
            ctx[n] = ("int",)
        for n in sp["_ints"]:
            ctx[n] = ("int",)
        for n in sp["_lists"]:
            ctx[n] = ("list",)
        for n, inf in sp["_spaces"].items():
            ctx[n] = ("space", inf)
        for j in children(i):
            ctx[spaces[j]["name"]] = ("space", info_of(spaces[j]))
        for n in anc_params(i):
            ctx[n] = ("int",)
        return ctx

    def gen_space(i):
        sp = spaces[i]
        for j in children(i):
            gen_space(j)
        # inherited members (single base): same namespace kinds, then overrides
        for b in sp["bases"]:
            base = spaces[b]
            sp["_ints"].update(base["_ints"]); sp["_lists"].update(base["_lists"])
            sp["_spaces"].update(base["_spaces"])
            sp["_lits"].update(base["_lits"])
            for n in base["_porder"]:
                sp["_probes"][n] = base["_probes"][n]; sp["_porder"].append(n)
            if base.get("_cells_ref"):
                sp.setdefault("_cells_ref", {}).update(base["_cells_ref"])
            for n in base["_order"]:
                sp["_cells"][n] = base["_cells"][n]; sp["_order"].append(n)
            for j in children(b):      # derived child spaces
                pass
        # references
        derived = bool(sp["bases"])
        for n in r.sample(INT_REFS, r.randint(1, 3)):
            if n in sp["_lists"] or n in sp["_spaces"] or n in sp["_cells"] or n in anc_params(i):
                continue
            if derived and n in bi and n not in sp["_ints"]:
                continue        # an inherited formula may use the built-in of that name
            kind = r.random()
            if kind < 0.8:
                sp["refs"].append([n, ["int", r.randint(-3, 12)]])
            else:
                sp["refs"].append([n, ["bool", r.random() < 0.5]])
            sp["_ints"][n] = True
        for n in r.sample(LIST_REFS, r.randint(0, 2)):
            if n in sp["_ints"] or n in sp["_spaces"] or n in sp["_cells"]:
                continue
            if derived and n in bi and n not in sp["_lists"]:
                continue
            sp["refs"].append([n, ["list", [r.randint(0, 9) for _ in range(r.randint(3, 5))]]])
            sp["_lists"][n] = True
        if r.random() < 0.3:
            sp["refs"].append(["txt", [r.choice(["str", "dict", "tuple", "float", "none"]), None]])
            v = sp["refs"][-1][1]
            v[1] = {"str": "he said \"hi\"", "dict": [["p", 1], ["q", [1, 2]]], "tuple": [1, 2], "float": "0.25", "none": None}[v[0]]
        cand = [j for j in done if j != i]
        for n in r.sample(SPACE_REFS, r.randint(0, 2)):
            if not cand or n in sp["_spaces"]:
                continue
            j = r.choice(cand)
            # references into a parametrised tree are only used through item access from outside
            if any(spaces[t].get("params") is not None for t in chain(j)[:-1]):
                continue
            if spaces[j].get("params") is None and any(spaces[t].get("params") is not None for t in chain(j)):
                continue
            mode = r.choice([None, None, "absolute", "auto"])
            sp["refs"].append([n, ["space", j], mode])
            sp["_spaces"][n] = info_of(spaces[j])
        # inside an ItemSpace tree: references to static spaces of the same tree are relative
        # (the instance P[1].R.sib is P[1].Q, exporter ref_copies / _mx_is_in)
        proot = [t for t in chain(i) if spaces[t].get("params") is not None]
        if proot:
            root = proot[-1]
            cand2 = [j for j in done if j != i and spaces[j].get("params") is None and root in chain(j)
                     and all(spaces[t].get("params") is None for t in chain(j)[:chain(j).index(root)])
                     and spaces[j]["_order"]]
            if cand2 and r.random() < 0.7 and "sib" not in sp["_spaces"]:
                j = r.choice(cand2)
                sp["refs"].append(["sib", ["space", j], r.choice([None, "auto", "relative"])])
                sp["_spaces"]["sib"] = info_of(spaces[j])
        for n in r.sample(CELL_REFS, r.randint(0, 1)):
            cj = [j for j in cand if spaces[j]["_order"] and not any(spaces[t].get("params") is not None for t in chain(j))]
            if not cj or n in sp.get("_cells_ref", {}):
                continue        # an inherited cells reference keeps its target (inherited formulas call it with its arity)
            j = r.choice(cj)
            cn = r.choice(spaces[j]["_order"])
            sp["refs"].append([n, ["cells", j, cn]])
            sp["_cells_ref"] = sp.get("_cells_ref", {})
            sp["_cells_ref"][n] = spaces[j]["_cells"][cn]
        # literal-subclass references (an inherited one keeps its kind: inherited probes call its methods)
        if r.random() < 0.55:
            for n in r.sample(LIT_REFS, r.randint(1, 3)):
                kind = sp["_lits"].get(n) or r.choice([k for k in ATTR_NAMED.get(n, L.KINDS) if k in L.KINDS])
                sp["refs"].append([n, ["lit", r.choice(L.BY_KIND[kind])]])
                sp["_lits"][n] = kind
        # cells
        ncells = r.randint(1, 3) if not sp["bases"] else r.randint(0, 2)
        names = [n for n in CELL_NAMES if n not in sp["_ints"] and n not in sp["_lists"] and n not in sp["_spaces"]
                 and n not in sp["_cells"] and n not in anc_params(i) and n not in mints
                 and not (derived and n in bi)]
        r.shuffle(names)
        todo = [(n, None) for n in names[:ncells]]
        if sp["bases"] and sp["_order"] and r.random() < 0.6:
            on = r.choice(sp["_order"])
            todo.insert(0, (on, sp["_cells"][on]))      # override, same arity
        for cname, old in todo:
            for attempt in range(8):
                ctx = ctx_of(i)
                # callable cells: own cells earlier in the order (for an override: before it)
                order = sp["_order"]
                upto = order.index(cname) if cname in order else len(order)
                for n in order[:upto]:
                    ctx[n] = sp["_cells"][n]
                for n, kd in sp.get("_cells_ref", {}).items():
                    ctx[n] = kd
                # cells of this space that are generated later (and the cells itself) are visible globals that
                # must not be used: they would break the call order or be mistaken for the built-in they shadow
                for n in order[upto:] + [t[0] for t in todo]:
                    if n not in order[:upto]:
                        ctx[n] = ("dead",)
                arity = old[1] if old else r.choice([0, 1, 1, 1, 2])
                params = []
                for _ in range(arity):
                    params.append(g.fresh_local(ctx, params + [cname]))
                c2 = dict(ctx)
                for pn in params:
                    c2[pn] = ("int",)
                budget = {"calls": 3, "level": 2}
                style = r.choice(["def", "def", "lambda"])
                rec = arity >= 1 and r.random() < 0.25
                d = r.randint(2, 4)
                if style == "def":
                    body = g.g_block(c2, d, budget, r.randint(0, 3))
                else:
                    body = g.g_int(c2, d, budget)
                if rec and not (set(params) & set(assigned(body))) and cname not in assigned(body):
                    call = ["call", ["name", cname], [["bin", "Sub", ["name", params[0]], ["int", 1]]] + [["name", pn] for pn in params[1:]], [], []]

                    def wrap(b):
                        if b[0] == "let":
                            return ["let", b[1], b[2], wrap(b[3])]
                        if b[0] == "def":
                            return ["def", b[1], b[2], b[3], wrap(b[4])]
                        return ["if", ["bin", "Lt", ["int", 0], ["name", params[0]]], ["bin", "Add", call, b], ["int", r.randint(0, 5)]]
                    body = wrap(body)
                else:
                    rec = False
                pdef = [[pn, None] for pn in params]
                if arity and r.random() < 0.15:
                    pdef[-1][1] = r.randint(0, 3)
                # known-defect triggers (conservative: with every name that is assigned at module level anywhere in the model)
                trig = triggers(params, body, all_top_names | set(sp["_ints"]) | set(sp["_lists"]) | set(sp["_spaces"])
                                | set(sp["_cells"]) | set(sp.get("_cells_ref", {})) | {cname} | set(INT_REFS) | set(LIST_REFS)
                                | set(CELL_NAMES) | set(SPACE_REFS) | set(CELL_REFS), bi)
                if trig:
                    for t in trig:
                        stats["filtered"][t] = stats["filtered"].get(t, 0) + 1
                    continue
                level = 1 + max([0] + [lv for lv in levels_used(body, ctx)])
                kd = ("fn", arity, list(params), level, rec)
                sp["cells"].append({"name": cname, "params": pdef, "body": body, "style": style,
                                    "cached": r.random() < 0.65})
                sp["_cells"][cname] = kd
                if cname not in sp["_order"]:
                    sp["_order"].append(cname)
                break
        gen_probes(i)
        done.append(i)

    def lit_sources(i):
        """(expression, kind) of every literal-subclass reference a formula of space i can read: own and inherited
        references, model-level references, references of child spaces / referenced spaces (ItemSpaces by item access)"""
        sp = spaces[i]
        out = [(["name", n], k) for n, k in sorted(sp["_lits"].items())]
        out += [(["name", n], k) for n, k in sorted(mlits.items())]
        for n, kd in sorted(ctx_of(i).items(), key=lambda t: t[0]):
            if kd[0] != "space" or not kd[1].get("lits"):
                continue
            inf = kd[1]
            spx = ["name", n]
            if inf.get("params"):
                keyargs = [["int", r.randint(0, 3)] for _ in range(inf["params"])]
                spx = ["sub", spx, keyargs] if r.random() < 0.5 else ["call", spx, keyargs, [], []]
            for ln, k in sorted(inf["lits"].items()):
                out.append((["attr", spx, ln], k))
        return out

    def lit_use(R, kind, ints):
        """a type-sensitive expression over the reference expression R (inside the formula grammar)"""
        tn = ["attr", ["call", ["name", "type"], [R], [], []], "__name__"]
        iv = ["name", r.choice(ints)] if ints and r.random() < 0.7 else ["int", r.randint(1, 5)]

        def meth(m, *args):
            return ["call", ["attr", R, m], list(args), [], []]
        opts = [tn, R]
        if R[0] == "name" and R[1] in ATTR_NAMED and r.random() < 0.6:
            # <expr>.N where <expr> contains the global name N itself (value.value, (real + 1).real, real.real)
            if R[1] == "real":
                return r.choice([["attr", R, "real"], ["attr", ["bin", "Add", R, iv], "real"]])
            return ["attr", R, R[1]]
        if kind in ("ienum", "num", "rate", "xfloat"):
            opts += [["attr", R, "real"]]
        if kind in ("ienum", "senum"):
            opts += [["attr", R, "name"], ["attr", R, "value"]]
        if kind == "ienum":
            opts += [["bin", "Add", R, iv], ["bin", "Mul", ["attr", R, "value"], ["int", 2]]]
        elif kind == "senum":
            opts += [meth("lower"), ["bin", "Add", R, ["attr", R, "name"]]]
        elif kind == "rate":
            opts += [meth("monthly"), meth("scaled", iv), ["bin", "Mul", R, ["int", 2]]]
        elif kind == "code":
            opts += [meth("country"), meth("upper"), ["bin", "Add", R, R], ["sub", R, [["int", 0]]]]
        elif kind == "num":
            opts += [meth("double"), meth("bump", iv), ["bin", "Add", R, iv]]
        elif kind == "xfloat":
            opts += [["bin", "Mul", R, ["int", 2]], ["bin", "Add", R, iv]]
        elif kind == "odict":
            # the iteration order of the dict is part of its value
            return r.choice([["call", ["name", "repr"], [R], [], []], ["call", ["name", "repr"], [R], [], []],
                             ["call", ["name", "list"], [R], [], []], ["call", ["name", "list"], [meth("values")], [], []]])
        return r.choice(opts)

    def gen_probes(i):
        """cells returning a list [type name of a literal-subclass reference, type-sensitive uses ...]"""
        sp = spaces[i]
        srcs = lit_sources(i)
        if not srcs or r.random() < 0.15:
            return
        todo = [(n, None) for n in PROBE_NAMES if n not in sp["_probes"]][:r.randint(1, 2)]
        if sp["bases"] and sp["_porder"] and r.random() < 0.3:
            on = r.choice(sp["_porder"])
            todo.insert(0, (on, sp["_probes"][on]))       # override of an inherited probe, same arity
        for pname, old in todo:
            for attempt in range(4):
                arity = old if old is not None else r.choice([0, 1, 1])
                params = ["x"][:arity]
                ints = params + anc_params(i)
                pool = list(srcs)
                body_lets = []
                if r.random() < 0.35:                     # def style: a local alias of a reference
                    R0, k0 = r.choice(srcs)
                    body_lets.append(("w", R0))
                    pool.append((["name", "w"], k0))
                R1, k1 = r.choice(pool)
                elems = [["attr", ["call", ["name", "type"], [R1], [], []], "__name__"]]
                for _ in range(r.randint(1, 4)):
                    R, k = r.choice(pool)
                    elems.append(lit_use(R, k, ints))
                if r.random() < 0.3:
                    rs = [r.choice(pool)[0] for _ in range(r.randint(1, 3))]
                    elems.append(["comp", "CList", ["attr", ["call", ["name", "type"], [["name", "e"]], [], []], "__name__"],
                                  "e", ["list", rs], []])
                body = ["list", elems]
                for x, e in reversed(body_lets):
                    body = ["let", x, e, body]
                trig = triggers(params, body, all_top_names | set(sp["_ints"]) | set(sp["_lists"]) | set(sp["_spaces"])
                                | set(sp["_cells"]) | set(sp.get("_cells_ref", {})) | set(sp["_lits"]) | set(PROBE_NAMES)
                                | set(INT_REFS) | set(LIST_REFS) | set(CELL_NAMES) | set(SPACE_REFS) | set(CELL_REFS)
                                | set(LIT_REFS), bi)
                if trig:
                    for t in trig:
                        stats["filtered"][t] = stats["filtered"].get(t, 0) + 1
                    continue
                sp["cells"].append({"name": pname, "params": [[pn, None] for pn in params], "body": body,
                                    "style": "def" if body_lets else r.choice(["def", "lambda"]),
                                    "cached": r.random() < 0.6, "probe": True})
                sp["_probes"][pname] = arity
                if pname not in sp["_porder"]:
                    sp["_porder"].append(pname)
                break

    def chain(j):
        out = []
        while j is not None:
            out.append(j); j = spaces[j]["parent"]
        return out

    def levels_used(e, ctx):
        out = []

        def go(e):
            if isinstance(e, list):
                if e and e[0] == "call":
                    f = e[1]
                    if f[0] == "name" and ctx.get(f[1], ("x",))[0] == "fn":
                        out.append(ctx[f[1]][3])
                    elif f[0] == "attr":
                        out.append(2)
                for x in e:
                    go(x)
        go(e)
        return out

    for i, sp in enumerate(spaces):
        if sp["parent"] is None:
            gen_space(i)

    # ---- queries ----
    queries = []

    def paths_to(i):
        """paths from the model to space i; parametrised ancestors get item/call segments"""
        ch = list(reversed(chain(i)))
        outs = [[]]
        for j in ch:
            sp = spaces[j]
            new = []
            for p in outs:
                base = p + [["attr", sp["name"]]]
                if sp.get("params") is not None:
                    for _ in range(2):
                        ps = sp["params"]
                        nreq = len([x for x in ps if x[1] is None])
                        na = r.randint(nreq, len(ps))
                        args = [r.randint(0, 3) for _ in range(na)]
                        new.append(base + [[r.choice(["item", "call"]), args]])
                    if j == i and r.random() < 0.3:
                        new.append(base)
                else:
                    new.append(base)
            outs = new[:4]
        return outs

    def add_queries(i, names_cells, prefix_paths):
        for path in prefix_paths:
            for cn, kd in names_cells:
                ar = kd[1]
                for _ in range(2 if ar else 1):
                    queries.append({"path": path, "cell": cn, "args": [r.randint(0, 3) for _ in range(ar)]})

    for i, sp in enumerate(spaces):
        cells = [(n, sp["_cells"][n]) for n in sp["_order"]]
        if cells:
            add_queries(i, cells, paths_to(i))
    if not queries:
        return None
    # probe cells (literal-subclass references): one query per access path, beyond the 40 ordinary queries
    pqueries = []
    for i, sp in enumerate(spaces):
        if sp["_porder"]:
            for path in paths_to(i)[:2]:
                for pn in sp["_porder"]:
                    pqueries.append({"path": path, "cell": pn, "args": [r.randint(0, 3) for _ in range(sp["_probes"][pn])]})
    out_spaces = []
    for sp in spaces:
        out_spaces.append({k: v for k, v in sp.items() if not k.startswith("_")})
    lit_refs = len(mlits) + sum(1 for sp in spaces for rf in sp["refs"] if rf[1][0] == "lit")
    return {"id": cid, "spaces": out_spaces, "mrefs": mrefs, "queries": queries[:40] + pqueries[:12],
            "probes": sorted({pn for sp in spaces for pn in sp["_porder"]}), "lit_refs": lit_refs}
