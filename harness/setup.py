"""setup_cmd: build the Coq closure of every registered check (MANIFEST.json)"""
import json, os, sys, importlib, subprocess
sys.path.insert(0, os.path.dirname(os.path.abspath(__file__)))
import fw
man = json.load(open(os.path.join(fw.VERIF, "MANIFEST.json")))
targets = ["theories/Show/Check.vo"]
for c in man["checks"]:
    p = c["property_id"]
    targets.append("theories/Props/%s.vo" % p)
    mod = importlib.import_module("props." + p)
    targets += [os.path.join("theories", *m.split(".")) + ".vo" for m in getattr(mod, "EXTRA_MODS", [])]
print(fw.make(sorted(set(targets))))
print("setup ok")
