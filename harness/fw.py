"""Shared machinery of the checks: Coq build / assumption audit, running the
real modelx in sub-processes, evaluating the Gallina model on generated cases
with coqc + vm_compute, verdict, evidence and replay files."""
import os, sys, re, json, time, subprocess, hashlib, random, fcntl, shutil, tempfile
from concurrent.futures import ThreadPoolExecutor

VERIF = os.path.dirname(os.path.dirname(os.path.abspath(__file__)))
COQ = os.path.join(VERIF, "coq")
TH = os.path.join(COQ, "theories")
BUILD = os.path.join(VERIF, "build")
PY = "/venv/bin/python"
JOBS = int(os.environ.get("MX_JOBS", "14"))

# axioms of the standard library that a property theorem may depend on
# (DESIGN.md section 8).  Everything else makes the check fail.
ALLOWED_AXIOMS = set()

FORBIDDEN = re.compile(
    r"\b(Admitted|admit|Axiom|Axioms|Parameter|Parameters|Conjecture|Conjectures|"
    r"Hypothesis|Hypotheses|Variable|Variables|Context|Abort)\b|Admit Obligations|Unset Guard|"
    r"Unset Positivity|Unset Universe|bypass_check|type-in-type|impredicative-set|"
    r"native_compute")


def repo():
    return os.environ.get("MODELX_REPO", "/repo")


class Broken(Exception):
    """the check itself cannot run (build failure, harness crash)"""


def log(*a):
    print(*a, file=sys.stderr, flush=True)


# --------------------------------------------------------------------------
# Coq side
# --------------------------------------------------------------------------
def strip_comments(src):
    out, depth, i = [], 0, 0
    while i < len(src):
        if src.startswith("(*", i):
            depth += 1; i += 2
        elif src.startswith("*)", i) and depth:
            depth -= 1; i += 2
        else:
            if not depth:
                out.append(src[i])
            i += 1
    return "".join(out)


def vfile(mod):
    return os.path.join(TH, *mod.split(".")) + ".v"


def closure(mod, seen=None):
    """modules of this development that [mod] transitively requires"""
    seen = seen if seen is not None else []
    if mod in seen:
        return seen
    src = strip_comments(open(vfile(mod)).read())
    deps = []
    for m in re.finditer(r"From\s+MX\s+Require\s+(?:Import\s+|Export\s+)?([\w.\s]+?)\.(?=\s|$)", src):
        deps += m.group(1).split()
    for m in re.finditer(r"(?<!MX\s)Require\s+(?:Import\s+|Export\s+)?((?:MX\.[\w.]*?\s*)+)\.(?=\s|$)", src):
        deps += [d[3:] for d in m.group(1).split() if d.startswith("MX.")]
    for d in deps:
        if not os.path.exists(vfile(d)):
            raise Broken("cannot resolve module %s required by %s" % (d, mod))
        closure(d, seen)
    seen.append(mod)
    return seen


STMT = re.compile(r"^\s*(?:Local\s+|Global\s+|#\[[^\]]*\]\s*)?(Theorem|Lemma|Corollary|Example|Fact|Remark|Proposition)\s+([A-Za-z_][\w']*)", re.M)


def audit_sources(mods):
    """count statements and refuse anything that would declare an axiom"""
    n = 0
    names = []
    for m in mods:
        src = strip_comments(open(vfile(m)).read())
        hit = FORBIDDEN.search(src)
        if hit:
            raise Broken("forbidden vernacular %r in %s" % (hit.group(0), vfile(m)))
        found = STMT.findall(src)
        n += len(found)
        names += [m + "." + x[1] for x in found]
    return n, names


def make(targets):
    os.makedirs(BUILD, exist_ok=True)
    cmd = [os.path.join(COQ, "mk.sh")] + targets
    p = subprocess.run(cmd, stdout=subprocess.PIPE, stderr=subprocess.STDOUT, text=True)
    if p.returncode != 0:
        raise Broken("coq build failed:\n" + p.stdout[-3000:])
    return " ".join(cmd)


def coqc(path, timeout=600):
    cmd = ["timeout", str(timeout), "coqc", "-q", "-Q", TH, "MX", "-w", "none", path]
    p = subprocess.run(cmd, stdout=subprocess.PIPE, stderr=subprocess.STDOUT, text=True, cwd=os.path.dirname(path))
    return p.returncode, p.stdout


def print_assumptions(prop):
    """re-run coqc on Props/Cxx.v (into build/) and parse Print Assumptions"""
    d = os.path.join(BUILD, "pa_" + prop)
    os.makedirs(d, exist_ok=True)
    dst = os.path.join(d, prop + "_pa.v")
    shutil.copy(vfile("Props." + prop), dst)
    rc, out = coqc(dst)
    if rc != 0:
        raise Broken("coqc on Props/%s.v failed:\n%s" % (prop, out[-2000:]))
    src = strip_comments(open(dst).read())
    wanted = re.findall(r"Print\s+Assumptions\s+([\w'.]+)\s*\.", src)
    theorems = [x[1] for x in STMT.findall(src) if x[0] == "Theorem"]
    missing = [t for t in theorems if t not in wanted]
    if missing:
        raise Broken("no Print Assumptions for %s" % missing)
    closed = out.count("Closed under the global context")
    axioms = set()
    for blk in re.findall(r"Axioms:\n((?:.+\n?)*?)(?=\n\S|\Z)", out):
        for line in blk.splitlines():
            m = re.match(r"^([A-Za-z_][\w'.]*)\s*:", line)
            if m:
                axioms.add(m.group(1))
    nblocks = out.count("Axioms:")
    if closed + nblocks != len(wanted):
        raise Broken("Print Assumptions output not understood:\n" + out[-2000:])
    bad = axioms - ALLOWED_AXIOMS
    if bad:
        raise Broken("property theorems depend on axioms not in the trusted base: %s" % sorted(bad))
    return {"theorems": theorems, "closed": closed, "axioms": sorted(axioms)}


# ---- emitting Coq terms ----------------------------------------------------
def cz(n):
    return "(%d)%%Z" % n


def cnat(n):
    assert 0 <= n < 5000
    return "%d%%nat" % n


def cN(n):
    return "%d%%N" % n


def cbool(b):
    return "true" if b else "false"


_SAFE = set(range(32, 127)) - {34}


def cstr(s):
    b = s.encode("utf-8")
    if all(c in _SAFE for c in b):
        return '"%s"%%string' % s
    return "(sb [%s])" % "; ".join("%d%%N" % c for c in b)


def clist(items):
    return "[" + "; ".join(items) + "]"


def ctuple(items):
    return "(" + ", ".join(items) + ")"


def copt(x):
    return "None" if x is None else "(Some %s)" % x


def capp(f, *args):
    return "(" + " ".join([f] + list(args)) + ")" if args else f


def run_coq_cases(tag, requires, case_type, check_fn, case_terms, shard=250, extra_defs="", timeout=900):
    """Evaluate [check_fn : case_type -> bool] on every case with vm_compute;
    returns the sorted list of indices where it is false."""
    d = os.path.join(BUILD, "cases_%s_%d" % (tag, os.getpid()))     # per process: concurrent runs of one check do not collide
    shutil.rmtree(d, ignore_errors=True)
    os.makedirs(d)
    files = []
    for k in range(0, len(case_terms), shard):
        chunk = case_terms[k:k + shard]
        path = os.path.join(d, "cases_%s_%d.v" % (tag, k // shard))
        with open(path, "w") as f:
            f.write("From Coq Require Import List String Ascii ZArith NArith Bool.\n")
            f.write("From MX Require Import Show.Check.\n")
            for r in requires:
                f.write("From MX Require Import %s.\n" % r)
            f.write("Import ListNotations.\nOpen Scope list_scope.\n")
            f.write(extra_defs + "\n")
            f.write("Definition cases : list (%s) :=\n  [ %s ].\n" % (case_type, "\n  ; ".join(chunk)))
            f.write("Eval vm_compute in (failing (%s) cases).\n" % check_fn)
        files.append((k, path))

    def one(item):
        k, path = item
        rc, out = coqc(path, timeout)
        if rc != 0:
            raise Broken("coqc failed on %s:\n%s" % (path, out[-3000:]))
        m = re.search(r"=\s*\[([^\]]*)\]\s*:\s*list nat", out, re.S)
        if not m:
            raise Broken("cannot parse coqc output for %s:\n%s" % (path, out[-2000:]))
        return [k + int(x) for x in re.findall(r"\d+", m.group(1))]

    with ThreadPoolExecutor(max_workers=JOBS) as ex:
        res = list(ex.map(one, files))
    shutil.rmtree(d, ignore_errors=True)
    return sorted(i for r in res for i in r)


def coq_show(tag, requires, term, extra_defs="", timeout=300):
    """vm_compute one term and return coqc's raw output (diagnostics only)"""
    d = os.path.join(BUILD, "show_" + tag)
    os.makedirs(d, exist_ok=True)
    path = os.path.join(d, "show_%s.v" % tag)
    with open(path, "w") as f:
        f.write("From Coq Require Import List String Ascii ZArith NArith Bool.\n")
        f.write("From MX Require Import Show.Check.\n")
        for r in requires:
            f.write("From MX Require Import %s.\n" % r)
        f.write("Import ListNotations.\nOpen Scope list_scope.\n" + extra_defs + "\n")
        f.write("Eval vm_compute in (%s).\n" % term)
    rc, out = coqc(path, timeout)
    return out.strip()


# --------------------------------------------------------------------------
# implementation side
# --------------------------------------------------------------------------
def impl_env():
    env = dict(os.environ)
    env["PYTHONPATH"] = repo() + os.pathsep + os.path.join(VERIF, "harness")
    env["PYTHONHASHSEED"] = "0"
    env["PYTHONDONTWRITEBYTECODE"] = "1"
    env["PYTHONWARNINGS"] = "ignore"
    env["MODELX_VERIF"] = "1"
    return env


def run_driver(driver, cases, chunk=None, timeout=1800, workers=None):
    """run harness/drivers/<driver>.py on the real modelx (imported from
    MODELX_REPO, default /repo); every chunk in a fresh interpreter.
    Returns one result per case, in order."""
    workers = workers or JOBS
    if not cases:
        return []
    chunk = chunk or max(1, min(60, (len(cases) + workers - 1) // workers))
    chunks = [cases[i:i + chunk] for i in range(0, len(cases), chunk)]
    script = os.path.join(VERIF, "harness", "drivers", driver + ".py")

    def one(ch):
        p = subprocess.run(["timeout", str(timeout), PY, script], input=json.dumps(ch), text=True,
                           stdout=subprocess.PIPE, stderr=subprocess.PIPE, env=impl_env(),
                           cwd=BUILD)
        if p.returncode != 0:
            raise Broken("driver %s failed (rc %s):\n%s" % (driver, p.returncode, p.stderr[-3000:]))
        line = [l for l in p.stdout.splitlines() if l.startswith("@@RESULT ")]
        if len(line) != 1:
            raise Broken("driver %s produced no result line:\n%s\n%s" % (driver, p.stdout[-1000:], p.stderr[-2000:]))
        out = json.loads(line[0][9:])
        if len(out) != len(ch):
            raise Broken("driver %s returned %d results for %d cases" % (driver, len(out), len(ch)))
        return out

    os.makedirs(BUILD, exist_ok=True)
    with ThreadPoolExecutor(max_workers=workers) as ex:
        res = list(ex.map(one, chunks))
    return [r for c in res for r in c]


# --------------------------------------------------------------------------
# known findings
# --------------------------------------------------------------------------
def load_findings(prop):
    """lines of KNOWN_FINDINGS.txt: 'finding: property=Cxx key=<k> <text>' and
    'fixed: property=Cxx <commit> <text>'"""
    out = {"finding": [], "fixed": []}
    import glob
    files = [os.path.join(VERIF, "KNOWN_FINDINGS.txt")] + sorted(glob.glob(os.path.join(VERIF, "findings.d", "*.txt")))
    for p in files:
        if not os.path.exists(p):
            continue
        for line in open(p):
            line = line.strip()
            m = re.match(r"^(finding|fixed):\s+property=(\w+)\s+(.*)$", line)
            if m and m.group(2) == prop:
                rest = m.group(3)
                km = re.match(r"key=(\S+)\s+(.*)$", rest)
                out[m.group(1)].append({"key": km.group(1) if km else None,
                                        "text": km.group(2) if km else rest})
    return out


def run_fixed_reproducers(prop, out):
    """regression guard of the repaired defects: every stand-alone reproducer corpus/fixed/<name>.py that a
    'fixed: property=<prop> ...' line of the ledger names is run against the implementation under test; one that
    fails (non-zero exit) is a property failure on a concrete input - the script itself is the replay"""
    import subprocess
    from concurrent.futures import ThreadPoolExecutor
    names = []
    for f in load_findings(prop)["fixed"]:
        for nm in re.findall(r"corpus/fixed/([\w.]+\.py)", f["text"]):
            if nm not in names and os.path.exists(os.path.join(VERIF, "corpus", "fixed", nm)):
                names.append(nm)
    env = impl_env()
    env["PYTHONPATH"] += os.pathsep + os.path.join(VERIF, "harness", "drivers")
    import tempfile

    def one(nm):
        path = os.path.join(VERIF, "corpus", "fixed", nm)
        with tempfile.TemporaryDirectory(prefix="mxfix_") as d:
            try:
                r = subprocess.run(["timeout", "300", PY, path], env=env, cwd=d, stdout=subprocess.PIPE,
                                   stderr=subprocess.STDOUT, text=True)
                return nm, r.returncode, r.stdout[-600:]
            except Exception as e:
                return nm, -1, str(e)
    with ThreadPoolExecutor(max_workers=6) as ex:
        res = list(ex.map(one, names))
    for nm, rc, tail in res:
        if rc != 0:
            out.p_failures.append({"case": {"script": "corpus/fixed/" + nm}, "script": open(os.path.join(VERIF, "corpus", "fixed", nm)).read(),
                                   "detail": "the reproducer of a repaired defect fails again (exit %s): corpus/fixed/%s: %s" % (rc, nm, tail[-300:])})
    out.extra["repaired_defect_reproducers_run"] = len(names)
    out.extra["repaired_defect_reproducers_failing"] = [nm for nm, rc, _ in res if rc != 0]


def witness_result(out, prop, key, fails, text, payload=None):
    """book-keeping for the stored witness of a recorded defect (README: Known defects)"""
    listed = {f["key"] for f in load_findings(prop)["finding"]}
    if fails and key in listed:
        out.known.append("%s %s" % (key, text))
    elif fails:
        out.p_failures.append(dict(payload or {}, detail="witness %s fails and is not listed in KNOWN_FINDINGS.txt: %s" % (key, text)))
    elif key in listed:
        out.stale_findings.append("%s %s" % (key, text))


# --------------------------------------------------------------------------
# verdict / evidence
# --------------------------------------------------------------------------
class Outcome:
    """what a property module returns from run()"""

    def __init__(self):
        self.evaluations = 0          # cases run on both sides
        self.distinct_nontrivial = 0
        self.rule = ""
        self.samples = []
        self.traces_validated = 0     # cases on which (T) agreed
        self.tie_mismatches = []      # dicts: {case, detail}
        self.p_failures = []          # dicts: {case, detail, script}
        self.known = []               # strings for KNOWN-FINDING lines
        self.stale_findings = []      # listed findings whose witness no longer fails
        self.distribution = {}
        self.notes = []
        self.extra = {}


def write_replay(prop, seed, kind, payload):
    d = os.path.join(VERIF, "replays")
    os.makedirs(d, exist_ok=True)
    h = hashlib.sha1(json.dumps(payload, sort_keys=True, default=str).encode()).hexdigest()[:10]
    path = os.path.join(d, "%s-%s-%s-%s.json" % (prop, kind, seed, h))
    with open(path, "w") as f:
        json.dump(payload, f, indent=1, default=str)
    return path


def write_evidence(prop, tier, seed, wall, cov, assumptions, violations, level="proof"):
    os.makedirs(os.path.join(VERIF, "evidence"), exist_ok=True)
    ev = {"property_id": prop, "tier": tier, "seed": seed, "level": level,
          "coverage": cov, "assumptions": assumptions, "wall_s": round(wall, 2),
          "violations": violations}
    with open(os.path.join(VERIF, "evidence", prop + ".json"), "w") as f:
        json.dump(ev, f, indent=1, default=str)


def main(prop, module, argv):
    import argparse
    ap = argparse.ArgumentParser()
    ap.add_argument("--tier", default=os.environ.get("VERIF_TIER", "quick"))
    ap.add_argument("--replay")
    args = ap.parse_args(argv)
    tier = args.tier if args.tier in ("quick", "thorough") else "quick"
    seed = int(os.environ.get("VERIF_SEED", "20260929"))
    t0 = time.time()
    try:
        if args.replay:
            return module.replay(json.load(open(args.replay)))
        # 1. proofs
        mods = closure("Props." + prop)
        nstmt, names = audit_sources(mods)
        mk = make([os.path.join("theories", *m.split(".")) + ".vo" for m in mods if m.startswith("Props.")]
                  + ["theories/Show/Check.vo"] + [os.path.join("theories", *m.split(".")) + ".vo" for m in getattr(module, "EXTRA_MODS", [])])
        pa = print_assumptions(prop)
        chk = None
        if tier == "thorough" and os.environ.get("MX_COQCHK", "1") == "1":
            chk = coqchk(prop)
        # 2. correspondence + property oracle
        rng = random.Random(seed)
        out = module.run(tier, seed, rng)
        run_fixed_reproducers(prop, out)
    except Broken as e:
        print("CHECK-BROKEN property=%s: %s" % (prop, e))
        return 2
    wall = time.time() - t0
    findings = load_findings(prop)
    nviol = 0
    lines = []
    for k in out.known:
        lines.append("KNOWN-FINDING: property=%s %s" % (prop, k))
    for pf in out.p_failures[:5]:
        path = write_replay(prop, seed, "P", dict(pf, property=prop, kind="property-oracle failure on the implementation"))
        lines.append("VIOLATION property=%s replay=%s" % (prop, path)); nviol += 1
    for sf in out.stale_findings:
        lines.append("NOTE property=%s listed finding no longer reproduces: %s" % (prop, sf))
    if out.tie_mismatches and not out.p_failures:
        tm = out.tie_mismatches[0]
        path = write_replay(prop, seed, "T", dict(tm, property=prop,
                            kind="correspondence between Gallina model and implementation no longer checks",
                            theorems=pa["theorems"], other_mismatches=len(out.tie_mismatches) - 1))
        lines.append("VIOLATION property=%s replay=%s no-failing-input-found" % (prop, path)); nviol += 1
    cov = {"obligations": nstmt, "discharged": nstmt,
           "checker_cmd": mk + " ; coqc (Print Assumptions) theories/Props/%s.v" % prop + (" ; " + chk["cmd"] if chk else ""),
           "trusted_base": ["Coq 8.16.1 kernel incl. vm_compute (no native_compute)",
                            "Print Assumptions: %d/%d property theorems closed under the global context; axioms: %s"
                            % (pa["closed"], len(pa["theorems"]), pa["axioms"] or "none"),
                            "hand-written Gallina model tied to /repo by the correspondence harness (harness/*.py, Show/Check.v)"]
                           + getattr(module, "TRUSTED", []),
           "property_theorems": pa["theorems"],
           "evaluations": out.evaluations, "distinct_nontrivial": out.distinct_nontrivial,
           "rule": out.rule, "samples": out.samples[:5],
           "traces_validated_against_impl": out.traces_validated,
           "disagreements_checked": len(out.tie_mismatches) + len(out.p_failures),
           "tie_mismatches": len(out.tie_mismatches), "property_failures": len(out.p_failures),
           "known_findings_printed": out.known, "distribution": out.distribution,
           "notes": out.notes, "repo": repo()}
    if chk:
        cov["coqchk"] = chk
    cov.update(out.extra)
    write_evidence(prop, tier, seed, wall, cov, getattr(module, "ASSUMPTIONS", []), nviol,
                   level=getattr(module, "LEVEL", "proof") if pa["theorems"] else "exploration")
    for l in lines:
        print(l)
    if nviol:
        return 1
    print("OK property=%s tier=%s theorems=%d statements=%d cases=%d tie_ok=%d wall=%.1fs"
          % (prop, tier, len(pa["theorems"]), nstmt, out.evaluations, out.traces_validated, wall))
    return 0


def coqchk(prop):
    cmd = ["timeout", "1800", "coqchk", "-silent", "-o", "-Q", TH, "MX", "MX.Props." + prop]
    p = subprocess.run(cmd, stdout=subprocess.PIPE, stderr=subprocess.STDOUT, text=True, cwd=COQ)
    if p.returncode != 0:
        raise Broken("coqchk failed:\n" + p.stdout[-3000:])
    m = re.search(r"\* Axioms:\s*(.*?)\n\s*\*", p.stdout + "\n*", re.S)
    return {"cmd": " ".join(cmd), "axioms": (m.group(1).strip() if m else "?")[:2000], "ok": True}
