"""Python mirror of coq/theories/IOSpec/Model.v (ideal IOSpec book-keeping).

NOT part of the trusted base: it is used only by the C18 generator to build mostly-valid histories and
to evaluate the trigger predicates of the recorded defects of the pinned tree.  The verdict of the tie is
always computed by coqc on the Gallina model."""

KINDS = {"csv": "csv", "excel": "excel", "bad": "bad"}


class MroError(Exception):
    pass


class Mirror:
    def __init__(self):
        self.refs = []        # dicts id, own=(m,s), name, val   (defined references)
        self.tab = {}         # (m, v) -> [rid]
        self.ios = []         # dicts id, grp, path, kind, specs=[dict id,val,sheet]
        self.spaces = []      # (m, s)
        self.bases = {}       # (m, s) -> [b]
        self.cells = set()    # (m, s, n)   defined cells, scalar or not
        self.scalar = set()   # (m, s, n)   the scalar ones among them
        self.closed = set()
        self.next = 0

    # ---- inheritance ------------------------------------------------------
    def bases_of(self, g, m, s):
        return list(g.get((m, s), []))

    def merge(self, seqs):
        res = []
        seqs = [list(s) for s in seqs]
        while True:
            ne = [s for s in seqs if s]
            if not ne:
                return res
            cand = None
            for s in ne:
                c = s[0]
                if any(c in t[1:] for t in ne):
                    continue
                cand = c
                break
            if cand is None:
                raise MroError()
            res.append(cand)
            seqs = [(s[1:] if s[0] == cand else s) for s in ne]

    def mro(self, g, m, s):
        bs = self.bases_of(g, m, s)
        return [s] + self.merge([self.mro(g, m, b) for b in bs] + [bs])

    def anc(self, g, m, s):
        out = [s]
        for b in self.bases_of(g, m, s):
            out += self.anc(g, m, b)
        return out

    def spaces_of(self, m):
        return [s for (mm, s) in self.spaces if mm == m]

    def descendants(self, g, m, s):
        return [t for t in self.spaces_of(m) if t != s and s in self.anc(g, m, t)]

    def find_ref(self, own, n):
        for r in self.refs:
            if r["own"] == own and r["name"] == n:
                return r
        return None

    def first_definer(self, m, n, l):
        for b in l:
            r = self.find_ref((m, b), n)
            if r:
                return r
        return None

    def defines_cells(self, m, b, n):
        return (m, b, n) in self.cells

    def has_name(self, g, m, s, n):
        l = self.mro(g, m, s)
        return any(self.defines_cells(m, b, n) for b in l) or any(self.find_ref((m, b), n) for b in l)

    def visible(self, m, s, n):
        """(value, derived) of the reference n visible in space (m, s), or None"""
        r = self.first_definer(m, n, self.mro(self.bases, m, s))
        return None if r is None else (r["val"], r["own"][1] != s)

    # ---- io manager ---------------------------------------------------------
    def find_io(self, m, p):
        for i in self.ios:
            if i["grp"] == m and i["path"] == p:
                return i
        return None

    def get_spec(self, m, v):
        for i in self.ios:
            if i["grp"] == m:
                for s in i["specs"]:
                    if s["val"] == v:
                        return s
        return None

    def io_of(self, sid):
        for i in self.ios:
            if any(s["id"] == sid for s in i["specs"]):
                return i
        return None

    def del_spec(self, sid):
        i = self.io_of(sid)
        if i is not None:
            i["specs"] = [s for s in i["specs"] if s["id"] != sid]
            if not i["specs"]:
                self.ios.remove(i)

    @staticmethod
    def can_add_other(kind, c, other):
        if kind == "excel":
            return c["sheet"] is not None and other["sheet"] is not None and c["sheet"] != other["sheet"]
        return False

    def new_spec(self, m, p, want, loads, sh, v):
        i = self.find_io(m, p)
        created = False
        if i is None:
            i = {"id": self.next, "grp": m, "path": p, "kind": want, "specs": []}
            self.ios.append(i)
            self.next += 1
            created = True
        s = {"id": self.next, "val": v, "sheet": sh}
        self.next += 1
        if loads(i["kind"]) and all(self.can_add_other(i["kind"], c, s) for c in i["specs"]):
            i["specs"].append(s)
            return s["id"]
        if not i["specs"]:
            self.ios.remove(i)
        return None

    # ---- reference manager ------------------------------------------------------
    def tab_remove(self, k, rid):
        l = self.tab.get(k)
        if l is None:
            return
        if rid in l:
            l.remove(rid)
        if not l:
            del self.tab[k]

    def gc(self, m, v):
        if (m, v) not in self.tab:
            s = self.get_spec(m, v)
            if s:
                self.del_spec(s["id"])

    def rm_new_ref(self, own, n, v):
        self.refs.append({"id": self.next, "own": own, "name": n, "val": v})
        self.tab.setdefault((own[0], v), []).append(self.next)
        self.next += 1

    def rm_change_ref(self, own, n, v, prev, pv):
        m = own[0]
        if prev is not None:
            self.refs.remove(prev)
            self.tab_remove((m, pv), prev["id"])
        self.refs.append({"id": self.next, "own": own, "name": n, "val": v})
        self.tab.setdefault((m, v), []).append(self.next)
        self.next += 1
        self.gc(m, pv)

    def set_attr(self, own, n, v):
        m, s = own
        if s is None:
            if (m, n) in self.spaces:
                return False
            r = self.find_ref(own, n)
            if r:
                self.rm_change_ref(own, n, v, r, r["val"])
            else:
                self.rm_new_ref(own, n, v)
            return True
        if n >= 1000 or (m, s) not in self.spaces:
            return False
        r = self.find_ref(own, n)
        if r:
            self.rm_change_ref(own, n, v, r, r["val"])
            return True
        l = self.mro(self.bases, m, s)
        b = self.first_definer(m, n, l)
        if b:
            self.rm_change_ref(own, n, v, None, b["val"])
            return True
        if any(self.defines_cells(m, x, n) for x in l):
            return False
        if any(self.has_name(self.bases, m, d, n) for d in self.descendants(self.bases, m, s)):
            return False
        self.rm_new_ref(own, n, v)
        return True

    def create(self, own, n, p, want, loads, sh, v):
        m = own[0]
        if m in self.closed or self.get_spec(m, v):
            return False
        sid = self.new_spec(m, p, want, loads, sh, v)
        if sid is None:
            return False
        if self.set_attr(own, n, v):
            return True
        self.del_spec(sid)
        return False

    def update(self, m, old, new, vk):
        if m in self.closed or (m, old) not in self.tab:
            return False
        if old != new and (m, new) in self.tab:
            return False
        s = self.get_spec(m, old)
        if s:
            k = self.io_of(s["id"])["kind"]
            ok = (k in ("csv", "excel") and vk == "pandas") or (k == "module" and vk == "module")
            if not ok:
                return False
            s["val"] = new
        l = self.tab[(m, old)]
        ids = []
        for rid in reversed(l):
            r = next(x for x in self.refs if x["id"] == rid)
            self.refs.remove(r)
            self.refs.append({"id": self.next, "own": r["own"], "name": r["name"], "val": new})
            ids.append(self.next)
            self.next += 1
        del self.tab[(m, old)]
        self.tab[(m, new)] = ids
        return True

    @staticmethod
    def sheet(sh):
        """ideal: the empty sheet name (token 9) is the default sheet, i.e. no sheet name"""
        return None if sh == 9 else sh

    def del_space(self, m, s):
        """del model.S: the defined references of the space are forgotten one by one (the spec of a value
        goes with its last reference); the space, its cells and its inheritance edges disappear"""
        ds = self.descendants(self.bases, m, s)
        g = {k: ([x for x in v if x != s] if k[0] == m else list(v)) for k, v in self.bases.items() if k != (m, s)}
        try:
            for d in ds:
                self.mro(g, m, d)
        except MroError:
            return False
        for r in [r for r in self.refs if r["own"] == (m, s)]:
            self.refs.remove(r)
            self.tab_remove((m, r["val"]), r["id"])
            self.gc(m, r["val"])
        self.spaces.remove((m, s))
        self.bases = g
        self.cells = {c for c in self.cells if c[:2] != (m, s)}
        self.scalar = {c for c in self.scalar if c[:2] != (m, s)}
        return True

    def graph_ok(self, g, m, s):
        try:
            for d in [s] + self.descendants(g, m, s):
                l = self.mro(g, m, d)
                names = {r["name"] for r in self.refs if r["own"][0] == m and r["own"][1] in l}
                if any(self.defines_cells(m, b, n) for n in names for b in l):
                    return False
        except MroError:
            return None
        return True

    def step(self, o):
        """returns True (accepted) / False (rejected)"""
        k = o["op"]
        m = o["m"]
        if k == "newspace":
            if m in self.closed or (m, o["s"]) in self.spaces or self.find_ref((m, None), o["s"]):
                return False
            self.spaces.append((m, o["s"]))
            return True
        if k in ("newcells", "newscalarcells"):
            s, n = o["s"], o["n"]
            if m in self.closed or (m, s) not in self.spaces or n >= 1000:
                return False
            # SpaceManager._can_add: free in the space itself; a sub space may have it as a cells, not as a reference
            if self.has_name(self.bases, m, s, n):
                return False
            if any(self.find_ref((m, b), n) for d in self.descendants(self.bases, m, s) for b in self.mro(self.bases, m, d)):
                return False
            self.cells.add((m, s, n))
            if k == "newscalarcells":
                self.scalar.add((m, s, n))
            return True
        if k == "newpandas":
            ok_kinds = ("csv", "excel") if o["vk"] == "pandas" else ()
            return self.create((m, o["s"]), o["n"], o["p"], o["ft"], lambda kd: kd in ok_kinds,
                               self.sheet(o["sh"]), o["v"])
        if k == "newmodule":
            return self.create((m, o["s"]), o["n"], o["p"], "module",
                               lambda kd: kd == "module" and o["src_ok"], None, o["v"])
        if k == "assign":
            if m in self.closed:
                return False
            return self.set_attr((m, o["s"]), o["n"], o["v"])
        if k == "delspace" or (k == "delref" and o["s"] is None):
            # del model.name: the space of that name, else the global reference of that name
            n = o["s"] if k == "delspace" else o["n"]
            if m in self.closed:
                return False
            if (m, n) in self.spaces:
                return self.del_space(m, n)
            o = {"op": "delref", "m": m, "s": None, "n": n}
            k = "delref"
        if k == "delref":
            if m in self.closed:
                return False
            r = self.find_ref((m, o["s"]), o["n"])
            if not r:
                return False
            self.refs.remove(r)
            self.tab_remove((m, r["val"]), r["id"])
            self.gc(m, r["val"])
            return True
        if k == "update":
            return self.update(m, o["old"], o["new"], o["vk"])
        if k in ("addbase", "removebase"):
            s, b = o["s"], o["b"]
            if m in self.closed or (m, s) not in self.spaces or (m, b) not in self.spaces:
                return False
            old = self.bases_of(self.bases, m, s)
            if k == "addbase":
                if s in self.anc(self.bases, m, b):
                    return False
                new = [x for x in old if x != b] + [b]
            else:
                if b not in old:
                    return False
                new = [x for x in old if x != b]
            g = dict(self.bases)
            g[(m, s)] = new
            if self.graph_ok(g, m, s) is not True:
                return False
            self.bases = g
            return True
        if k in ("setsheet", "setpath", "delspec"):
            if m in self.closed:
                return False
            sp = self.get_spec(m, o["v"])
            if sp is None:
                return False
            io = self.io_of(sp["id"])
            if k == "delspec":
                self.del_spec(sp["id"])
                return True
            if k == "setpath":
                if o["p"] == io["path"]:
                    return True
                if self.find_io(m, o["p"]):
                    return False
                io["path"] = o["p"]
                return True
            if io["kind"] == "module":
                return False
            others = [c for c in io["specs"] if c["id"] != sp["id"]]
            sh = self.sheet(o["sh"])
            if others and sh is None:
                return False
            if any(c["sheet"] == sh for c in others):
                return False
            sp["sheet"] = sh
            return True
        if k == "close":
            if m in self.closed:
                return False
            sids = []
            for (mm, v) in self.tab:
                if mm == m:
                    s = self.get_spec(m, v)
                    if s:
                        sids.append(s["id"])
            for sid in reversed(sids):
                self.del_spec(sid)
            self.closed.add(m)
            return True
        raise ValueError(k)

    # ---- triggers of the recorded defects of the pinned tree -------------------------
    def stale_derived(self, m, s, n):
        """the sub-space loop of SpaceManager.change_ref stops at the first sub that defines the name
        or derives it from elsewhere (model.py:1518-1524, `break`), later subs keep the old value"""
        if s is None:
            return False
        ds = self.descendants(self.bases, m, s)
        breakers, followers = [], []
        for d in ds:
            if self.find_ref((m, d), n):
                breakers.append(d)
                continue
            l = self.mro(self.bases, m, d)
            # first definer other than d, counting s as a definer (it is one after the change)
            fd = next((b for b in l if b == s or self.find_ref((m, b), n)), None)
            (followers if fd == s else breakers).append(d)
        return bool(breakers) and bool(followers)

    def trigger(self, o):
        """name of the recorded defect this operation would hit on the pinned tree, or None"""
        k = o["op"]
        m = o["m"]
        if m in self.closed:
            return "closed_model_op"         # a closed model keeps working in the code; outside the vocabulary
        if k in ("newpandas", "newmodule", "assign"):
            own = (m, o["s"])
            v = o["v"]
            # dup (a second spec for a value that has one) is repaired in /repo: such creations are generated (rejected)
            if o.get("abspath"):
                return "abspath"
            # rebind_same and stale_derived are repaired in /repo: their former triggers are generated
            # scalar (creation onto a scalar cells) and emptysheet (sheet '') are repaired in /repo: generated
            if k == "assign" and o["s"] is not None and (m, o["s"]) in self.spaces and \
                    any((m, b, o["n"]) in self.scalar for b in self.mro(self.bases, m, o["s"])):
                return "assign_scalar_cells"   # sets the value of the cells: not a reference operation
        # update_bound (update to a value that is already referenced) is repaired in /repo: generated (rejected)
        if k == "removebase":
            s, b = o["s"], o["b"]
            old = self.bases_of(self.bases, m, s)
            if b in old:
                g = dict(self.bases)
                g[(m, s)] = [x for x in old if x != b]
                if self.graph_ok(g, m, s) is None:
                    return "remove_breaks_mro"
        if k == "setsheet":
            sp = self.get_spec(m, o["v"])
            if sp is not None:
                io = self.io_of(sp["id"])
                if io["kind"] == "module":
                    return "sheet_on_module"   # ModuleData has no sheet property: plain attribute assignment
                # sheet_none / sheet_to_none / emptysheet are repaired in /repo: spec.sheet = None / '' is generated
        if k == "delref" and (m, o["s"], o["n"]) in self.cells:
            return "del_cells"               # deletes the cells: outside the vocabulary
        # delspace (del model.Space leaked the specs of the space) is repaired in /repo: generated, also as
        # delref of a model-level name that is a space
        if k == "delspace" or (k == "delref" and o["s"] is None):
            n = o["s"] if k == "delspace" else o["n"]
            if (m, n) in self.spaces:
                g = {kk: [x for x in v if x != n] for kk, v in self.bases.items() if kk != (m, n)}
                try:
                    for d in self.descendants(self.bases, m, n):
                        self.mro(g, m, d)
                except MroError:
                    return "remove_breaks_mro"   # as for remove_bases: the code raises half-way
        return None
