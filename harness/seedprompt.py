"""Writes build/seedprompts/<ID>.txt: the complete task text handed to an independent sub-agent that is asked
for a change to modelx breaking property <ID> (it sees the property text only, nothing else from /verif)."""
import json, os
V = os.path.dirname(os.path.dirname(os.path.abspath(__file__)))
props = {json.loads(l)['id']: json.loads(l) for l in open(os.path.join(V, 'properties.jsonl'))}
TMPL = '''You are given a scratch git worktree of the Python library fumitoh/modelx at {wt} (detached HEAD; work ONLY inside it; never touch /repo or /verif, and do not read anything under /verif). Run the library from the worktree with `PYTHONPATH={wt} PYTHONHASHSEED=0 /venv/bin/python` (Python 3.12; every shell call prints a conda warning line first: ignore it). There is no network.

A semantic property of modelx that should hold:

TITLE: {title}
STATEMENT: {statement}
QUANTIFIER: {quant}
RELEVANT FILES: {files}
MECHANISMS MEANT TO MAKE IT HOLD: {mech}

Your task: produce ONE realistic change (a plausible regression/bug a maintainer could introduce: a few lines, looks innocent in review) to the library source under {wt}/modelx that BREAKS this property, while (a) the package still imports, and (b) the existing test-suite still passes: run `cd {wt} && /venv/bin/python -m pytest -q -p no:cacheprovider --timeout=900 -rfE 2>&1 | tail -40` (whole suite, about 1 minute). About 25 tests that need the missing `lifelib` package or old pandas pickles fail/error already on the unmodified tree: FIRST run the suite on the unmodified worktree and save the list of failing/erroring test ids; your change must add NO new failure or error to that list. The change must need something SPECIFIC to manifest - a particular multi-step sequence of operations, an unusual input, a failure at a particular point, a particular ordering, or two cooperating code sites that each look fine alone - not something ordinary use would expose at once (the existing tests must not notice it).
Also write a demonstration script {wt}/demo.py (plain Python using only `import modelx as mx` and the standard library, exits 0 and prints OK when the property holds on the scenario, exits non-zero with an assertion message when it is violated) that FAILS with your change and PASSES on the unmodified tree. Verify both yourself (`git stash` / `git stash pop`).
Deliver: leave the change applied in the worktree (uncommitted), with `git diff > {wt}/patch.diff` written (only the library change, not demo.py), demo.py in place, and reply with: the diff, a 3-line explanation of why it breaks the property and what is needed for it to manifest, and the exact outputs of the demo with and without the change and of the test-suite tail with the change. Do not commit. If your first idea is caught by the existing tests, try another; spend your effort on making the change subtle but real.'''
os.makedirs(os.path.join(V, 'build', 'seedprompts'), exist_ok=True)
for pid, p in props.items():
    wt = '/tmp/seed_%s' % pid
    mech = '; '.join('%s (%s)' % (m.get('name'), m.get('where')) for m in p['anchors'].get('mechanism', []))
    open(os.path.join(V, 'build', 'seedprompts', pid + '.txt'), 'w').write(
        TMPL.format(wt=wt, title=p['title'], statement=p['statement'], quant=p['quantifier']['text'],
                    files=', '.join(p['anchors']['files']), mech=mech))
print("written", len(props))
