"""Python mirror of coq/theories/RelRef/Model.v (the IDEAL rule) used by the C10 generator:
it says which edits are valid, what the ideal outcome is, and — most of all — which
generated histories touch a recorded defect of the pinned tree (trigger predicates), so that
the generator can drop them.  It is NOT the oracle of the tie: the tie is evaluated in Coq.

paths are tuples of names; a binding is ("NoRef",) | ("Def", mode, target) |
("Der", mode, target, is_relative) | ("ErrScope",) | ("ErrBroken",)."""
import copy

MODES = ("auto", "relative", "absolute")


# ---------------------------------------------------------------- C3 (SpaceGraph.get_mro)
class Inconsistent(Exception):
    pass


def c3(bases, node, depth=0):
    if depth > 50:
        raise Inconsistent("cycle")
    preds = list(bases.get(node, []))
    seqs = [c3(bases, b, depth + 1) for b in preds] + [preds]
    res = []
    while True:
        non_empty = [s for s in seqs if s]
        if not non_empty:
            return [node] + res
        cand = None
        for seq in non_empty:
            cand = seq[0]
            if [s for s in non_empty if cand in s[1:]]:
                cand = None
            else:
                break
        if cand is None:
            raise Inconsistent("no C3 order")
        res.append(cand)
        for seq in non_empty:
            if seq[0] == cand:
                del seq[0]


# ---------------------------------------------------------------- path algebra
def lcp(a, b):
    out = []
    for x, y in zip(a, b):
        if x != y:
            break
        out.append(x)
    return tuple(out)


def lcsuf(a, b):
    return tuple(reversed(lcp(tuple(reversed(a)), tuple(reversed(b)))))


def is_prefix(p, l):
    return tuple(l[:len(p)]) == tuple(p)


def roots(inmro, sub, bas):
    desc = list(lcsuf(sub, bas))
    d = len(desc)
    sr, br = tuple(sub[:len(sub) - d]), tuple(bas[:len(bas) - d])
    while True:
        if inmro(sr, br):
            return sr, br
        if desc:
            n = desc.pop(0)
            sr, br = sr + (n,), br + (n,)
        else:
            return None


def get_relative(inmro, sub, bas, value):
    sp = lcp(bas, value)
    if not sp:
        return ("none",)
    r = roots(inmro, sub, bas)
    if r is None:
        return ("fail",)
    sr, br = r
    if is_prefix(br, sp):
        return ("some", sr + tuple(value[len(br):]))
    return ("none",)


def on_inherit(inmro, mode, deriver, definer, target):
    if mode == "absolute":
        return ("Der", "absolute", target, False)
    r = get_relative(inmro, deriver, definer, target)
    if r[0] == "fail":
        return ("ErrBroken",)
    if r[0] == "some":
        return ("Der", mode, r[1], True)
    return ("Der", "auto", target, False) if mode == "auto" else ("ErrScope",)


def dyn_bind(mode, root, target):
    if mode == "absolute":
        return ("static", target)
    if is_prefix(root, target):
        return ("dyn", tuple(target[len(root):]))
    return ("static", target) if mode == "auto" else ("errscope",)


# ---------------------------------------------------------------- the mirror state
class Mirror:
    def __init__(self):
        self.bases = {}      # space -> direct bases, ordered
        self.cells = {}      # space -> set of own cells
        self.defs = {}       # (space, name) -> (mode, target)
        self.params = set()
        self.refnames = set()

    def clone(self):
        return copy.deepcopy(self)

    # -- structure
    def spaces(self):
        return list(self.bases)

    def table(self):
        return {s: tuple(c3(self.bases, s)[1:]) for s in self.bases}

    def all_cells(self, tbl, sp):
        out = set(self.cells.get(sp, ()))
        for b in tbl.get(sp, ()):
            out |= self.cells.get(b, set())
        return out

    def exists(self, tbl, p):
        p = tuple(p)
        if p in self.bases:
            return True
        return len(p) >= 2 and p[:-1] in self.bases and p[-1] in self.all_cells(tbl, p[:-1])

    def children(self, sp):
        return [s for s in self.bases if len(s) == len(sp) + 1 and s[:len(sp)] == tuple(sp)]

    def subtree(self, sp):
        return [s for s in self.bases if is_prefix(sp, s)]

    def descendants(self, tbl, sp):
        return [s for s in self.bases if sp in tbl.get(s, ())]

    # -- from-scratch derivation
    def bindings(self, tbl=None, notes=None):
        tbl = tbl if tbl is not None else self.table()

        def inmro(s, b):
            return s == b or b in tbl.get(s, ())
        out = {}
        for sp in self.bases:
            for n in self.refnames:
                if (sp, n) in self.defs:
                    m, t = self.defs[(sp, n)]
                    out[(sp, n)] = ("Def", m, t)
                    continue
                b = ("NoRef",)
                for base in tbl[sp]:
                    if (base, n) in self.defs:
                        m, t = self.defs[(base, n)]
                        # suffix_root is repaired in /repo: derivation between spaces one of whose dotted names is a
                        # suffix of the other's (X.C from top-level C, top-level C from A.C) is generated
                        b = on_inherit(inmro, m, sp, base, t)
                        break
                out[(sp, n)] = b
        return out

    def dangling(self, tbl=None, B=None):
        """the bindings whose corresponding object does not exist: its existence is a precondition of the
        model (a null object in the library), checked per binding"""
        tbl = tbl if tbl is not None else self.table()
        B = B if B is not None else self.bindings(tbl)
        return {k: b for k, b in B.items() if b[0] in ("Def", "Der") and not self.exists(tbl, b[2])}

    def first_definer(self, tbl, sp, n):
        for base in tbl[sp]:
            if (base, n) in self.defs:
                return base
        return None


def apply(st, op):
    """returns (new_state, accepted, triggers, invalid_reason, table after the edit (hypothetical when refused)).  [st] is not modified.
    invalid = the generator must not emit this edit (the library would refuse it for reasons
    outside C10, or it is meaningless)."""
    k = op[0]
    new = st.clone()
    trig = set()
    tbl0 = st.table()
    B0 = st.bindings(tbl0)
    if k == "space":
        p, bs = tuple(op[1]), [tuple(b) for b in op[2]]
        if p in st.bases or (len(p) > 1 and p[:-1] not in st.bases):
            return st, False, trig, "bad parent / exists", None
        if len(p) > 1 and p[-1] in st.all_cells(tbl0, p[:-1]):
            return st, False, trig, "name clash", None
        if any(b not in st.bases for b in bs) or len(set(bs)) != len(bs):
            return st, False, trig, "bad bases", None
        new.bases[p] = list(bs)
        new.cells[p] = set()
    elif k in ("addb", "rmb"):
        p, bs = tuple(op[1]), [tuple(b) for b in op[2]]
        if p not in st.bases or not bs or len(set(bs)) != len(bs):
            return st, False, trig, "bad", None
        if k == "addb":
            if any(b not in st.bases or b == p or b in st.bases[p] for b in bs):
                return st, False, trig, "bad bases", None
            if any(p == b or p in tbl0[b] for b in bs):
                return st, False, trig, "cycle", None
            new.bases[p] = st.bases[p] + bs
        else:
            if any(b not in st.bases[p] for b in bs):
                return st, False, trig, "not a base", None
            new.bases[p] = [b for b in st.bases[p] if b not in bs]
            # C03-D3 (remove_bases below a diamond) is repaired in /repo: generated
    elif k == "cells":
        p, n = tuple(op[1]), op[2]
        if p not in st.bases:
            return st, False, trig, "bad", None
        if n in st.all_cells(tbl0, p) or any(n in st.all_cells(tbl0, s) for s in st.descendants(tbl0, p)):
            return st, False, trig, "cells exists in space or sub (C03 D1)", None
        if p + (n,) in st.bases:
            return st, False, trig, "clash", None
        new.cells[p].add(n)
    elif k == "setref":
        p, n, mode, tg = tuple(op[1]), op[2], op[3], tuple(op[4])
        if p not in st.bases or not st.exists(tbl0, tg):
            return st, False, trig, "bad", None
        new.refnames.add(n)
        st_b = B0.get((p, n), ("NoRef",))
        existing = st_b[0] in ("Def", "Der")
        subs = st.descendants(tbl0, p)
        if not existing and any(B0.get((s, n), ("NoRef",))[0] != "NoRef" for s in subs):
            return st, False, trig, "a sub space already has the name (library refuses)", None
        # D33_change_ref_break is repaired in /repo (d55986d): re-assignments below an overriding sub space are generated
        new.defs[(p, n)] = (mode, tg)
    elif k == "delref":
        p, n = tuple(op[1]), op[2]
        if (p, n) not in st.defs:
            return st, False, trig, "not defined", None
        del new.defs[(p, n)]
    elif k == "params":
        p = tuple(op[1])
        if p not in st.bases or p in st.params:
            return st, False, trig, "bad", None
        new.params.add(p)
        return new, True, trig, None, None
    else:
        raise ValueError(op)
    try:
        tbl1 = new.table()
    except (Inconsistent, RecursionError):
        return st, False, trig, "no C3 order", None
    B1 = new.bindings(tbl1, trig)
    errs = [kk for kk, b in B1.items() if b[0] in ("ErrScope", "ErrBroken")]
    accepted = not errs
    if any(b[0] == "ErrBroken" for b in B1.values()):
        return st, False, trig, "broken", None
    if not accepted:
        if k == "space":
            pass                                    # new_space rolls back
        elif k == "setref":
            pass                                    # _check_subs_relrefs refuses before anything is changed
            # (relative_change_unchecked is repaired in /repo: refused re-assignments of an existing reference are generated too)
        else:
            trig.add("no_rollback")                 # add_bases fails half-way when a relative reference cannot be derived (C11 domain)
        return st, False, trig, None, tbl1
    # ---- accepted: which recorded defects would make the library deviate?
    # dangling_target_overwrite (new_ref / change_ref passed the null object of one sub space on to the next ones) is
    # repaired in /repo: states in which the corresponding object of a binding does not exist are generated (such a
    # binding is a null object: see Mirror.dangling).  What stays recorded as dangling_target: a binding whose
    # corresponding object is created LATER is not re-bound
    for (s2, n2), b in B1.items():
        if b[0] not in ("Def", "Der"):
            continue
        same = B0.get((s2, n2)) == b
        if new.exists(tbl1, b[2]):
            if same and not st.exists(tbl0, b[2]):
                trig.add("dangling_target")         # created later: not re-bound
        elif not (b[0] == "Der" and b[3]) or (same and st.exists(tbl0, b[2])):
            # not a missing CORRESPONDING object: the original object itself is gone (remove_bases deletes the derived
            # cells a reference denotes).  Precondition: references to deleted objects are not C10's subject
            trig.add("target_deleted")
    # change_ref_is_relative is repaired in /repo: re-assigning a base reference is generated
    # stale_outer_root is repaired in /repo: base changes that re-root the references of nested spaces are generated
    # stale_mode is repaired in /repo: a change of the defining reference with another mode is generated
    return new, True, trig, None, tbl1


def dyn_expect(st, root):
    """expected ItemSpace bindings of [root] + triggers"""
    tbl = st.table()
    B = st.bindings(tbl)
    trig = set()
    entries = []
    scope_err = False
    rs = ".".join(root)
    for s in st.subtree(root):
        q = s[len(root):]
        for n in sorted(st.refnames):
            b = B.get((s, n), ("NoRef",))
            if b[0] not in ("Def", "Der"):
                continue
            m, t = b[1], b[2]
            if not st.exists(tbl, t):
                # no corresponding object: the reference is a null object, and a null Cells in the namespace makes every
                # formula of the space raise DeletedObjectError: ItemSpaces are observed when all bindings of the tree exist
                trig.add("dangling_target")
                continue
            e = dyn_bind(m, root, t)
            ts = ".".join(t)
            rel = (m != "absolute") if b[0] == "Def" else b[3]
            # D15 (raw string prefix test, e.g. root "S" / target "S2.foo") is fixed in /repo (320be27):
            # such cases are generated and must follow the component-wise rule
            # dyn_derived_nonrelative is repaired in /repo: derived auto references that are not relative to their
            # definer but point into the ItemSpace's base tree are generated
            # dyn_direct_bases is repaired in /repo: generated
            if e[0] == "errscope":
                scope_err = True
            entries.append((q, n, e))
    return entries, scope_err, trig


def roundtrip_triggers(st):
    """read_model sets references after all bases exist (new_ref path): a name defined twice
    along one C3 order cannot be read back (C04 D36)"""
    tbl = st.table()
    trig = set()
    for s in st.bases:
        for n in st.refnames:
            k = sum(1 for x in (s,) + tuple(tbl[s]) if (x, n) in st.defs)
            if k > 1:
                trig.add("rt_name_defined_twice_in_mro")
    return trig
