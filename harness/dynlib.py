"""Generator and Coq emitter for the Dyn layer (ItemSpaces, property C07).

Vocabulary (JSON shapes are documented in drivers/dyn.py).  The generator
produces a forest of static spaces (1-3 top level, children to depth 3), some
with parameter formulas (1-2 parameters, defaults, None / extra refs / another
base / conditional on an argument), cells over the tiny expression language,
and a history of requests (all argument spellings), evaluations through kept
handles, and edits of the definitions.

Triggers of recorded defects are avoided (README: Known defects):
  D38  changing the parameter formula of a space deletes only the ItemSpaces whose *parent* is that space.
       Trigger (decidable on the case): setparams on a space that is a child space or is named as 'base' by any
       parameter formula seen so far.
  (D39 — deleting a space did not delete the ItemSpaces other spaces built from it — is repaired in /repo, 2a94503:
  such deletions are generated with live instances around.)
  Before such an edit the generator deletes every ItemSpace (clear_items on every parametrised space), so that the
  edit meets no live instance (counted: distribution.precautions; env C07_NO_PRECAUTION=1 disables this, for
  trying a repaired tree).
  D14 D15 D16 D18 are repaired in /repo (9ebab50 320be27 76f1b96 21f11e8): new / changed / deleted references,
  deleted cells, new / deleted child spaces and space deletions are generated on child spaces and foreign bases
  with live instances around and no precaution.  References to modelx objects (D15) and the 'bases' key (D18)
  are outside the generated vocabulary (reference values are ints); their witnesses corpus/C07/finding_D15_* /
  finding_D18_* run in every check and a failure is a (P) failure now that the keys are listed as fixed.
  names of deleted spaces are not reused (a re-created static space has a new dynamic_cache: old handles stay dead)."""
import json, copy, os
from dynmirror import apply_edit
from fw import cz, cN, cnat, cbool, cstr, clist, ctuple, copt

TOP = ["S", "T", "B"]
CHILD = ["C", "D"]
CELLS = ["foo", "bar", "baz", "qux"]
REFS = ["y", "z", "w"]
PNAMES = ["i", "j"]
XREFS = ["y", "u", "i"]
BINOPS = {"+": "OAdd", "-": "OSub", "*": "OMul"}


# ---------------------------------------------------------------- emit ------
def e_path(p):
    return clist([cstr(x) for x in p])


def e_zs(l):
    return clist([cz(int(v)) for v in l])


def e_expr(e):
    t = e[0]
    if t == "c":
        return "(EConst %s)" % cz(e[1])
    if t == "n":
        return "(EName %s)" % cstr(e[1])
    if t == "b":
        return "(EBin %s %s %s)" % (BINOPS[e[1]], e_expr(e[2]), e_expr(e[3]))
    if t == "if":
        return "(EIfPos %s %s %s)" % (e_expr(e[1]), e_expr(e[2]), e_expr(e[3]))
    if t == "call":
        return "(ECall %s %s)" % (cstr(e[1]), clist([e_expr(a) for a in e[2]]))
    if t == "child":
        return "(EChild %s %s %s)" % (cstr(e[1]), cstr(e[2]), clist([e_expr(a) for a in e[3]]))
    raise ValueError(e)


def e_cdef(params, body):
    return "{| cd_params := %s; cd_body := %s |}" % (clist([cstr(x) for x in params]), e_expr(body))


def e_pexpr(e):
    t = e[0]
    if t == "c":
        return "(PConst %s)" % cz(e[1])
    if t == "p":
        return "(PParam %s)" % cstr(e[1])
    if t == "b":
        return "(PBin %s %s %s)" % (BINOPS[e[1]], e_pexpr(e[2]), e_pexpr(e[3]))
    raise ValueError(e)


def e_pbody(b):
    if b is None:
        return "PNone"
    if isinstance(b, dict):
        return "(PDict %s %s)" % (copt(e_path(b["base"])) if b.get("base") is not None else "None",
                                  clist([ctuple([cstr(x), e_pexpr(e)]) for x, e in b.get("refs", [])]))
    return "(PIfPos %s %s %s)" % (e_pexpr(b[1]), e_pbody(b[2]), e_pbody(b[3]))


def e_pform(f):
    if f is None:
        return "None"
    sig = clist([ctuple([cstr(x), "None" if d is None else "(Some %s)" % cz(d)]) for x, d in f["sig"]])
    return "(Some {| pf_sig := %s; pf_body := %s |})" % (sig, e_pbody(f["body"]))


def e_node(nd):
    return ctuple([e_path(nd["path"]),
                   "{| sn_params := %s; sn_cells := %s; sn_refs := %s |}" % (
                       e_pform(nd.get("params")),
                       clist([ctuple([cstr(c), e_cdef(ps, b)]) for c, ps, b in nd.get("cells", [])]),
                       clist([ctuple([cstr(x), cz(v)]) for x, v in nd.get("refs", [])]))])


def e_defs(defs):
    return clist([e_node(nd) for nd in defs])


def dref_of_recipe(rec):
    its, cp = [], []
    for kind, a in rec["steps"]:
        if kind == "item":
            its.append([cp, a]); cp = []
        else:
            cp = cp + [a]
    return [[rec["s"], its], cp]


def e_ikey(k):
    return ctuple([e_path(k[0]), clist([ctuple([e_path(cp), e_zs(key)]) for cp, key in k[1]])])


def e_dref(d):
    return ctuple([e_ikey(d[0]), e_path(d[1])])


def e_out(o):
    t = o[0]
    if t == "val":
        return "(OVal %s)" % cz(o[1])
    if t == "handle":
        return "(OHandle %s)" % e_zs(o[1])
    return {"done": "ODone", "deleted": "ODeleted", "fail": "OFail", "rejected": "ORejected"}[t]


def e_op(op, recipes):
    """recipes: per handle slot the recipe (or None)"""
    k = op["op"]
    if k == "getitem":
        par = op["par"]
        d = [[par["s"], []], []] if "s" in par else dref_of_recipe(recipes[par["h"]])
        return "(OGetItem %s %s %s)" % (e_dref(d), e_zs(op["pos"]),
                                        clist([ctuple([cstr(x), cz(v)]) for x, v in op["kw"].items()]))
    if k == "child":
        return "(OTakeChild %s %s)" % (e_dref(dref_of_recipe(recipes[op["h"]])), cstr(op["name"]))
    if k == "eval":
        return "(OEval %s %s %s)" % (e_dref(dref_of_recipe(recipes[op["h"]])), cstr(op["c"]), e_zs(op["args"]))
    if k == "takecells":
        return "(OTakeCells %s %s)" % (e_dref(dref_of_recipe(recipes[op["h"]])), cstr(op["c"]))
    if k == "setformula":
        return "(OSetFormula %s %s %s)" % (e_path(op["p"]), cstr(op["c"]), e_cdef(op["params"], op["body"]))
    if k == "newcells":
        return "(ONewCells %s %s %s)" % (e_path(op["p"]), cstr(op["c"]), e_cdef(op["params"], op["body"]))
    if k == "delcells":
        return "(ODelCells %s %s)" % (e_path(op["p"]), cstr(op["c"]))
    if k == "setref":
        return "(OSetRef %s %s %s)" % (e_path(op["p"]), cstr(op["x"]), cz(op["v"]))
    if k == "delref":
        return "(ODelRef %s %s)" % (e_path(op["p"]), cstr(op["x"]))
    if k == "newspace":
        return "(ONewSpace %s %s)" % (e_path(op["q"]), e_pform(op["params"]))
    if k == "delspace":
        return "(ODelSpace %s)" % e_path(op["q"])
    if k == "setparams":
        return "(OSetParams %s %s)" % (e_path(op["p"]), e_pform(op["params"]))
    if k == "setglobal":
        return "(OSetGlobal %s %s)" % (cstr(op["x"]), cz(op["v"]))
    if k == "delglobal":
        return "(ODelGlobal %s)" % cstr(op["x"])
    if k == "clearitems":
        return "(OClearItems %s)" % e_path(op["p"])
    if k == "delitem":
        return "(ODelItem %s)" % e_ikey([op["p"], [[[], op["key"]]]])
    raise ValueError(k)


def emit_case(case, res):
    """Coq term of type Dyn.Tie.tie_case, or None when the case has operations outside the model's vocabulary"""
    if case.get("ponly"):
        return None
    recipes = []       # per slot
    steps = []
    for op, st in zip(case["ops"], res["steps"]):
        k = op["op"]
        if k == "setref_obj":
            return None
        skip = st["out"][0] == "nohandle"
        if not skip:
            sh = [ctuple([e_dref(dref_of_recipe(r)), cbool(b)])
                  for r, b in zip(recipes + ([st["new"]] if st.get("new") else []), st["sh"]) if r is not None]
            obs = ctuple([clist([e_ikey(kk) for kk in st["live"]]), clist(sh), clist([cbool(b) for b in st["ch"]])])
            steps.append(ctuple([e_op(op, recipes), e_out(st["out"]), obs]))
        if k in ("getitem", "child"):
            recipes.append(st.get("new"))
    return ctuple([e_defs(case["defs"]), clist(steps)])


# ---------------------------------------------------------------- generate --
def gen_expr(rng, depth, ctx):
    """ctx: locals (cells params), names (plausible free names), lower [(cells, arity)], children {X: [(cells, arity)]}"""
    r = rng.random()
    if depth <= 0 or r < 0.25:
        if rng.random() < 0.45 or not (ctx["locals"] or ctx["names"]):
            return ["c", rng.randint(-3, 9)]
        pool = ctx["locals"] * 2 + ctx["names"]
        return ["n", rng.choice(pool)]
    if r < 0.55:
        return ["b", rng.choice("++-*"), gen_expr(rng, depth - 1, ctx), gen_expr(rng, depth - 1, ctx)]
    if r < 0.65:
        return ["if", gen_expr(rng, depth - 1, ctx), gen_expr(rng, depth - 1, ctx), gen_expr(rng, depth - 1, ctx)]
    if r < 0.85 and ctx["lower"]:
        c, ar = rng.choice(ctx["lower"])
        return ["call", c, [gen_arg(rng, ctx) for _ in range(ar)]]
    if ctx["children"]:
        X = rng.choice(sorted(ctx["children"]))
        if ctx["children"][X]:
            c, ar = rng.choice(ctx["children"][X])
            return ["child", X, c, [gen_arg(rng, ctx) for _ in range(ar)]]
    return ["n", rng.choice(ctx["names"])] if ctx["names"] else ["c", rng.randint(0, 5)]


def gen_arg(rng, ctx):
    if ctx["locals"] and rng.random() < 0.5:
        return ["n", rng.choice(ctx["locals"])]
    return ["c", rng.randint(0, 3)]


def gen_cells_def(rng, name, ctx_base):
    """returns [name, params, body]"""
    arity = rng.choice([0, 0, 1, 1, 2])
    params = ["x", "t"][:arity]
    ctx = dict(ctx_base, locals=params)
    if arity and rng.random() < 0.3:   # guarded self recursion on the first parameter
        rec = ["call", name, [["b", "-", ["n", "x"], ["c", 1]]] + [["n", p] for p in params[1:]]]
        body = ["if", ["n", "x"], ["b", rng.choice("+*"), rec, gen_expr(rng, 1, ctx)], gen_expr(rng, 1, ctx)]
    else:
        body = gen_expr(rng, rng.choice([1, 2, 2, 3]), ctx)
    return [name, params, body]


def gen_pexpr(rng, sig, depth=1):
    names = [x for x, _ in sig]
    if depth <= 0 or rng.random() < 0.5:
        return ["p", rng.choice(names)] if names and rng.random() < 0.7 else ["c", rng.randint(0, 20)]
    return ["b", rng.choice("+-*"), gen_pexpr(rng, sig, depth - 1), gen_pexpr(rng, sig, depth - 1)]


def gen_pbody(rng, sig, paths, depth=1):
    r = rng.random()
    if r < 0.35:
        return None
    if r < 0.65 or not paths:
        return {"base": None, "refs": [[x, gen_pexpr(rng, sig)] for x in rng.sample(XREFS, rng.randint(1, 2))]}
    if r < 0.85 or depth <= 0:
        return {"base": list(rng.choice(paths)),
                "refs": [[x, gen_pexpr(rng, sig)] for x in rng.sample(XREFS, rng.randint(0, 1))]}
    return ["if", gen_pexpr(rng, sig, 0), gen_pbody(rng, sig, paths, depth - 1), gen_pbody(rng, sig, paths, depth - 1)]


def gen_sig(rng, names=None):
    names = names or PNAMES
    k = rng.choice([1, 1, 2, 2])
    sig = []
    dflt = False
    for x in names[:k]:
        if dflt or rng.random() < 0.35:
            dflt = True
            sig.append([x, rng.randint(0, 3)])
        else:
            sig.append([x, None])
    return sig


def gen_pform(rng, paths, names=None):
    sig = gen_sig(rng, names)
    return {"sig": sig, "body": gen_pbody(rng, sig, paths)}


def children_of(defs, p):
    return [nd["path"][-1] for nd in defs if nd["path"][:-1] == p]


def node_of(defs, p):
    for nd in defs:
        if nd["path"] == p:
            return nd
    return None


def ctx_for(defs, p, upto=None):
    nd = node_of(defs, p)
    lower = []
    for c in nd["cells"]:
        if c[0] not in CELLS:
            continue
        if upto is not None and CELLS.index(c[0]) >= CELLS.index(upto):
            continue
        lower.append((c[0], len(c[1])))
    ch = {}
    for X in children_of(defs, p):
        ch[X] = [(c[0], len(c[1])) for c in node_of(defs, p + [X])["cells"]]
    names = [r[0] for r in nd["refs"]] * 2
    for k in range(1, len(p) + 1):
        anc = node_of(defs, p[:k])
        if anc is not None and anc.get("params"):
            names += [x for x, _ in anc["params"]["sig"]]
            if k == len(p):
                acc = []
                xrefs_named(anc["params"]["body"], acc)
                names += acc
    if not names or rng_names_extra(defs, p):
        names = names + PNAMES
    if len(names) >= 4:
        names = names + ["g"]
    return {"locals": [], "names": names, "lower": lower, "children": ch}


def rng_names_extra(defs, p):
    """spaces without parameters of their own are mostly used as a foreign base or as a child: i / j are plausible"""
    nd = node_of(defs, p)
    return not nd.get("params")


def xrefs_named(b, acc):
    if isinstance(b, dict):
        acc += [x for x, _ in b.get("refs", [])]
    elif isinstance(b, list) and b and b[0] == "if":
        xrefs_named(b[2], acc); xrefs_named(b[3], acc)


def pe_eval(e, bound):
    t = e[0]
    if t == "c":
        return e[1]
    if t == "p":
        return bound[e[1]]
    a, b = pe_eval(e[2], bound), pe_eval(e[3], bound)
    return a + b if e[1] == "+" else a - b if e[1] == "-" else a * b


def pbody_base(b, bound):
    """the base a parameter formula chooses for the bound arguments (None = default)"""
    try:
        while isinstance(b, list) and b and b[0] == "if":
            b = b[2] if pe_eval(b[1], bound) > 0 else b[3]
    except KeyError:
        return None
    if isinstance(b, dict):
        return b.get("base")
    return None


def gen_defs(rng):
    paths = []
    for s in rng.sample(TOP, rng.choice([1, 2, 2, 3])):
        paths.append([s])
        for X in rng.sample(CHILD, rng.choice([0, 0, 1, 1, 2])):
            paths.append([s, X])
            if rng.random() < 0.25:
                Y = rng.choice([c for c in CHILD if c != X])
                paths.append([s, X, Y])
    defs = [{"path": p, "params": None, "cells": [], "refs": []} for p in paths]
    # deepest first so that parents know the cells of their children
    for nd in sorted(defs, key=lambda n: -len(n["path"])):
        p = nd["path"]
        nd["refs"] = [[x, rng.randint(0, 9)] for x in rng.sample(REFS, rng.choice([0, 1, 1, 2]))]
        for c in CELLS[:rng.choice([1, 2, 2, 3])]:
            nd["cells"].append(gen_cells_def(rng, c, ctx_for(defs, p, upto=c)))
        if rng.random() < (0.85 if len(p) == 1 else 0.5):
            nd["params"] = gen_pform(rng, [q for q in paths if q != p],
                                     PNAMES if len(p) == 1 or rng.random() < 0.5 else ["k", "i"])
    if not any(nd["params"] for nd in defs):
        defs[0]["params"] = gen_pform(rng, paths)
    return defs


def bases_named(b, acc):
    if isinstance(b, dict):
        if b.get("base") is not None:
            acc.add(tuple(b["base"]))
    elif isinstance(b, list) and b and b[0] == "if":
        bases_named(b[2], acc); bases_named(b[3], acc)


def gen_spelling(rng, sig, vals=None):
    """an argument spelling binding to [vals] (chosen here when None): pos, kw, style, bound values"""
    n = len(sig)
    if vals is None:
        vals = [rng.randint(0, 2) if (d is None or rng.random() < 0.6) else d for _, d in sig]
    npos = rng.randint(0, n)
    pos = list(vals[:npos])
    kw = {}
    for (x, d), v in list(zip(sig, vals))[npos:]:
        if d is not None and v == d and rng.random() < 0.7:
            continue
        kw[x] = v
    # drop trailing positional arguments equal to their defaults
    while pos and not kw and sig[len(pos) - 1][1] is not None and sig[len(pos) - 1][1] == pos[-1] and rng.random() < 0.5:
        pos.pop()
    style = "idx" if (pos and not kw and rng.random() < 0.6) else "call"
    return pos, kw, style, list(vals)


class Gen:
    def __init__(self, rng, defs, nops):
        self.rng = rng
        self.defs = copy.deepcopy(defs)      # mirror of the definitions, edited along
        self.case_defs = defs
        self.ops = []
        self.slots = []                      # per handle slot: {"s": static path, "path": guessed static base path, "item": bool}
        self.requests = []                   # (par, sigpath, vals)
        self.based = set()
        self.globs = {}
        self.dead_names = set()
        self.precautions = 0
        for nd in defs:
            if nd["params"]:
                bases_named(nd["params"]["body"], self.based)
        self.nops = nops

    # -- helpers
    def param_spaces(self):
        return [nd["path"] for nd in self.defs if nd["params"]]

    def guess_node(self, slot):
        return node_of(self.defs, self.slots[slot]["path"])

    def emit(self, op):
        self.ops.append(op)

    def precaution(self):
        """D14 / D16 / D38 are repaired in /repo: no edit is preceded by clear_items any more (C07_PRECAUTION=1
        brings the old behaviour back, to run the check against an older tree)"""
        if os.environ.get("C07_PRECAUTION") != "1":
            return
        self.precautions += 1
        for p in self.param_spaces():
            self.emit({"op": "clearitems", "p": p})

    def risky(self, p):
        """D38 trigger: [p] can be copied into an ItemSpace whose parent is another space"""
        return len(p) > 1 or tuple(p) in self.based

    def base_under(self, q):
        """D39 trigger: a space in the tree of [q] was named as 'base' by a parameter formula"""
        return any(list(b[:len(q)]) == list(q) for b in self.based)

    # -- requests
    def op_getitem(self):
        rng = self.rng
        if self.requests and rng.random() < 0.4:
            par, sigpath, vals = rng.choice(self.requests)       # same instance, another spelling
        else:
            cands = [({"s": p}, p) for p in self.param_spaces()] * 3
            for i, s in enumerate(self.slots):
                nd = node_of(self.defs, s["path"])
                if nd is not None and nd["params"]:
                    cands.append(({"h": i}, s["path"]))
            if not cands:
                return False
            par, sigpath = rng.choice(cands)
            vals = None
        nd = node_of(self.defs, sigpath)
        if nd is None or not nd["params"]:
            return False
        sig = nd["params"]["sig"]
        if vals is not None and len(vals) != len(sig):
            vals = None
        pos, kw, style, vals = gen_spelling(rng, sig, vals)
        if rng.random() < 0.04:      # a request that does not bind
            pos = pos + [1, 1, 1]; style = "call"
        self.requests.append((par, sigpath, vals))
        self.emit({"op": "getitem", "par": par, "pos": pos, "kw": kw, "style": style})
        base = pbody_base(nd["params"]["body"], {x: v for (x, _), v in zip(sig, vals)}) or sigpath
        self.slots.append({"path": list(base), "item": True})
        return True

    def op_child(self):
        rng = self.rng
        cands = [(i, X) for i, s in enumerate(self.slots) for X in children_of(self.defs, s["path"])]
        if not cands:
            return False
        i, X = rng.choice(cands)
        self.emit({"op": "child", "h": i, "name": X})
        self.slots.append({"path": self.slots[i]["path"] + [X], "item": False})
        return True

    def pick_cells(self, slot):
        nd = self.guess_node(slot)
        if nd is not None and nd["cells"] and self.rng.random() < 0.93:
            c = self.rng.choice(nd["cells"])
            return c[0], len(c[1])
        return self.rng.choice(CELLS), self.rng.choice([0, 1])

    def op_eval(self):
        if not self.slots:
            return False
        rng = self.rng
        i = rng.randrange(len(self.slots)) if rng.random() < 0.5 else len(self.slots) - 1 - min(len(self.slots) - 1, rng.randint(0, 2))
        c, ar = self.pick_cells(i)
        self.emit({"op": "eval", "h": i, "c": c, "args": [rng.randint(0, 3) for _ in range(ar)]})
        return True

    def op_takecells(self):
        if not self.slots:
            return False
        i = self.rng.randrange(len(self.slots))
        c, _ = self.pick_cells(i)
        self.emit({"op": "takecells", "h": i, "c": c})
        return True

    # -- edits
    def op_edit(self):
        rng = self.rng
        kind = rng.choice(["setformula"] * 6 + ["newcells"] * 3 + ["delcells"] * 2 + ["changeref"] * 4 + ["newref"] * 2
                          + ["delref"] * 2 + ["newspace"] * 1 + ["delspace"] * 1 + ["setparams"] * 2
                          + ["clearitems"] * 1 + ["delitem"] * 2 + ["setglobal"] * 2 + ["delglobal"] * 1)
        if kind == "setglobal":
            op = {"op": "setglobal", "x": rng.choice(["g", "g", "w"]), "v": rng.randint(50, 90)}
            self.emit(op); self.apply(op)
            return True
        if kind == "delglobal":
            if not self.globs:
                return False
            op = {"op": "delglobal", "x": rng.choice(sorted(self.globs))}
            self.emit(op); self.apply(op)
            return True
        nd = rng.choice(self.defs)
        p = nd["path"]
        paths = [n["path"] for n in self.defs]
        if (kind == "setparams" and self.risky(p)) and os.environ.get("C07_PRECAUTION") == "1" \
                and rng.random() < 0.65:      # (older trees only) mostly steer away from the D38 trigger
            safe = [n for n in self.defs if not self.risky(n["path"])]
            if safe and kind != "delspace" and rng.random() < 0.6:
                nd = rng.choice(safe); p = nd["path"]
            else:
                kind = rng.choice(["setformula", "newcells", "changeref"])
        if getattr(self, "hb", False) and rng.random() < 0.4:
            hosts = [n for n in self.defs if any(c[0] == "hb" for c in n["cells"])]
            if hosts:
                op = {"op": "setformula", "p": hosts[0]["path"], "c": "hb", "params": [], "body": ["c", rng.randint(10, 30)]}
                self.emit(op); self.apply(op)
                return True
        if kind == "setformula":
            if not [c for c in nd["cells"] if c[0] != "hb"]:
                return False
            c = rng.choice([c for c in nd["cells"] if c[0] != "hb"])[0]
            old = [x for x in nd["cells"] if x[0] == c][0]
            keep = rng.random() < 0.7          # mostly keep the arity
            for _ in range(8):
                name, params, body = gen_cells_def(rng, c, ctx_for(self.defs, p, upto=c))
                if not keep or len(params) == len(old[1]):
                    break
            op = {"op": "setformula", "p": p, "c": c, "params": params, "body": body}
        elif kind == "newcells":
            free = [c for c in CELLS if c not in [x[0] for x in nd["cells"]] and c not in [r[0] for r in nd["refs"]]
                    and c not in children_of(self.defs, p)]
            if not free:
                return False
            c = rng.choice(free)
            name, params, body = gen_cells_def(rng, c, ctx_for(self.defs, p, upto=c))
            op = {"op": "newcells", "p": p, "c": c, "params": params, "body": body}
        elif kind == "delcells":
            if not nd["cells"]:
                return False
            op = {"op": "delcells", "p": p, "c": rng.choice(nd["cells"])[0]}
        elif kind == "changeref":
            if not nd["refs"]:
                return False
            op = {"op": "setref", "p": p, "x": rng.choice(nd["refs"])[0], "v": rng.randint(10, 40)}
        elif kind == "newref":
            free = [x for x in REFS + ["u"] if x not in [r[0] for r in nd["refs"]]]
            if not free:
                return False
            op = {"op": "setref", "p": p, "x": rng.choice(free), "v": rng.randint(10, 40)}
        elif kind == "delref":
            if not nd["refs"]:
                return False
            op = {"op": "delref", "p": p, "x": rng.choice(nd["refs"])[0]}
        elif kind == "newspace":
            if rng.random() < 0.3:
                names = [x for x in TOP + ["U", "V"] if [x] not in paths and x not in self.dead_names]
                if not names:
                    return False
                q = [rng.choice(names)]
            else:
                if len(p) >= 3:
                    return False
                names = [x for x in CHILD + ["E"] if p + [x] not in paths and (tuple(p + [x])) not in self.dead_names
                         and x not in [c[0] for c in nd["cells"]] and x not in [r[0] for r in nd["refs"]]]
                if not names:
                    return False
                q = p + [rng.choice(names)]
            op = {"op": "newspace", "q": q, "params": gen_pform(rng, paths) if rng.random() < 0.5 else None}
        elif kind == "delspace":
            if len([n for n in self.defs if len(n["path"]) == 1]) <= 1 and len(p) == 1:
                return False
            op = {"op": "delspace", "q": p}
        elif kind == "setparams":
            op = {"op": "setparams", "p": p,
                  "params": None if (nd["params"] and rng.random() < 0.15) else gen_pform(
                      rng, paths, PNAMES if len(p) == 1 or rng.random() < 0.5 else ["k", "i"])}
        elif kind == "clearitems":
            if not nd["params"]:
                return False
            op = {"op": "clearitems", "p": p}
        else:   # delitem
            tops = [r for r in self.requests if "s" in r[0]]
            if not tops:
                return False
            par, sigpath, vals = rng.choice(tops)
            if node_of(self.defs, par["s"]) is None:
                return False
            op = {"op": "delitem", "p": par["s"], "key": vals}
        # precaution before the edit the tree does not propagate (module doc): D38 only
        k = op["op"]
        if k == "setparams" and self.risky(p):
            self.precaution()
        self.emit(op)
        self.apply(op)
        return True

    def apply(self, op):
        apply_edit(self.defs, op, self.globs)
        k = op["op"]
        if k == "delspace":
            q = op["q"]
            self.dead_names.add(q[0] if len(q) == 1 else tuple(q))
        if k in ("setparams", "newspace") and op["params"]:
            bases_named(op["params"]["body"], self.based)

    def scenario_nested(self):
        """S[a].C[b] / S[a][b]: an ItemSpace requested from a dynamic child space or from an ItemSpace"""
        rng = self.rng
        tops = [nd for nd in self.defs if nd["params"]]
        if not tops:
            return
        nd = rng.choice(tops)
        n0 = len(self.slots)
        self.requests = self.requests
        before = len(self.ops)
        # request an instance of nd
        sig = nd["params"]["sig"]
        pos, kw, style, vals = gen_spelling(rng, sig)
        self.requests.append(({"s": nd["path"]}, nd["path"], vals))
        self.emit({"op": "getitem", "par": {"s": nd["path"]}, "pos": pos, "kw": kw, "style": style})
        base = pbody_base(nd["params"]["body"], {x: v for (x, _), v in zip(sig, vals)}) or nd["path"]
        self.slots.append({"path": list(base), "item": True})
        cur = n0
        for _ in range(rng.choice([1, 2])):
            path = self.slots[cur]["path"]
            kids = [X for X in children_of(self.defs, path) if node_of(self.defs, path + [X])["params"]]
            if kids and rng.random() < 0.75:
                X = rng.choice(kids)
                self.emit({"op": "child", "h": cur, "name": X})
                self.slots.append({"path": path + [X], "item": False})
                cur = len(self.slots) - 1
                path = path + [X]
            pn = node_of(self.defs, path)
            if pn is None or not pn["params"]:
                break
            sig = pn["params"]["sig"]
            pos, kw, style, vals = gen_spelling(rng, sig)
            self.requests.append(({"h": cur}, path, vals))
            self.emit({"op": "getitem", "par": {"h": cur}, "pos": pos, "kw": kw, "style": style})
            base = pbody_base(pn["params"]["body"], {x: v for (x, _), v in zip(sig, vals)}) or path
            self.slots.append({"path": list(base), "item": True})
            cur = len(self.slots) - 1
            self.op_eval_on(cur)

    def op_eval_on(self, i):
        c, ar = self.pick_cells(i)
        self.emit({"op": "eval", "h": i, "c": c, "args": [self.rng.randint(0, 3) for _ in range(ar)]})

    def run(self):
        rng = self.rng
        guard = 0
        refresh = 0
        if rng.random() < 0.3:
            op = {"op": "setglobal", "x": "g", "v": rng.randint(50, 90)}
            self.emit(op); self.apply(op)
        if rng.random() < 0.35:
            self.scenario_nested()
        while len(self.ops) < self.nops and guard < 400:
            guard += 1
            r = rng.random()
            if refresh > 0:
                refresh -= 1
                r = rng.choice([0.1, 0.3, 0.3, 0.5])
            if not self.slots or r < 0.25:
                self.op_getitem()
            elif r < 0.65:
                self.op_eval()
            elif r < 0.71:
                self.op_child()
            elif r < 0.75:
                self.op_takecells()
            else:
                if self.op_edit():
                    refresh = rng.choice([1, 2, 3])
        return {"defs": self.case_defs, "ops": self.ops}


def add_static_call(rng, defs):
    """(P)-only vocabulary: a parameter formula that calls a cells `hb` of a static space (the ItemSpace then hangs
    below that cells in the trace graph: editing the cells must delete the instance, model.py clear_with_descs)"""
    tops = [nd for nd in defs if nd["params"]]
    hosts = [nd for nd in defs if not nd["params"]] or defs
    if not tops:
        return False
    host = rng.choice(hosts)
    host["cells"].append(["hb", [], ["c", rng.randint(1, 9)]])
    nd = rng.choice(tops)
    body = nd["params"]["body"]
    ref = [rng.choice(["u", "y"]), ["b", "+", ["scall", host["path"], "hb"], ["c", rng.randint(0, 3)]]]
    if isinstance(body, dict):
        body["refs"] = [r for r in body["refs"] if r[0] != ref[0]] + [ref]
    else:
        nd["params"]["body"] = {"base": None, "refs": [ref]}
    return True


def gen_case(rng, nops=None):
    defs = gen_defs(rng)
    ponly = rng.random() < 0.1 and add_static_call(rng, defs)
    if ponly:
        g = Gen(rng, defs, nops or rng.choice([8, 12, 16]))
        g.hb = True
        case = g.run()
        case["precautions"] = g.precautions
        case["ponly"] = True
        return case
    g = Gen(rng, defs, nops or rng.choice([6, 10, 14, 18, 24]))
    case = g.run()
    case["precautions"] = g.precautions
    return case


def canon(case):
    return json.dumps([case["defs"], case["ops"]], sort_keys=True)
