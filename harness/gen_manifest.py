"""writes MANIFEST.json from the table below (run by hand after editing)"""
import json, os
V = os.path.dirname(os.path.dirname(os.path.abspath(__file__)))
CHECKS = {
 "C04": dict(
   text="Coq theorems over the dotted-name algebra used for base-space names (string and tuple round trip, all names/namespaces) "
        "tied to core/util.py by vm_compute correspondence; growing towards the statement-level codec (DESIGN 6/C04)",
   note="trusted: Coq kernel+vm_compute, correspondence harness; modelled-not-verified: pickle, tokenizer, file system",
   technique="Coq proof (list/string induction) + vm_compute correspondence with core/util.py", design="6/C04"),
}
EXEC_NOTE = ("trusted: Coq kernel+vm_compute; hand-written model Exec/Model.v of core/system.py, cells.py, model.py (formula vocabulary: ints/None, calls, "
             "references by name/attribute, conditional, try/except, try/finally, raising expressions) tied by the correspondence harness; CPython, networkx modelled not verified; "
             "theorems about the RESULT of a request assume that no failing finally-clause replaced the depth-limit error during it (ghost counter s_masks, trivially true without try/finally; Exec/FinMask.v refutes the statement without it); invariant theorems are unconditional")
CHECKS.update({
 "C01": dict(text="Coq refinement theorem: the caching executor (call stack, cache, graphs) returns exactly the value of the uncached specification evaluator, "
                  "for every model of the formula vocabulary, every argument tuple and every order of requests; held elements are never re-executed; bound keys are canonical. "
                  "Model tied to the code on every run by vm_compute correspondence over generated histories.",
             note=EXEC_NOTE, technique="Coq proof (mutual fuel induction, simulation of executor by spec evaluator) + vm_compute correspondence", design="6/C01"),
 "C05": dict(text="Coq theorem: for every failure position and error kind the cache invariant is preserved, the call stack restored, held values and definitions unchanged, the error recorded, "
                  "and later evaluations return the specification value (retry); no element of the failing chain (the specification chain, which by C17 is the recorded traceback) holds a computed value "
                  "afterwards - none at all in states reached by histories (depth-limit error excluded from this clause).",
             note=EXEC_NOTE + "; C-stack crash clause outside any model", technique="Coq proof (failure branch of the executor simulation) + vm_compute correspondence", design="6/C05"),
})
CHECKS.update({
 "C16": dict(text="Coq proofs over an executable Gallina model of get_calcsteps/generate_actions/execute_actions for all DAGs, all topological orders, all target lists and all step sizes: "
                  "partition in dependency order, pasted empty, every formula runs once, exactly the targets remain (as inputs, with the directly evaluated values), cache restored by generate_actions. "
                  "Tied to /repo on every run by exact comparison of action lists, execution logs, per-action cache states and values on generated models.",
             note="trusted: Coq kernel incl. vm_compute, harness, Plan/Tie.v; modelled not verified: networkx topological_sort (its output is an input checked by check_order, proved sound), "
                  "trace graph abstracted to calculated nodes reachable through calculated nodes; precondition D25 (no precedent pre-computed) explicit in the statements, recorded as known finding; 35% of the plans hold None values (allow_none), observed as 0; (P)-only classes: a second round on the same model, a failing element, one plan with 6000 elements under one target",
             technique="Coq proof (induction over the planner loop and over fuel) + vm_compute correspondence + property oracle", design="6/C16"),
})
CHECKS.update({
 "C02": dict(text="Coq theorems: (1) for every history of evaluations interleaved with value assignments/overwrites, clear_at/clear/clear_all, formula changes, cached-flag changes, "
                  "recalculation-option changes and reference changes (read by name or by attribute path), the dependency-coverage invariant holds and every held value and every answer equals "
                  "the uncached specification value under the CURRENT definitions and inputs; (2) the differential form as worded: definitions and user-assigned values evolve by the edits "
                  "alone (refinement to the abstract model Diff.adefs/ainp_step), so two histories with the same edits - in particular a history and its edits-only replay - answer every "
                  "request alike. Structural edits (cells/spaces/bases, creating/deleting references) belong to C03/C11-C13 and reach this layer only through the correspondence. "
                  "Finding D40 (fixed in /repo) was found while proving (2). (3) No theorem: a wide edits-only replay differential on the implementation over the structural vocabulary "
                  "(spaces, inheritance, shadowing, renames, ItemSpaces), 150/2000 histories per run.",
             note=EXEC_NOTE + "; theorems assume refn_ok (by-name reads only of visible references; formulas may handle failures of callees since the repair of D20); ghost flag s_reent=false (no formula re-entered itself, i.e. no DeepReferenceError cycle); depth-limit error excluded from the differential",
             technique="Coq proof (coverage invariant by simulation of executor against a reads-instrumented spec; locality lemma; closure of reach; refinement of definitions+inputs to an abstract edit model) + vm_compute correspondence + edits-only differential", design="6/C02"),
 "C06": dict(text="Coq theorems: clearing/overwriting an element removes exactly the held elements reachable from it in the dependency graph (reach = reflexive-transitive closure, proved), "
                  "every read of a held element has an edge (coverage), other values and inputs untouched, clear() keeps inputs, assigned values are returned without running formulas, "
                  "set_value keeps the invariant under both recalc settings; after ANY operation (incl. reference changes, failed evaluations, recalculation) the user-assigned values are "
                  "exactly those the operation itself sets/removes (Diff.ainp_step); the edges are exact (edge m->j iff j's formula called m, C06_edge_iff_read), so the discarded set is "
                  "precisely the set of true dependents.",
             note=EXEC_NOTE + "; s_reent=false hypothesis", technique="Coq proof (graph closure lemma + coverage invariant) + vm_compute correspondence + graph-descendant oracle", design="6/C06"),
 "C08": dict(text="Coq theorems: in every state reached by any history of evaluations, cache hits, failed evaluations and edits (C02's hypotheses): graph item nodes = held elements, edges join graph nodes, "
                  "inputs have no predecessors, uncached cells hold nothing; for every element holding a computed value the recorded predecessors are EXACTLY the reads of its formula by the "
                  "reads-instrumented specification (every read recorded: coverage, sim2_all; every predecessor a read: exactness, ex_all/step_Exa - cached elements called directly or through "
                  "uncached cells, the uncached cells passed through, references read by attribute in the reference graph); the graph is ACYCLIC (a read element is evaluated with strictly less "
                  "fuel than its reader). Model tied to mx preds/succs/precedents on every run; reference-interpreter oracle.",
             note=EXEC_NOTE + "; refn_ok, s_reent=false hypotheses in the proved histories; precedents() of references read by name is checked by correspondence (cov_rd RName) only", technique="Coq proof (coverage invariant Cov and exactness invariant Exa through push/hit/pop/rollback and every edit; infinite-descent argument for acyclicity) + vm_compute correspondence + reference-interpreter oracle", design="6/C08"),
 "C09": dict(text="Coq theorems: flipping the cached flag of any cells at any point keeps the invariant, so all later answers are the specification values; uncached cells hold no values; "
                  "invalidation reaches values computed through uncached cells (object-node coverage); the specification value does not depend on the flags (flags_irrelevant - false of the pinned "
                  "code, finding D33, repaired in /repo 008a3ab: the None check now applies to uncached cells too), hence two reachable states whose definitions differ only in flags answer every "
                  "request alike (depth-limit error excluded). Checked on every run by the two-flag-assignment differential.",
             note=EXEC_NOTE + "; refn_ok, s_reent=false; 'accepts unhashable arguments when uncached' (Python hashing) is outside the model", technique="Coq proof (set_cached preserves Quiet; coverage of uncached cells; flag-insensitivity of the specification evaluator by induction on fuel) + vm_compute correspondence + flag-assignment differential", design="6/C09"),
 "C17": dict(text="Coq theorems: from any state satisfying the executor invariant - hence after any sequence of earlier evaluations whatever they returned (escaped failures, failures caught by "
                  "formulas, no restriction on the formulas), and after any edit history admitted by C02's hypotheses - a failing top-level evaluation records exactly the specification's error "
                  "and exactly the specification's executing chain (Chain.spec_chain: a function of current definitions and inputs only; elements outermost first with the line of the next call "
                  "or of the error), and nothing stays in the rolled-back list; a successful evaluation leaves nothing behind. Excluded from the theorem: the recursion-depth error. The model's "
                  "full tracebacks are compared with mx.get_traceback()/get_error() on every run, and with the reference-interpreter oracle.",
             note=EXEC_NOTE + "; traceback.TracebackException frame/line semantics modelled; KDeep excluded; the statement try/finally (SFin: a formula evaluating cells while a failure passes) runs in 40% of the worlds; the exact-traceback theorems take the hypothesis that no failing clean-up replaced the depth-limit error during the request (ghost counter s_masks; Exec/FinMask.v refutes the statement without it)", technique="Coq proof (chain-instrumented specification, simulation sim3_all by induction on fuel) + vm_compute correspondence of full tracebacks + executing-chain oracle", design="6/C17"),
 "C03": dict(text="Coq proof that for every sequence of space/base/member edits the model's members equal the from-scratch re-derivation along the C3 order (plus name uniqueness, the C3 laws "
                  "and evaluation in the sub space), model tied to /repo after every operation by vm_compute correspondence on random and exhaustive small ordered-base DAGs. The pinned tree "
                  "deviated on D1 D2 D2b D3 D33 D34 (D23): all repaired in /repo, their former triggers are generated, their witnesses must pass.",
             note="trusted: Coq kernel + vm_compute, harness generator/emitter/driver, Defs/Check.v; modelled not verified: networkx (DAG test, traversal order), CPython; flat spaces, integer refs, "
                  "lambda:<int|refname> formulas; on_inherit idealised to read only defined members; outside: rename, nesting, dynamic spaces, is_cached/allow_none/refmode, value cache",
             technique="Coq refinement proof (induction over fold_left step; C3 by fuel induction) + vm_compute correspondence + Coq rederive oracle + Python frame oracle", design="6/C03"),
 "C04": dict(text="Statement-level codec round trip decode (encode m) = Some m for all well-formed model descriptions, zip==directory file maps for the writer's write plan, the path algebra and the "
                  "docstring literal condition proved in Coq; same encoder, write plan, file-system models and lexer evaluated in Coq on every run against what the real writer wrote; the property "
                  "itself checked implementation-vs-implementation on generated models for both containers and chains.",
             note="trusted: Coq kernel + vm_compute, harness describe() and the ast abstraction in c04codec.py; modelled not verified: CPython tokenizer/ast/asttokens, pickle value fidelity, zipfile/pathlib, "
                  "formula text (C20), reader instruction phases ((P) only), IOSpec references (C18); generator avoids D24 and C04-local D33 D34 D36 (three variants) D37 (D1 D8 D9 D35 repaired in /repo and generated)",
             technique="Coq proof (induction over nested trees / write sequences) + generated-case correspondence by vm_compute + differential oracle on the real library", design="6/C04"),
 "C14": dict(text="Backup-chain invariant proved in Coq for ALL sequences of faulted and successful saves, zip and directory, one fault per save at any operation (unconditional since the /repo repair of D17; no path ever holds a partly written copy), over an executable model of "
                  "_increment_backups, ModelWriter.write_model and ModelReader.read_model, plus session/registry cleanliness after any failed operation; tied to /repo on every run by exhaustive "
                  "fault-point enumeration with traces and on-disk state compared inside Coq.",
             note="trusted: Coq kernel + vm_compute; driver monkey-patch fault injection (a fault raises before the primitive runs); modelled not verified: pathlib, shutil, zipfile, pickle, tempfile; "
                  "member shapes from clean runs; four slots (DEFAULT_MAX_BACKUPS=3); one fault per save (a second fault inside the removal of a partly written tree is not modelled); not modelled: partial rmtree, cross-filesystem move, serializer_1 fallback",
             technique="Coq proof (induction over save lists + 4-slot case analysis) + exhaustive fault-injection correspondence + property oracle", design="6/C14"),
 "C15": dict(text="Coq proof that the exporter's name-rewriting rule preserves evaluation for every formula of a binder grammar and every model satisfying a decidable well-formedness check, plus "
                  "memo-table soundness; tie on every run: real FormulaTransformer output = transform, the Gallina evaluator on the dumped implementation state = observed values in both worlds, "
                  "exported values = model values four ways (modelx-free subprocess).",
             note="trusted: Coq kernel + vm_compute; Python harness (generator, printer/parser, dump); modelled not verified: CPython scoping/evaluation on the grammar, libcst, symtable, pickle; outside: "
                  "syntax beyond the grammar, default parameter values, pandas/IOSpec refs, package module globals; no recorded defect is avoided any more (builtin_child self_local comp_scope comp_var ifexp_order val_param nonfinite_float_ref repaired in /repo, their shapes generated; formulas binding `self` are refused by the exporter)",
             technique="Coq simulation proof (fuel + structural induction) + translation validation of FormulaTransformer + differential testing in a modelx-free subprocess", design="6/C15"),
 "C18": dict(text="Coq proof over all operation sequences (new_pandas/new_module, assignment, rebinding, deletion, update, add/remove_bases, close, sheet/path setters, del_spec, deleting and re-creating top-level spaces) that the IO manager's "
                  "specs are exactly those whose value is bound by a reference of an open model; rejected creations change nothing; no two specs share a location; _check_sanity assertions are "
                  "invariants. Tied to modelx on every run by replaying generated histories and comparing all spec/reference observables after every operation.",
             note="trusted: Coq kernel + vm_compute, drivers/iospec.py, emitter/oracle in props/C18.py; modelled not verified: object identity as tokens, derived refs recomputed; pandas/openpyxl/importlib "
                  "file round trip checked on the implementation only; histories avoid triggers of 2 recorded defects (abspath read_override; rebind_same stale_derived dup update_bound sheet_none sheet_to_none delspace scalar emptysheet repaired in /repo and generated), closed models and absolute paths; '' is identified with no sheet name, child spaces are not deleted",
             technique="Coq invariant induction over fold_left step + vm_compute correspondence + implementation-side oracle + stored defect witnesses", design="6/C18"),
 "C20": dict(text="Coq proof over a line/token-position model of formula.py: normalisation to a canonical text, idempotence, name-only rename, docstring-only set_doc with read-back, lambda "
                  "extraction, for all well-formed structured texts; tied to /repo on every run by evaluating the model on the real texts with asttokens positions, plus a behavioural oracle "
                  "(values, parameters, AST, comments).",
             note="partial: CPython tokenizer/compiler, ast+asttokens positions, textwrap.dedent, inspect.getsource modelled not verified (positions are inputs cross-checked per case); behavioural half "
                  "rests on the (P) oracle; insert_indents=True, multi-line lambdas, _reload, NULL_FORMULA outside theorems; D31 D33 D34 D35 recorded findings avoided (D10 D30 D32 D36 repaired in /repo and generated); half of the renames have an overriding and a plainly derived bystander sub space; sibling lambdas on one line: refusal (D35) accepted, a capture must be the wanted lambda",
             technique="Coq Gallina model + inductive proofs + vm_compute correspondence on generated structured texts + differential oracle", design="6/C20"),
})
CHECKS.update({
 "C13": dict(text="Coq proof that in the Alive model every deletion route (del of a cells or space tree, loss of a base member or base relation, ItemSpace discard) leaves everything inside the deleted "
                  "object and every derived copy without a definer dead, with no container, base list, value or dependency listing mentioning a dead object, and that only the deleted-object error "
                  "answers a dead handle, and that nothing outside that closure dies (a derived cells survives iff a definer is left; acyclic inheritance graph in every reachable state), for all histories; tied to /repo on every run by replaying generated histories and comparing all handles, containers, values and the trace graph inside "
                  "Coq, plus an implementation-only oracle including an edit-only replay differential.",
             note="trusted: hand-written Alive/Model.v, harness drivers/alive.py, Alive/Check.v; not modelled: C3 order, formulas (function of the name), space-level references, renaming, input values, "
                  "uncached cells (witnesses/corpus cases are (P)-only); ItemSpaces nested in ItemSpaces with shared precedents (harness/alivenest.py) are a (P)-only case class outside the model: "
                  "must-die lists, deep reachability audit and edit-only replay differential on the implementation; no recorded defect is avoided any more (D14 C13a C13c C13e D3 D21 D22 D23 repaired in /repo); NewCells whose definer depends on the C3 order is not drawn (not modelled); the ItemSpace part of the closure is stated with the model's dyn_roots/subs_of sets",
             technique="Coq invariant induction over fold_left step + vm_compute correspondence + implementation oracle (edit-only replay)", design="6/C13"),
 "C19": dict(text="Coq proof over a Gallina model of the model registry (dict, per-model names, the two AutoNamer counters, new/rename/_rename_samename/close/read/cur_model) that for all operation "
                  "sequences the registry maps unique valid names to the model of that name, no operation but close removes a model, a clashing model keeps its identity under <name>_BAKn, close "
                  "removes exactly one model and rejected operations change nothing; tied to /repo on every run by comparing the registry, every handle's name and the current model after each "
                  "operation of generated histories.",
             note="trusted: Coq kernel + vm_compute; harness (drivers/registry.py, props/C19.py, identity tokens via `is`); modelled not verified: ASCII is_valid_name, read_model = new_model()+rename(rename_old), "
                  "counters probed via public API; isolation of model contents only by before/after differential on the implementation (no theorem); former findings stale_handle, read_missing, "
                  "read_late_failure repaired in /repo: their triggers are generated, their witnesses replayed",
             technique="Coq induction over fold_left step + fuelled get_next with pigeonhole bound + vm_compute correspondence + isolation differential", design="6/C19"),
})
CHECKS.update({
 "C07": dict(text="Machine-checked refinement of a Gallina model of ItemSpaces (parameter formulas as data, bind with defaults/keywords, nested instances, the deletions every base edit performs) to an "
                  "uncached substitution semantics: instance evaluation = base evaluation with parameters and returned references bound, same-binding arguments give the same instance, isolation "
                  "between instances, freshness after any edit history, for all operation sequences. Tied to /repo on every run by a per-operation correspondence; the proved spec function is also "
                  "evaluated on the implementation's own outputs, plus a fresh-model differential.",
             note="trusted: Coq kernel + vm_compute; Python harness; inspect.Signature.bind; weakref-based handle reuse rests on the tie; modelled not verified: int-valued refs, no ItemSpace requests or "
                  "cells calls from inside parameter formulas (differential only), no inheritance between static spaces; no recorded defect is avoided (D14 D15 D16 D18 D38 D39 D41 repaired in /repo and generated)",
             technique="Coq refinement proof (invariant by induction over operations and fuel) + vm_compute correspondence + proved-spec oracle + fresh-model differential", design="6/C07"),
})
CHECKS.update({
 "C10": dict(text="Coq theorems over an executable model of get_relative / on_inherit / ItemSpace rebinding and of edit histories: full characterisation of relative rebinding for all modes, paths and "
                  "nesting depths (binding = rebind mode definer target deriver), absolute/outside targets unchanged, chains compose, the incremental state equals from-scratch derivation for all "
                  "histories; tied to /repo on every run by a grid plus random histories evaluated inside Coq and by an identity-based property oracle on the live objects (incl. write/read).",
             note="trusted: Coq kernel + vm_compute, harness (relref driver, c10model trigger mirror); modelled not verified: the C3 order is an observed input (C03), existence of corresponding objects, "
                  "ItemSpace freshness (C07), serializer internals (round trip observed only); histories avoid the trigger of 1 recorded defect (dangling_target, late-creation half) and the non-atomic add_bases failure (DESIGN limits); D15 D19 D33 dyn_direct_bases change_ref_is_relative stale_mode relative_change_unchecked dangling_target_overwrite dyn_derived_nonrelative suffix_root stale_outer_root repaired in /repo and generated",
             technique="Coq refinement to a path-algebra spec (induction over names and edit lists) + vm_compute correspondence + identity/differential oracle", design="6/C10"),
})
CHECKS.update({
 "C11": dict(text="Machine-checked proof on a Gallina model of the name-level editing API: every rejected operation returns the identical state (any state, all 13 rejection reasons, incl. exact roll-back "
                  "of new_cells/new_space), and every history leaves the base relation acyclic with a C3 linearisation for every space and only valid identifiers as space and cells names; tied to "
                  "/repo on every run by executing the same histories in Coq and comparing outcome class and name maps after each operation, plus describe-before = describe-after oracle.",
             note="trusted: Coq kernel + vm_compute, correspondence harness (nameslib.py, drivers/names.py); ideal model: the pinned tree deviated on D3 D11 D12 D34 N4 N8 N10 N11, all repaired in /repo and generated (witnesses replayed, must pass"
                  "); modelled not verified: which source texts are malformed (ast; one bit in the model), C3 from MX.C3; outside: cell values and inputs ((P) only)",
             technique="Coq induction over fold_left step with invariants (tree / closed bases / all-MRO-ok / valid names), C3 commuting with injective relabelling + vm_compute correspondence", design="6/C11"),
 "C12": dict(text="Machine-checked proof that in every reachable state cells, own references (defined or derived) and child spaces of a space are pairwise disjoint, that no operation can break this in any "
                  "sub space, and that dir() and name lookup of spaces and ItemSpaces equal the chained containers with own references before model-level ones and parameters before base references; "
                  "tied to /repo by the same histories with dir(), containers, getattr kinds and the library's self-checks observed after every operation.",
             note="trusted: as C11; ideal model: no recorded deviation is left (D13 D23 N1 N2 N3 N5 N6 N7 N9 new_space_refs model_ref_to_object_sanity repaired in /repo and generated); a (P)-only *wide* class (references bound to spaces/cells, new_space(refs=...)) and the directed clash-deep-below histories run beside the tied histories; modelled not verified: derived members are a view along the C3 order, ItemSpace observed at argument 0 "
                  "only; the lazy-container refresh is exercised by the tie, not modelled",
             technique="Coq name-disjointness invariant by induction with per-operation frame lemmas + vm_compute correspondence + self-check oracle", design="6/C12"),
})
EXPLORE = {}
PENDING = {}
for i in range(1, 21):
    p = "C%02d" % i
    if p not in CHECKS and p not in EXPLORE:
        PENDING[p] = "model and theorems for this property are not built yet in this revision of /verif (see DESIGN.md section 10 build order)"
man = {
 "version": 1,
 "setup_cmd": "cd /verif && /venv/bin/python -B harness/setup.py",
 "hooks": {"guard": "MODELX_VERIF", "enable": "no source hooks are needed; drivers import /repo with PYTHONPATH=/repo and MODELX_VERIF=1",
           "baseline_off_cmd": "cd /repo && /venv/bin/python -m pytest -ra -q -p no:cacheprovider --timeout=900 --continue-on-collection-errors",
           "source_commits": [], "add_only": True},
 "engines": [{"name": "coq-proof+correspondence", "path": "/verif/check", "serves_properties": sorted(list(CHECKS) + list(EXPLORE)),
              "kind_free_text": "Coq 8.16.1 development (coq/theories) proving the properties over hand-written Gallina models; "
                                "harness/ drives the real modelx and compares with the model under vm_compute"}],
 "checks": [
   {"property_id": p, "quick_cmd": "./check %s --tier quick" % p, "thorough_cmd": "./check %s --tier thorough" % p,
    "evidence_file": "/verif/evidence/%s.json" % p, "replay_cmd_template": "./check %s --replay {path}" % p,
    "engine": "coq-proof+correspondence",
    "level_claimed": {"category": "proof", "text": c["text"], "design_ref": c["design"]},
    "level_note": c["note"], "technique": c["technique"]} for p, c in sorted(CHECKS.items())] + [
   {"property_id": p, "quick_cmd": "./check %s --tier quick" % p, "thorough_cmd": "./check %s --tier thorough" % p,
    "evidence_file": "/verif/evidence/%s.json" % p, "replay_cmd_template": "./check %s --replay {path}" % p,
    "engine": "coq-proof+correspondence",
    "level_claimed": {"category": "exploration", "text": t, "design_ref": "6/" + p},
    "level_note": EXEC_NOTE, "technique": "correspondence of a Gallina model with the implementation + property oracle (proof pending)"} for p, t in sorted(EXPLORE.items())],
 "not_applicable": [{"property_id": p, "reason": r} for p, r in sorted(PENDING.items())],
 "notes": "See DESIGN.md. KNOWN_FINDINGS.txt lists recorded defects of the pinned tree.",
}
json.dump(man, open(os.path.join(V, "MANIFEST.json"), "w"), indent=1)
print("checks:", sorted(CHECKS), "pending:", len(PENDING))
