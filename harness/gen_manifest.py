"""writes MANIFEST.json from the table below (run by hand after editing)"""
import json, os
V = os.path.dirname(os.path.dirname(os.path.abspath(__file__)))
CHECKS = {
 "C04": dict(
   text="Coq theorems over the dotted-name algebra used for base-space names (string and tuple round trip, all names/namespaces) "
        "tied to core/util.py by vm_compute correspondence; growing towards the statement-level codec (DESIGN 6/C04)",
   note="trusted: Coq kernel+vm_compute, correspondence harness; modelled-not-verified: pickle, tokenizer, file system",
   technique="Coq proof (list/string induction) + vm_compute correspondence with core/util.py", design="6/C04"),
}
EXEC_NOTE = ("trusted: Coq kernel+vm_compute; hand-written model Exec/Model.v of core/system.py, cells.py, model.py (formula vocabulary: ints/None, calls, "
             "references by name/attribute, conditional, try/except, raising expressions) tied by the correspondence harness; CPython, networkx modelled not verified")
CHECKS.update({
 "C01": dict(text="Coq refinement theorem: the caching executor (call stack, cache, graphs) returns exactly the value of the uncached specification evaluator, "
                  "for every model of the formula vocabulary, every argument tuple and every order of requests; held elements are never re-executed; bound keys are canonical. "
                  "Model tied to the code on every run by vm_compute correspondence over generated histories.",
             note=EXEC_NOTE, technique="Coq proof (mutual fuel induction, simulation of executor by spec evaluator) + vm_compute correspondence", design="6/C01"),
 "C05": dict(text="Coq theorem: for every failure position and error kind the cache invariant is preserved, the call stack restored, held values and definitions unchanged, the error recorded, "
                  "and later evaluations return the specification value (retry). Clause 'failing chain holds no value' is covered by correspondence+oracle only (partial).",
             note=EXEC_NOTE + "; C-stack crash clause outside any model", technique="Coq proof (failure branch of the executor simulation) + vm_compute correspondence", design="6/C05"),
})
CHECKS.update({
 "C16": dict(text="Coq proofs over an executable Gallina model of get_calcsteps/generate_actions/execute_actions for all DAGs, all topological orders, all target lists and all step sizes: "
                  "partition in dependency order, pasted empty, every formula runs once, exactly the targets remain (as inputs, with the directly evaluated values), cache restored by generate_actions. "
                  "Tied to /repo on every run by exact comparison of action lists, execution logs, per-action cache states and values on generated models.",
             note="trusted: Coq kernel incl. vm_compute, harness, Plan/Tie.v; modelled not verified: networkx topological_sort (its output is an input checked by check_order, proved sound), "
                  "trace graph abstracted to calculated nodes reachable through calculated nodes; precondition D25 (no precedent pre-computed) explicit in the statements, recorded as known finding",
             technique="Coq proof (induction over the planner loop and over fuel) + vm_compute correspondence + property oracle", design="6/C16"),
})
EXPLORE = {
 "C02": "differential oracle (live model vs model that replayed only the edits) + correspondence of Exec/Model.v; invariant-preservation theorems for edits under construction",
 "C06": "graph-descendant oracle on every value edit + correspondence of Exec/Model.v; theorems under construction",
 "C08": "reference-interpreter oracle for preds/graph=cache/acyclicity + correspondence of Exec/Model.v; theorems under construction",
 "C09": "two-flag-assignment differential + correspondence of Exec/Model.v; theorems under construction",
 "C17": "executing-chain oracle (reference interpreter with line numbers) + correspondence of Exec/Model.v; theorems under construction",
}
PENDING = {}
for i in range(1, 21):
    p = "C%02d" % i
    if p not in CHECKS and p not in EXPLORE:
        PENDING[p] = "model and theorems for this property are not built yet in this revision of /verif (see DESIGN.md section 10 build order)"
man = {
 "version": 1,
 "setup_cmd": "cd /verif && /venv/bin/python -B harness/setup.py",
 "hooks": {"guard": "MODELX_VERIF", "enable": "no source hooks are needed; drivers import /repo with PYTHONPATH=/repo and MODELX_VERIF=1",
           "baseline_off_cmd": "cd /repo && /venv/bin/python -m pytest -ra -q -p no:cacheprovider --timeout=900 --continue-on-collection-errors",
           "source_commits": [], "add_only": True},
 "engines": [{"name": "coq-proof+correspondence", "path": "/verif/check", "serves_properties": sorted(list(CHECKS) + list(EXPLORE)),
              "kind_free_text": "Coq 8.16.1 development (coq/theories) proving the properties over hand-written Gallina models; "
                                "harness/ drives the real modelx and compares with the model under vm_compute"}],
 "checks": [
   {"property_id": p, "quick_cmd": "./check %s --tier quick" % p, "thorough_cmd": "./check %s --tier thorough" % p,
    "evidence_file": "/verif/evidence/%s.json" % p, "replay_cmd_template": "./check %s --replay {path}" % p,
    "engine": "coq-proof+correspondence",
    "level_claimed": {"category": "proof", "text": c["text"], "design_ref": c["design"]},
    "level_note": c["note"], "technique": c["technique"]} for p, c in sorted(CHECKS.items())] + [
   {"property_id": p, "quick_cmd": "./check %s --tier quick" % p, "thorough_cmd": "./check %s --tier thorough" % p,
    "evidence_file": "/verif/evidence/%s.json" % p, "replay_cmd_template": "./check %s --replay {path}" % p,
    "engine": "coq-proof+correspondence",
    "level_claimed": {"category": "exploration", "text": t, "design_ref": "6/" + p},
    "level_note": EXEC_NOTE, "technique": "correspondence of a Gallina model with the implementation + property oracle (proof pending)"} for p, t in sorted(EXPLORE.items())],
 "not_applicable": [{"property_id": p, "reason": r} for p, r in sorted(PENDING.items())],
 "notes": "See DESIGN.md. KNOWN_FINDINGS.txt lists recorded defects of the pinned tree.",
}
json.dump(man, open(os.path.join(V, "MANIFEST.json"), "w"), indent=1)
print("checks:", sorted(CHECKS), "pending:", len(PENDING))
