"""writes MANIFEST.json from the table below (run by hand after editing)"""
import json, os
V = os.path.dirname(os.path.dirname(os.path.abspath(__file__)))
CHECKS = {
 "C04": dict(
   text="Coq theorems over the dotted-name algebra used for base-space names (string and tuple round trip, all names/namespaces) "
        "tied to core/util.py by vm_compute correspondence; growing towards the statement-level codec (DESIGN 6/C04)",
   note="trusted: Coq kernel+vm_compute, correspondence harness; modelled-not-verified: pickle, tokenizer, file system",
   technique="Coq proof (list/string induction) + vm_compute correspondence with core/util.py", design="6/C04"),
}
PENDING = {}
for i in range(1, 21):
    p = "C%02d" % i
    if p not in CHECKS:
        PENDING[p] = "model and theorems for this property are not built yet in this revision of /verif (see DESIGN.md section 10 build order)"
man = {
 "version": 1,
 "setup_cmd": "cd /verif/coq && ./mk.sh",
 "hooks": {"guard": "MODELX_VERIF", "enable": "no source hooks are needed; drivers import /repo with PYTHONPATH=/repo and MODELX_VERIF=1",
           "baseline_off_cmd": "cd /repo && /venv/bin/python -m pytest -ra -q -p no:cacheprovider --timeout=900 --continue-on-collection-errors",
           "source_commits": [], "add_only": True},
 "engines": [{"name": "coq-proof+correspondence", "path": "/verif/check", "serves_properties": sorted(CHECKS),
              "kind_free_text": "Coq 8.16.1 development (coq/theories) proving the properties over hand-written Gallina models; "
                                "harness/ drives the real modelx and compares with the model under vm_compute"}],
 "checks": [
   {"property_id": p, "quick_cmd": "./check %s --tier quick" % p, "thorough_cmd": "./check %s --tier thorough" % p,
    "evidence_file": "/verif/evidence/%s.json" % p, "replay_cmd_template": "./check %s --replay {path}" % p,
    "engine": "coq-proof+correspondence",
    "level_claimed": {"category": "proof", "text": c["text"], "design_ref": c["design"]},
    "level_note": c["note"], "technique": c["technique"]} for p, c in sorted(CHECKS.items())],
 "not_applicable": [{"property_id": p, "reason": r} for p, r in sorted(PENDING.items())],
 "notes": "See DESIGN.md. KNOWN_FINDINGS.txt lists recorded defects of the pinned tree.",
}
json.dump(man, open(os.path.join(V, "MANIFEST.json"), "w"), indent=1)
print("checks:", sorted(CHECKS), "pending:", len(PENDING))
