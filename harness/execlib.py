"""Shared by the Exec-layer properties (C01 C02 C05 C06 C08 C09 C17):
world/ops generator, Python source renderer, Coq emitter.
A *world* is {"nspaces", "cells":[...], "refs":[...], "maxdepth"}; see gen_world."""
import json
import fw
from fw import cz, cnat, clist, ctuple, cbool, copt

KINDS = {"value": "KValue", "key": "KKeyErr", "zero": "KZero", "type": "KType",
         "none": "KNone", "deep": "KDeep", "name": "KName", "base": "KBase"}
RAISE_SRC = {"value": 'int("q")', "key": "{}[0]", "zero": "(1 // 0)", "type": "(None + 1)", "name": "undefined_name_q",
             "base": "(_ for _ in ()).throw(KeyboardInterrupt)"}
BINOPS = {"add": ("+", "Add"), "sub": ("-", "Sub"), "mul": ("*", "Mul"), "fdiv": ("//", "FloorDiv")}


# --------------------------------------------------------------------------
# rendering to Python source
# --------------------------------------------------------------------------
def cname(c):
    return "c%d" % c["cid"]


def render_val(v):
    return "None" if v is None else repr(v)


def render_expr(e, world, me):
    t = e[0]
    if t == "const":
        return render_val(e[1])
    if t == "par":
        return "p%d" % e[1]
    if t == "loc":
        return "t%d" % e[1]
    if t == "bin":
        return "(%s %s %s)" % (render_expr(e[2], world, me), BINOPS[e[1]][0], render_expr(e[3], world, me))
    if t == "ifpos":
        return "(%s if %s > 0 else %s)" % (render_expr(e[2], world, me), render_expr(e[1], world, me), render_expr(e[3], world, me))
    if t == "call":
        callee = world["cells"][e[1]]
        args = ", ".join(render_expr(a, world, me) for a in e[2])
        if callee["space"] == me["space"]:
            return "%s(%s)" % (cname(callee), args)
        return "_model.S%d.%s(%s)" % (callee["space"], cname(callee), args)
    if t == "refn":
        return "r%d" % e[1]
    if t == "refa":
        r = world["refs"][e[1]]
        sp = r["space"] if r["space"] is not None else me["space"]
        return "_model.S%d.r%d" % (sp, e[1])
    if t == "raise":
        if world.get("shared_exc") and e[1] in ("key", "zero"):
            # the SAME exception object is raised every time (model-level references SHX_key / SHX_zero set by the
            # driver): its traceback accumulates the frames of the earlier failures
            return "(_ for _ in ()).throw(SHX_%s)" % e[1]
        return RAISE_SRC[e[1]]
    raise ValueError(e)


def render_cell(c, world):
    np_, d = c["nparams"], c["defaults"]
    params = []
    for i in range(np_):
        k = i - (np_ - len(d))
        params.append("p%d" % i if k < 0 else "p%d=%s" % (i, render_val(d[k])))
    lines = ["def %s(%s):" % (cname(c), ", ".join(params)),
             "    LOG(%d, (%s))" % (c["cid"], "".join("p%d, " % i for i in range(np_)))]
    for i, s in enumerate(c["body"]):
        if s[0] == "assign":
            lines.append("    t%d = %s" % (i, render_expr(s[1], world, c)))
        elif s[0] == "fin":
            # SFin of Exec/Model.v: the clean-up expression runs also while a failure of the protected expression
            # passes through this formula
            lines += ["    try:", "        t%d = %s" % (i, render_expr(s[1], world, c)),
                      "    finally:",
                      "        %s" % render_expr(s[2], world, c)]
        else:
            lines += ["    try:", "        t%d = %s" % (i, render_expr(s[1], world, c)),
                      "    except (ValueError, KeyError, ZeroDivisionError):",
                      "        t%d = %s" % (i, render_expr(s[2], world, c))]
    lines.append("    return t%d" % (len(c["body"]) - 1))
    return "\n".join(lines) + "\n"


# --------------------------------------------------------------------------
# emitting Coq terms
# --------------------------------------------------------------------------
def cval(v):
    return "VNone" if v is None else "(VInt %s)" % cz(v)


def ckey(k):
    return clist([cval(v) for v in k])


def citem(c, k):
    return ctuple([cnat(c), ckey(k)])


def cnode(n):
    return "(NItem %s %s)" % (cnat(n[0]), ckey(n[1])) if len(n) == 2 else "(NObj %s)" % cnat(n[0])


def cexpr(e):
    t = e[0]
    if t == "const":
        return "(EConst %s)" % cval(e[1])
    if t == "par":
        return "(EPar %s)" % cnat(e[1])
    if t == "loc":
        return "(ELoc %s)" % cnat(e[1])
    if t == "bin":
        return "(EBin %s %s %s)" % (BINOPS[e[1]][1], cexpr(e[2]), cexpr(e[3]))
    if t == "ifpos":
        return "(EIfPos %s %s %s)" % (cexpr(e[1]), cexpr(e[2]), cexpr(e[3]))
    if t == "call":
        return "(ECall %s %s)" % (cnat(e[1]), clist([cexpr(a) for a in e[2]]))
    if t == "refn":
        return "(ERefN %s)" % cnat(e[1])
    if t == "refa":
        return "(ERefA %s)" % cnat(e[1])
    if t == "raise":
        return "(ERaise %s)" % KINDS[e[1]]
    raise ValueError(e)


def has_fin(case):
    """the case uses the statement try/finally (SFin of Exec/Model.v) somewhere"""
    bodies = [c["body"] for c in case["world"]["cells"]] + [c.get("far_body") or [] for c in case["world"]["cells"]] + \
             [o[2]["body"] for o in case["ops"] if o[0] == "setf"]
    return any(st[0] == "fin" for b in bodies for st in b)


def has_ponly_op(case):
    return any(o[0] == "setallow" for o in case["ops"])


def cstmt(s):
    if s[0] == "fin":
        return "(SFin %s %s)" % (cexpr(s[1]), cexpr(s[2]))
    return "(SAssign %s)" % cexpr(s[1]) if s[0] == "assign" else "(STry %s %s)" % (cexpr(s[1]), cexpr(s[2]))


def cbody(b):
    return clist([cstmt(s) for s in b])


def ccell(c):
    return "(mkCell %s %s %s %s %s %s)" % (cbody(c["body"]), cnat(c["nparams"]), clist([cval(v) for v in c["defaults"]]),
                                           cbool(c["cached"]), cbool(c["allow_none"]), cnat(c["space"]))


def cop(o):
    t = o[0]
    if t == "eval":
        return "(OpEval %s)" % citem(o[1], o[2])
    if t == "setv":
        return "(OpSetValue %s %s)" % (citem(o[1], o[2]), cval(o[3]))
    if t == "clearat":
        return "(OpClearAt %s)" % citem(o[1], o[2])
    if t == "clear":
        return "(OpClear %s)" % cnat(o[1])
    if t == "clearall":
        return "(OpClearAll %s)" % cnat(o[1])
    if t == "setf":
        c = o[2]
        return "(OpSetFormula %s %s %s %s)" % (cnat(o[1]), cbody(c["body"]), cnat(c["nparams"]), clist([cval(v) for v in c["defaults"]]))
    if t == "setcached":
        return "(OpSetCached %s %s)" % (cnat(o[1]), cbool(o[2]))
    if t == "setref":
        return "(OpSetRef %s %s)" % (cnat(o[1]), cval(o[2]))
    if t == "recalc":
        return "(OpSetRecalc %s)" % cbool(o[1])
    if t == "tracecycle":
        # mx.start_stacktrace(); mx.stop_stacktrace(): no effect on the session; tied as setting the recalculation
        # option to the value it has (o[1], filled in by the generator)
        return "(OpSetRecalc %s)" % cbool(o[1])
    raise ValueError(o)


def cout(x):
    if x[0] == "val":
        return "(OVal %s)" % cval(x[1])
    if x[0] == "err":
        return "(OErr %s)" % KINDS[x[1]]
    return {"ok": "OOk", "rejected": "ORejected"}[x[0]]


def cobs(ob):
    return "(mkObs %s %s %s %s %s %s %s %s %s)" % (
        cout(ob["out"]),
        clist([ctuple([citem(c, k), cval(v)]) for c, k, v in ob["data"]]),
        clist([citem(c, k) for c, k in ob["inputs"]]),
        clist([cnode(n) for n in ob["nodes"]]),
        clist([ctuple([cnode(a), cnode(b)]) for a, b in ob["edges"]]),
        clist([ctuple([cnat(r), citem(c, k)]) for r, (c, k) in ob["redges"]]),
        copt(None if ob["tb"] is None else clist([ctuple([citem(c, k), cnat(ln)]) for c, k, ln in ob["tb"]])),
        clist([citem(c, k) for c, k in ob["log"]]), cbool(ob.get("log_ordered", True)))


def cworld(w):
    cells = clist([ctuple([cnat(c["cid"]), ccell(c)]) for c in w["cells"]])
    refs = clist([ctuple([cnat(r["rid"]), ctuple([copt(None if r["space"] is None else cnat(r["space"])), cval(r["val"])])])
                  for r in w["refs"]])
    return cells, refs


def ccase(case, result):
    cells, refs = cworld(case["world"])
    return ctuple([cells, refs, cnat(case["world"]["maxdepth"]),
                   clist([cop(o) for o in case["ops"]]), clist([cobs(ob) for ob in result["obs"]])])


CASE_TYPE = "case"
REQUIRES = ["Exec.Model", "Exec.Check"]
FUEL = 3000


def tie(tag, cases, results):
    """(T): indices of cases on which Exec/Model.v and the implementation differ"""
    terms = [ccase(c, r) for c, r in zip(cases, results)]
    return fw.run_coq_cases(tag, REQUIRES, CASE_TYPE, "check_case %s" % cnat(FUEL), terms, shard=40)


def hypotheses(tag, cases, results):
    """indices of cases that do NOT satisfy the hypotheses of the Exec theorems (defs_ok, refn_ok, op_ok2, no re-entry)"""
    terms = [ccase(c, r) for c, r in zip(cases, results)]
    return fw.run_coq_cases(tag + "hyp", REQUIRES, CASE_TYPE, "hyp_case %s" % cnat(FUEL), terms, shard=40)


def explain(tag, case, result):
    cells, refs = cworld(case["world"])
    st = "(init %s %s %s)" % (cells, refs, cnat(case["world"]["maxdepth"]))
    ops = clist([cop(o) for o in case["ops"]])
    obss = clist([cobs(ob) for ob in result["obs"]])
    bad = fw.coq_show(tag, REQUIRES, "first_bad %s %s %s %s 0%%nat" % (cnat(FUEL), st, ops, obss))
    return bad[-600:]


# --------------------------------------------------------------------------
# generator
# --------------------------------------------------------------------------
class Gen:
    """profile knobs (all probabilities in [0,1])"""

    def __init__(self, rng, **kw):
        self.rng = rng
        self.p_uncached = kw.get("p_uncached", 0.2)
        self.p_allow_none = kw.get("p_allow_none", 0.2)
        self.p_raise = kw.get("p_raise", 0.05)
        self.p_try = kw.get("p_try", 0.15)
        self.p_none = kw.get("p_none", 0.03)
        self.p_ref = kw.get("p_ref", 0.25)
        self.p_call = kw.get("p_call", 0.45)
        self.ncells = kw.get("ncells", (3, 8))
        self.nspaces = kw.get("nspaces", (1, 3))
        self.nrefs = kw.get("nrefs", (1, 4))
        self.maxdepth = kw.get("maxdepth", (6, 40))
        self.recursion = kw.get("recursion", 0.3)
        self.try_calls = kw.get("try_calls", True)   # False: no calls inside try (was used to avoid the trigger of D20, repaired in /repo)
        self.p_derived = kw.get("p_derived", 0.0)    # cells realised as derived copies of a base space's cells
        self.p_fin_world = kw.get("p_fin_world", 0.0)  # share of worlds whose formulas may use try/finally (SFin)
        self.fin = False
        self.p_shared_exc = kw.get("p_shared_exc", 0.0)   # share of worlds whose KeyError / ZeroDivisionError are ONE object each

    def val(self):
        return self.rng.randint(-3, 6)

    def expr(self, w, me, depth, nloc, callees):
        r = self.rng
        if depth <= 0 or r.random() < 0.25:
            x = r.random()
            if x < 0.35 and me["nparams"]:
                return ["par", r.randrange(me["nparams"])]
            if x < 0.5 and nloc:
                return ["loc", r.randrange(nloc)]
            if 0.5 <= x < 0.5 + self.p_none:
                return ["const", None]
            return ["const", self.val()]
        x = r.random()
        if x < self.p_call and callees:
            c = w["cells"][r.choice(callees)]
            nreq = c["nparams"] - len(c["defaults"])
            n = r.randint(nreq, c["nparams"])
            args = []
            for j in range(n):
                if j == 0 and me["nparams"] and c["cid"] <= me["cid"]:
                    # back call: strictly decreasing first argument (the caller guards it with p0 > 0)
                    args.append(["bin", "sub", ["par", 0], ["const", 1]])
                elif j == 0 and me["nparams"]:
                    # forward call from a parametrised cells: first argument never grows, so that
                    # (p0, -cid) decreases lexicographically along every call chain
                    args.append(r.choice([["par", 0], ["par", 0], ["bin", "sub", ["par", 0], ["const", 1]]]))
                else:
                    args.append(self.expr(w, me, depth - 2, nloc, []))
            return ["call", c["cid"], args]
        if x < self.p_call + self.p_ref and w["refs"]:
            rr = r.choice(w["refs"])
            visible = rr["space"] is None or rr["space"] == me["space"]
            if visible and r.random() < 0.5:
                return ["refn", rr["rid"]]
            return ["refa", rr["rid"]]
        if x < self.p_call + self.p_ref + self.p_raise:
            return ["raise", r.choice(["value", "key", "zero", "zero", "type", "base"])]
        if x < 0.9:
            return ["bin", r.choice(["add", "add", "sub", "mul", "fdiv"]),
                    self.expr(w, me, depth - 1, nloc, callees), self.expr(w, me, depth - 1, nloc, callees)]
        return ["ifpos", self.expr(w, me, depth - 1, nloc, []),
                self.expr(w, me, depth - 1, nloc, callees), self.expr(w, me, depth - 1, nloc, callees)]

    def body(self, w, me):
        """terminating by construction: calls go to cells with a larger cid, or (recursion) to any cells with a
        smaller-or-equal cid with first argument p0-1, the whole body guarded by p0 > 0"""
        r = self.rng
        later = [c["cid"] for c in w["cells"] if c["cid"] > me["cid"]]
        rec = [c["cid"] for c in w["cells"] if c["cid"] <= me["cid"] and c["nparams"] >= 1] \
            if (me["nparams"] and r.random() < getattr(self, "rec_now", self.recursion)) else []
        n = r.randint(1, 3)
        body = []
        for i in range(n):
            callees = later + rec
            e = self.expr(w, me, r.randint(1, 3), i, callees)
            if rec and _has_back_call(e, me["cid"]):
                e = ["ifpos", ["par", 0], e, ["const", self.val()]]
            if self.fin and r.random() < 0.3:
                f = self.expr(w, me, r.randint(1, 2), i, later)
                for _ in range(6):               # the clean-up should evaluate a cells
                    if not later or '"call"' in json.dumps(f):
                        break
                    f = self.expr(w, me, 2, i, later)
                body.append(["fin", e, f])
            elif r.random() < self.p_try:
                if not self.try_calls:
                    e = self.expr(w, me, r.randint(1, 3), i, [])
                body.append(["try", e, self.expr(w, me, 1, i, later)])
            else:
                body.append(["assign", e])
        return body

    def celldef(self, w, me):
        me["body"] = self.body(w, me)
        return me

    def world(self):
        r = self.rng
        self.fin = self.p_fin_world > 0 and r.random() < self.p_fin_world
        # a clean-up runs also while the depth-limit error passes, and what it evaluates under a failing frame is never
        # cached: with recursion the work grows like fanout ** maxdepth.  Worlds with try/finally either have no
        # recursion or a small depth limit
        self.rec_now = self.recursion
        small_depth = False
        if self.fin:
            if r.random() < 0.5:
                self.rec_now = 0.0
            else:
                small_depth = True
        nsp = r.randint(*self.nspaces)
        nc = r.randint(*self.ncells)
        w = {"nspaces": nsp, "cells": [], "refs": [], "maxdepth": r.randint(*self.maxdepth)}
        if small_depth:
            w["maxdepth"] = r.randint(3, 6)
        if self.p_shared_exc and not self.fin and r.random() < self.p_shared_exc:
            # not together with try/finally: raising the exception object that is pending in an enclosing finally
            # rewrites ITS traceback (CPython), the line numbers of the pending failure are then CPython's business
            w["shared_exc"] = True
        for i in range(r.randint(*self.nrefs)):
            w["refs"].append({"rid": i, "space": r.choice([None] + list(range(nsp))), "val": self.val()})
        for c in range(nc):
            np_ = r.choice([0, 1, 1, 1, 2, 2, 3])
            nd = r.randint(0, np_) if r.random() < 0.5 else 0
            der = r.random() < self.p_derived
            w["cells"].append({"cid": c, "space": r.randrange(nsp), "nparams": np_,
                               "defaults": [self.val() for _ in range(nd)],
                               "cached": r.random() >= self.p_uncached,
                               "allow_none": (not der) and r.random() < self.p_allow_none, "body": None,
                               "derived": der})
        for c in w["cells"]:
            self.celldef(w, c)
        for c in w["cells"]:
            if c["derived"]:            # the definition the far base holds from the start
                far = dict(c)
                self.celldef(w, far)
                c["far_body"] = far["body"]
        return w

    def key(self, c):
        k = [self.rng.randint(0, 4) for _ in range(c["nparams"])]
        # arguments equal to their defaults (so that the spellings "defaults" / "kwskip" can omit them)
        d = c["defaults"]; first = c["nparams"] - len(d)
        for j, dv in enumerate(d):
            if isinstance(dv, int) and not isinstance(dv, bool) and self.rng.random() < 0.35:
                k[first + j] = dv
        return k


def _has_back_call(e, cid):
    if not isinstance(e, list):
        return False
    if e and e[0] == "call" and e[1] <= cid:
        return True
    return any(_has_back_call(x, cid) for x in e[1:] if isinstance(x, list)) or \
        any(_has_back_call(y, cid) for x in e[1:] if isinstance(x, list) for y in x if isinstance(y, list))


SPELLINGS = ["call", "call", "kw", "getitem", "defaults", "mixed", "value", "kwskip"]


def gen_ops(g, w, n, weights):
    """weights: dict op-kind -> relative weight"""
    r = g.rng
    kinds = [k for k, v in weights.items() for _ in range(v)]
    ops = []
    cached_state = {c["cid"]: c["cached"] for c in w["cells"]}
    cur = {c["cid"]: c for c in w["cells"]}
    fell_back = set()
    recalc_now = [False]
    toggles = "setallow" in weights and r.random() < 0.3     # a quarter of the histories may switch allow_none ((P)-only)
    def emit_setf(c):
            w2 = {"nspaces": w["nspaces"], "cells": [cur[i] for i in range(len(cur))], "refs": w["refs"]}
            nc = dict(c)
            g.celldef(w2, nc)
            cur[c["cid"]] = nc
            how = r.choice(["direct", "fallback"])
            if nc.get("derived") and how == "fallback" and c["cid"] not in fell_back:
                nc["body"] = c["far_body"]          # falling back means: the far base's definition takes over
                cur[c["cid"]] = nc
                # deleting the near definition re-inherits EVERY derived cells of the space (each is cleared):
                # redefine the others with their unchanged formulas first, so that this over-clearing is
                # visible to the model as ordinary formula assignments
                for d in cur.values():
                    if d.get("derived") and d["space"] == nc["space"] and d["cid"] != nc["cid"]:
                        ops.append(["setf", d["cid"], dict(d), "direct"])
                fell_back.add(c["cid"])
            ops.append(["setf", c["cid"], nc, how])

    for _ in range(n):
        k = r.choice(kinds)
        c = cur[r.randrange(len(w["cells"]))]
        if k == "eval":
            ops.append(["eval", c["cid"], g.key(c), r.choice(SPELLINGS)])
        elif k == "setv":
            cands = [x for x in cur.values() if cached_state[x["cid"]]]
            if r.random() < 0.1:
                cands = list(cur.values())         # also uncached cells: the assignment is refused, nothing changes
            if not cands:
                continue
            c = r.choice(cands)
            v = None if (c["allow_none"] and r.random() < 0.15) else g.val()
            ops.append(["setv", c["cid"], g.key(c), v])
            if c["nparams"] == 0 and r.random() < 0.5:
                ops[-1].append("attr")             # spelled space.<cells name> = v
        elif k == "clearat":
            ops.append(["clearat", c["cid"], g.key(c)])
        elif k == "clear":
            ops.append(["clear", c["cid"]])
        elif k == "clearall":
            ops.append(["clearall", c["cid"]])
        elif k == "setf":
            emit_setf(c)
        elif k == "setcached":
            b = not cached_state[c["cid"]]
            cached_state[c["cid"]] = b
            nc = dict(c); nc["cached"] = b; cur[c["cid"]] = nc
            ops.append(["setcached", c["cid"], b])
        elif k == "setallow":
            # (P)-only operation (seeded/C09_r5): the allow_none property of ONE cells is switched; values that are
            # None - and what was computed from them, also through uncached cells - must not survive a switch to False
            cands = [x for x in cur.values() if not x.get("derived")]
            if not cands or not toggles:
                continue
            c = r.choice(cands)
            nc = dict(c); nc["allow_none"] = not c["allow_none"]; cur[c["cid"]] = nc
            ops.append(["setallow", c["cid"], nc["allow_none"]])
        elif k == "tracecycle":
            # seeded/C05_r5: a stack-trace session in between must not change the configured recursion limit
            ops.append(["tracecycle", recalc_now[0]])
        elif k == "setref" and w["refs"]:
            rr = r.choice(w["refs"])
            ops.append(["setref", rr["rid"], g.val()])
        elif k == "scn_unc":
            # directed scenario (seeded/C09_r3): a cached element computed through an UNCACHED cells; the uncached
            # cells is redefined, the element recomputed, the uncached cells redefined AGAIN: the second edit must
            # reach the recomputed element (the dependency through the uncached cells is recorded at every computation)
            cands = [x for x in cur.values() if not x.get("derived")]
            if len(cands) < 2:
                continue
            u = max(cands, key=lambda x: x["cid"])
            ds = [x for x in cands if x["cid"] < u["cid"] and cached_state[x["cid"]]]
            if not ds:
                continue
            d = r.choice(ds)
            if cached_state[u["cid"]]:
                cached_state[u["cid"]] = False
                nu = dict(u); nu["cached"] = False; cur[u["cid"]] = nu; u = nu
                ops.append(["setcached", u["cid"], False])
            ku, kd = g.key(u), g.key(d)
            nd = dict(d)
            nd["body"] = [["assign", ["bin", "add", ["call", u["cid"], [["const", v] for v in ku]], ["const", r.randint(1, 9)]]]]
            cur[d["cid"]] = nd
            ops.append(["setf", d["cid"], nd, "direct"])
            ops.append(["eval", d["cid"], kd, r.choice(SPELLINGS)])
            for _ in range(r.randint(2, 3)):
                nu = dict(cur[u["cid"]])
                nu["body"] = [["assign", ["const", r.randint(10, 99)]]]
                cur[u["cid"]] = nu
                ops.append(["setf", u["cid"], nu, "direct"])
                ops.append(["eval", d["cid"], kd, r.choice(SPELLINGS)])
        elif k == "scn_unc2":
            # directed scenario (seeded/C09_r4): total (cached) -> pv (cached) -> disc (UNCACHED) -> rate (cached, HELD);
            # total is read first (pv not held yet), so the held rate is read by the uncached disc with TWO cached
            # frames below it: the dependency belongs to the NEAREST cached caller (pv).  Then rate is overwritten /
            # redefined and pv, total are read again
            cands = sorted([x for x in cur.values() if not x.get("derived")], key=lambda x: x["cid"])
            if len(cands) < 4:
                continue
            a, b, u, l = r.sample(cands, 4) if r.random() < 0.3 else cands[:2] + cands[-2:]
            a, b, u, l = sorted([a, b, u, l], key=lambda x: x["cid"])
            # half of the time pv is uncached too (seeded/C06_r5): TWO uncached levels between total and the held rate
            for x, flag in ((a, True), (b, r.random() < 0.5), (u, False), (l, True)):
                if cached_state[x["cid"]] != flag:
                    cached_state[x["cid"]] = flag
                    nx_ = dict(cur[x["cid"]]); nx_["cached"] = flag; cur[x["cid"]] = nx_
                    ops.append(["setcached", x["cid"], flag])
            a, b, u, l = (cur[x["cid"]] for x in (a, b, u, l))
            ka, kb, ku, kl = g.key(a), g.key(b), g.key(u), g.key(l)

            def redefine(x, body):
                nx_ = dict(cur[x["cid"]]); nx_["body"] = body; cur[x["cid"]] = nx_
                ops.append(["setf", x["cid"], nx_, "direct"])
            call = lambda x, kx: ["call", x["cid"], [["const", v] for v in kx]]
            redefine(l, [["assign", ["const", r.randint(10, 40)]]])
            redefine(u, [["assign", ["bin", "add", call(l, kl), ["const", r.randint(1, 9)]]]])
            redefine(b, [["assign", ["bin", "add", call(u, ku), ["const", r.randint(1, 9)]]]])
            redefine(a, [["assign", ["bin", "add", call(b, kb), ["const", r.randint(1, 9)]]]])
            ops.append(["eval", l["cid"], kl, r.choice(SPELLINGS)])
            ops.append(["eval", a["cid"], ka, r.choice(SPELLINGS)])
            for _ in range(r.randint(1, 2)):
                if r.random() < 0.5:
                    ops.append(["setv", l["cid"], kl, r.randint(50, 90)])
                else:
                    redefine(l, [["assign", ["const", r.randint(50, 90)]]])
                    ops.append(["eval", l["cid"], kl, "call"])
                for x, kx in r.sample([(b, kb), (a, ka), (u, ku)], 3):
                    ops.append(["eval", x["cid"], kx, r.choice(SPELLINGS)])
        elif k == "scn_allow":
            # directed scenario (seeded/C09_r5), (P)-only: an UNCACHED cells u returning None (allowed), a cached cells d
            # computed through u; then u.allow_none = False: d must not keep its value (u now refuses to return None)
            cands = sorted([x for x in cur.values() if not x.get("derived")], key=lambda x: x["cid"])
            if len(cands) < 2 or not toggles:
                continue
            d, u = cands[0], cands[-1]
            if r.random() < 0.5 and len(cands) >= 3:
                d = r.choice(cands[:-1])
            for x, flag in ((d, True), (u, r.random() < 0.3)):
                if cached_state[x["cid"]] != flag:
                    cached_state[x["cid"]] = flag
                    nx_ = dict(cur[x["cid"]]); nx_["cached"] = flag; cur[x["cid"]] = nx_
                    ops.append(["setcached", x["cid"], flag])
            if not cur[u["cid"]]["allow_none"]:
                nu = dict(cur[u["cid"]]); nu["allow_none"] = True; cur[u["cid"]] = nu
                ops.append(["setallow", u["cid"], True])
            d, u = cur[d["cid"]], cur[u["cid"]]
            kd, ku = g.key(d), g.key(u)
            nu = dict(u); nu["body"] = [["assign", ["const", None]]]; cur[u["cid"]] = nu
            ops.append(["setf", u["cid"], nu, "direct"])
            nd = dict(d); nd["body"] = [["assign", ["call", u["cid"], [["const", v] for v in ku]]], ["assign", ["const", r.randint(1, 9)]]]
            cur[d["cid"]] = nd
            ops.append(["setf", d["cid"], nd, "direct"])
            ops.append(["eval", d["cid"], kd, r.choice(SPELLINGS)])
            nu = dict(cur[u["cid"]]); nu["allow_none"] = False; cur[u["cid"]] = nu
            ops.append(["setallow", u["cid"], False])
            ops.append(["eval", d["cid"], kd, r.choice(SPELLINGS)])
            ops.append(["eval", u["cid"], ku, "call"])
        elif k == "scn_recalc":
            # directed scenario (seeded/C06_r2): with the recalculation option on, an assignment whose immediate
            # recomputation of a dependent FAILS; the assigned value must still be an input afterwards (survive
            # clear() and reference changes, be returned as assigned)
            cands = [x for x in cur.values() if cached_state[x["cid"]]]
            if len(cands) < 2:
                continue
            c = max(cands, key=lambda x: x["cid"])
            ds = [x for x in cands if x["cid"] < c["cid"] and not x.get("derived")]
            if not ds:
                continue
            d = r.choice(ds)
            kc, kd = g.key(c), g.key(d)
            nd = dict(d)
            nd["body"] = [["assign", ["bin", "fdiv", ["const", 12], ["call", c["cid"], [["const", v] for v in kc]]]]]
            cur[d["cid"]] = nd
            ops.append(["setf", d["cid"], nd, "direct"])
            # only d(kd) may depend on c(kc) when it is overwritten: the order in which modelx recomputes several
            # dependents is that of a set, and a failure stops the loop (which ones were recomputed is not determined)
            for x in cur.values():
                ops.append(["clear", x["cid"]])
            ops.append(["recalc", True]); recalc_now[0] = True
            ops.append(["setv", c["cid"], kc, r.choice([1, 2, 3])])
            ops.append(["eval", d["cid"], kd, r.choice(SPELLINGS)])
            ops.append(["setv", c["cid"], kc, 0, "single"])       # the (only) dependent 12 // 0 fails while being recomputed
            ops.append(["clear", c["cid"]])
            if w["refs"]:
                rr = r.choice(w["refs"])
                ops.append(["setref", rr["rid"], g.val()])
            ops.append(["eval", c["cid"], kc, r.choice(SPELLINGS)])
            ops.append(["recalc", False]); recalc_now[0] = False
            ops.append(["eval", d["cid"], kd, r.choice(SPELLINGS)])
        elif k == "scn_ref" and w["refs"]:
            # directed scenario (found missing by finding D40): evaluate an element, change a reference (its
            # dependents lose their values), assign a value to the same element, change another reference,
            # evaluate again — the assigned value must survive every reference change
            cands = [x for x in cur.values() if cached_state[x["cid"]]]
            if not cands:
                continue
            c = r.choice(cands)
            key = g.key(c)
            if r.random() < 0.4:
                # ... starting from an element that was an input before its cells was redefined (a stale input
                # mark must not protect the value computed afterwards: seeded/C02_r2)
                ops.append(["setv", c["cid"], key, g.val()])
                vis = [x for x in w["refs"] if x["space"] is None or x["space"] == c["space"]]
                first = None
                if vis and not c.get("derived") and r.random() < 0.7:
                    # the new formula reads a visible reference by name, and that reference changes below
                    first = r.choice(vis)
                    nc = dict(c)
                    nc["body"] = [["assign", ["bin", "add", ["refn", first["rid"]],
                                              (["par", 0] if c["nparams"] else ["const", g.val()])]]]
                    cur[c["cid"]] = nc
                    ops.append(["setf", c["cid"], nc, "direct"])
                else:
                    emit_setf(c)
                c = cur[c["cid"]]
                if len(key) != c["nparams"]:
                    key = g.key(c)
            else:
                first = None
            ops.append(["eval", c["cid"], key, r.choice(SPELLINGS)])
            chosen = r.sample(w["refs"], min(len(w["refs"]), r.randint(1, 3)))
            if first is not None and first not in chosen:
                chosen.insert(0, first)
            for rr in chosen:
                ops.append(["setref", rr["rid"], g.val()])
                if r.random() < 0.6:
                    ops.append(["setv", c["cid"], key, g.val()])
            ops.append(["eval", c["cid"], key, r.choice(SPELLINGS)])
        elif k == "recalc":
            ops.append(["recalc", r.random() < 0.5]); recalc_now[0] = ops[-1][1]
    return ops
