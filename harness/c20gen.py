"""C20 generator: structured function / lambda texts over the grammar of the
property (parameters with defaults and annotations, docstrings, comments in
leading / trailing / last-line position, nested defs / lambdas / classes,
nested DECORATED defs (inner functions decorated by decorators defined earlier in the
same body or by a builtin, @property / @staticmethod / @classmethod methods of a nested
class; see DefGen.nested_decorated), comprehensions, multi-line expressions, decorators, one-line and block bodies,
arbitrary indentation, lambdas embedded in assignments and calls), their
rendering, the token positions they have by construction, and a Python mirror of
the stored text under rename / doc edits.

A structured def text mirrors Capture/Texts.v [ftext]:
  {ind, lead, deco, mid, defws, name, sig, rest, eofnl}, lines = [iscode, text]."""

INDENTS = ["", "", "    ", "  ", "\t", "        ", "\t\t", " "]
UNITS = ["    ", "    ", "  ", "\t", " ", "        "]
NAMES = ["foo", "bar", "f", "Calc_1", "defx", "lambda_", "_p", "fooo", "def_", "x"]
NEWNAMES = ["renamed", "g", "foo2", "a_very_long_name_for_a_cells", "k", "defy", "Foo"]
COMMENTS = ["# plain", "# def g(x): return 1", '# """', "# 'quote", "#", "#   spaced   ", "# @deco",
            "# lambda x: x", '# "', "# back\\slash", "# f(x):", "#!shebang-like", "# a # b", "# )]}",
            "# caf\u00e9 \u65e5\u672c", "# \u00fc"]
STRS = ["'a\x0cb'", "'v\x0bt'", '"fs\x1cgs\x1d"', "'nel\x85'", '"ls\u2028ps\u2029"', '"\u00e9t\u00e9"', "'\u65e5'", '"def q(): #"', "'#not a comment'", '"lambda x: x"', "'a\"b'", '"@x"', "'()'", '"a:b"',
        '"\\\\"', "'''t'q'''", '"\\n"', 'r"\\d"', '""', "'def'"]
SAFE_DOCS = ["Short.", "Two\nlines", "with 'single' quote", 'has "inner" quotes.', "trailing space ",
             "Multi\n\n    indented\nlast\n", "", "# hash", "def f(): pass", "x" * 70, "a\n", "\nstarts with a line feed",
             "lambda x: x", "ends with colon:", "semi;colon", "  leading spaces", "it's", "100%", "tab\there"]
UNSAFE_DOCS = ['ends with quote"', 'has """ inside', "back\\slash", "a\n   \nb", "cr\rhere", "bs at end\\"]


def safe_doc(d):
    if any(ch == "\\" or ord(ch) in (0, 11, 12, 13, 28, 29, 30) or ord(ch) >= 128 for ch in d):
        return False
    if '"""' in (d + '"""')[:len(d) + 2]:
        return False
    for l in d.split("\n")[1:]:
        if l and not l.strip(" \t"):
            return False
    return True


class Line:
    __slots__ = ("kind", "a", "b")

    def __init__(self, kind, a, b=None):
        self.kind, self.a, self.b = kind, a, b   # ("code", level, text) ("raw", ws, text) ("blank", ws)


class DefGen:
    def __init__(self, rng, mode):
        self.r = rng
        self.mode = mode       # "source" | "func" | "deco"
        self.feat = set()
        self.allow_mlstr = False

    # ---- expressions (all evaluate to ints; str-kinded variables only through len()) ----
    def atom(self, env):
        r = self.r
        ints = [n for n, k in env if k == "int"]
        strs = [n for n, k in env if k == "str"]
        c = r.random()
        if c < 0.45 and ints:
            return r.choice(ints)
        if c < 0.55 and strs:
            return "len(%s)" % r.choice(strs)
        if c < 0.70:
            self.feat.add("global_ref")
            return r.choice(["g1", "g2"])
        if c < 0.78:
            self.feat.add("cells_ref")
            return "other(%s)" % (r.choice(ints) if ints else str(r.randint(0, 5)))
        if c < 0.84:
            self.feat.add("tricky_string")
            return "len(%s)" % r.choice(STRS)
        return str(r.randint(0, 9))

    def expr(self, env, d=2):
        r = self.r
        if d <= 0 or r.random() < 0.25:
            return self.atom(env)
        c = r.random()
        a, b = self.expr(env, d - 1), self.expr(env, d - 1)
        if c < 0.30:
            return "%s %s %s" % (a, r.choice(["+", "-", "*"]), b)
        if c < 0.38:
            return "(%s) %s %d" % (a, r.choice(["%", "//"]), r.randint(2, 7))
        if c < 0.46:
            return "(%s if %s > %s else %s)" % (a, b, self.atom(env), self.atom(env))
        if c < 0.54:
            return "%s(%s, %s)" % (r.choice(["max", "min"]), a, b)
        if c < 0.64:
            self.feat.add("comprehension")
            v = r.choice(["i", "j", "k_"])
            return self._comp(a, v)
        if c < 0.72:
            self.feat.add("inline_lambda")
            return "(lambda q, z=%d: q + z + %s)(%s)" % (r.randint(0, 3), self.atom(env), a)
        if c < 0.78:
            return "[%s, %s][%d]" % (a, b, r.randint(0, 1))
        if c < 0.84:
            return '{"a": %s, "b": %s}["%s"]' % (a, b, r.choice("ab"))
        if c < 0.90:
            return "abs(%s)" % a
        return "(%s)" % a

    def _comp(self, a, v):
        r = self.r
        n = r.randint(1, 4)
        return r.choice([
            "sum([%s + %s for %s in range(%d)])" % (a, v, v, n),
            "sum(%s * %s for %s in range(%d) if %s %% 2)" % (a, v, v, n + 1, v),
            "len({%s: %s for %s in range(%d)})" % (v, a, v, n),
            "max({%s - %s for %s in range(1, %d)})" % (a, v, v, n + 1),
            "sum(%s for %s in range(%d) for %s2 in range(2))" % (v, v, n, v),
        ])

    def comment(self):
        return self.r.choice(COMMENTS)

    def maybe_tc(self, p=0.15):
        """trailing comment"""
        if self.r.random() < p:
            self.feat.add("trailing_comment")
            return self.r.choice(["  ", " ", "\t", ""]) + self.comment()
        return ""

    # ---- nested *decorated* definitions ----
    # Every group is self-contained (the decorator is a builtin or defined earlier in the same
    # body) and built so that LOSING a nested decorator is visible in the value:
    #   @property method   -> read as an attribute and added to an int (bound method + int: TypeError)
    #   @staticmethod      -> called on an INSTANCE (one positional argument too many: TypeError)
    #   @classmethod       -> called on the CLASS (one positional argument missing: TypeError)
    #   @property function -> called through .fget (AttributeError)
    #   body-defined decorators wrap the result in a strictly increasing map (+7, +n+1, 2*abs+1)
    def _deco_lines(self, level, exprs):
        """decorator lines for the decorator expressions [exprs] (layout variety)"""
        r = self.r
        out = []
        for i, e in enumerate(exprs):
            c = r.random()
            if c < 0.12 and e.endswith(")"):
                # call spread over several lines
                out.append(Line("code", level, "@" + e[:e.index("(") + 1] + self.maybe_tc(0.3)))
                out.append(Line("raw", r.choice(["", "   ", "\t", "                "]), e[e.index("(") + 1:-1] + ","))
                out.append(Line("code", level, ")"))
                self.feat.add("nested_multiline_decorator")
            elif c < 0.2:
                out.append(Line("code", level, "@ " + e))
            else:
                out.append(Line("code", level, "@" + e + self.maybe_tc(0.2)))
            if i < len(exprs) - 1 and r.random() < 0.2:
                out.append(Line("code", level, self.comment()) if r.random() < 0.6 else Line("blank", r.choice(["", "  "])))
        if r.random() < 0.12:
            out.append(Line("code", level, self.comment()) if r.random() < 0.6 else Line("blank", r.choice(["", "    "])))
        return out

    def nested_decorated(self, env, level, fresh):
        """Lines of a statement group that defines a nested decorated def / method and assigns
        an int computed through it to [fresh]."""
        r = self.r
        out = []
        c = r.random()
        if c < 0.5:
            self.feat.add("nested_decorated_def")
            avail = []
            for kind in r.sample(["wrap", "lam", "factory"], r.choice([1, 1, 2])):
                if kind == "wrap":
                    out.append(Line("code", level, "def dec_(f):%s" % self.maybe_tc()))
                    out.append(Line("code", level + 1, "def wrap_(*a, **k):"))
                    out.append(Line("code", level + 2, "return f(*a, **k) + 7"))
                    out.append(Line("code", level + 1, "return wrap_"))
                    avail.append("dec_")
                elif kind == "lam":
                    out.append(Line("code", level, "dl_ = lambda f: (lambda *a: 2 * abs(f(*a)) + 1)%s" % self.maybe_tc()))
                    avail.append("dl_")
                else:
                    out.append(Line("code", level, "def mk_(n):"))
                    out.append(Line("code", level + 1, "return lambda f: (lambda *a: f(*a) + n + 1)"))
                    avail.append("mk_(%d)" % r.randint(0, 5))
                if r.random() < 0.15:
                    out.append(Line("blank", r.choice(["", "    "])))
            exprs = [r.choice(avail) for _ in range(r.choice([1, 1, 1, 2, 3]))]
            if len(exprs) > 1:
                self.feat.add("nested_stacked_decorators")
            inner = r.choice(["inner", "helper", "def_inner", "foo"])
            # the decorated def sits directly in the body or one block deeper
            deeper = r.random() < 0.2
            lv = level
            if deeper:
                out.append(Line("code", level, "if g2 > 0:"))    # g2 >= 1 by construction
                self.feat.add("global_ref")
                lv = level + 1
            out += self._deco_lines(lv, exprs)
            out.append(Line("code", lv, "def %s(p, q=%d):%s" % (inner, r.randint(0, 4), self.maybe_tc())))
            if r.random() < 0.3:
                out.append(Line("code", lv + 1, r.choice(['"""inner doc"""', "'inner'", '"""@not_a_decorator"""'])))
            out.append(Line("code", lv + 1, "return p * q + %s" % self.expr(env, 1)))
            if r.random() < 0.2:
                out.append(Line("code", lv + 1, self.comment()))
            out.append(Line("code", lv, "%s = %s(%s)" % (fresh, inner, self.expr(env, 1))))
            if deeper:
                out.append(Line("code", level, "else:"))
                out.append(Line("code", level + 1, "%s = 0" % fresh))
        elif c < 0.62:
            # builtin decorator on an inner function (may be the first statement of the body)
            self.feat.add("nested_property_function")
            inner = r.choice(["inner", "helper", "pf_"])
            out += self._deco_lines(level, ["property"])
            out.append(Line("code", level, "def %s(p):%s" % (inner, self.maybe_tc())))
            out.append(Line("code", level + 1, "return p + %s" % self.expr(env, 1)))
            out.append(Line("code", level, "%s = %s.fget(%s)" % (fresh, inner, self.expr(env, 1))))
        else:
            self.feat.add("nested_class_decorators")
            out.append(Line("code", level, "class K_:%s" % self.maybe_tc()))
            if r.random() < 0.3:
                out.append(Line("code", level + 1, '"""class doc"""'))
            out.append(Line("code", level + 1, "z_ = %d" % r.randint(0, 5)))
            meths = r.sample(["prop", "static", "cls", "plain"], r.choice([1, 2, 2, 3, 4]))
            if meths == ["plain"]:
                meths = ["plain", r.choice(["prop", "static", "cls"])]
            uses = []
            for mth in meths:
                if r.random() < 0.25:
                    out.append(Line("blank", r.choice(["", "    "])))
                if mth == "prop":
                    out += self._deco_lines(level + 1, ["property"])
                    out.append(Line("code", level + 1, "def pv(self):%s" % self.maybe_tc()))
                    out.append(Line("code", level + 2, "return self.z_ + %s" % self.atom(env)))
                    uses.append("K_().pv")
                elif mth == "static":
                    out += self._deco_lines(level + 1, ["staticmethod"])
                    out.append(Line("code", level + 1, "def sm(p, q=%d):" % r.randint(0, 3)))
                    out.append(Line("code", level + 2, "return p * 2 - q + %s" % self.atom(env)))
                    uses.append("K_().sm(%s)" % self.expr(env, 1))
                elif mth == "cls":
                    out += self._deco_lines(level + 1, ["classmethod"])
                    out.append(Line("code", level + 1, "def cm(cls, p):"))
                    out.append(Line("code", level + 2, "return cls.z_ * p + %s" % self.atom(env)))
                    uses.append("K_.cm(%s)" % self.expr(env, 1))
                else:
                    out.append(Line("code", level + 1, "def m(self, p):"))
                    out.append(Line("code", level + 2, "return p + self.z_ + %s" % self.atom(env)))
                    uses.append("K_().m(%s)" % self.expr(env, 1))
            out.append(Line("code", level, "%s = %s" % (fresh, " + ".join(uses))))
        if (fresh, "int") not in env:
            env.append((fresh, "int"))
        return out

    # ---- statements ----
    def block(self, env, level, budget):
        """list of Line; env is extended in place with new int locals"""
        r = self.r
        out = []
        nst = r.randint(0, budget)
        for _ in range(nst):
            c = r.random()
            fresh = r.choice(["v", "w", "acc", "r2", "tmp", "val_3"])
            if c < 0.08:
                out.append(Line("blank", r.choice(["", "", "   ", "\t", "        "])))
                self.feat.add("blank_line")
                continue
            if c < 0.18:
                self.feat.add("comment_line")
                if r.random() < 0.6:
                    out.append(Line("code", level, self.comment()))
                else:
                    out.append(Line("raw", r.choice(["", " ", "   ", "\t   ", "            "]), self.comment()))
                continue
            if c < 0.40:
                out.append(Line("code", level, "%s = %s%s" % (fresh, self.expr(env), self.maybe_tc())))
            elif c < 0.50:
                self.feat.add("multiline_expr")
                a, b, c2 = self.expr(env, 1), self.expr(env, 1), self.expr(env, 1)
                form = r.randint(0, 3)
                cont = r.choice(["", "  ", "      ", "\t", "                "])
                if form == 0:
                    out.append(Line("code", level, "%s = (%s +%s" % (fresh, a, self.maybe_tc(0.3))))
                    out.append(Line("raw", cont, "%s)%s" % (b, self.maybe_tc())))
                elif form == 1:
                    out.append(Line("code", level, "%s = max(" % fresh))
                    out.append(Line("raw", cont, "%s,%s" % (a, self.maybe_tc(0.3))))
                    if r.random() < 0.3:
                        out.append(Line("blank", r.choice(["", "  "])))
                    out.append(Line("raw", cont, "%s," % b))
                    out.append(Line("code", level, ")"))
                elif form == 2:
                    out.append(Line("code", level, "%s = [%s,%s" % (fresh, a, self.maybe_tc(0.3))))
                    out.append(Line("raw", cont, self.comment()))
                    out.append(Line("raw", cont, "%s][1]" % b))
                else:
                    out.append(Line("code", level, "%s = %s + \\" % (fresh, a)))
                    out.append(Line("raw", cont if cont else " ", b))
                    self.feat.add("backslash_continuation")
            elif c < 0.58:
                self.feat.add("if_else")
                out.append(Line("code", level, "if %s > %s:%s" % (self.expr(env, 1), self.atom(env), self.maybe_tc())))
                out.append(Line("code", level + 1, "%s = %s" % (fresh, self.expr(env, 1))))
                if r.random() < 0.3:
                    out.append(Line("code", level + 1, self.comment()))
                out.append(Line("code", level, "else:"))
                out.append(Line("code", level + 1, "%s = %s" % (fresh, self.expr(env, 1))))
            elif c < 0.65:
                self.feat.add("for_loop")
                out.append(Line("code", level, "%s = %s" % (fresh, self.atom(env))))
                out.append(Line("code", level, "for i_ in range(%d):" % r.randint(0, 3)))
                out.append(Line("code", level + 1, "%s += i_ * %s" % (fresh, self.atom(env))))
            elif c < 0.74 and r.random() < 0.5:
                out += self.nested_decorated(env, level, fresh)
            elif c < 0.74:
                self.feat.add("nested_def")
                inner = r.choice(["inner", "helper", "def_inner", "foo"])
                annotated = r.random() < 0.35
                if annotated:       # annotations that the body evaluates: they must be the objects the text names
                    self.feat.add("nested_def_annotations_used")
                    out.append(Line("code", level, "def %s(p, q: int = %d) -> int:%s" % (inner, r.randint(0, 4), self.maybe_tc())))
                else:
                    out.append(Line("code", level, "def %s(p, q=%d):%s" % (inner, r.randint(0, 4), self.maybe_tc())))
                if r.random() < 0.4:
                    out.append(Line("code", level + 1, r.choice(['"""inner doc"""', "'inner'", '"""inner', ])))
                    if out[-1].b == '"""inner':
                        out.append(Line("code", level + 1, 'doc"""'))
                out.append(Line("code", level + 1, "return p * q + %s" % self.expr(env, 1)))
                if r.random() < 0.3:
                    out.append(Line("code", level + 1, self.comment()))
                if annotated:
                    out.append(Line("code", level, "%s = %s.__annotations__['q'](%s(%s)) + (0 if %s.__annotations__['return'] is int else 1000)"
                                    % (fresh, inner, inner, self.expr(env, 1), inner)))
                else:
                    out.append(Line("code", level, "%s = %s(%s)" % (fresh, inner, self.expr(env, 1))))
            elif c < 0.81:
                self.feat.add("nested_lambda")
                out.append(Line("code", level, "h_ = lambda p, q=%d: p - q + %s%s" % (r.randint(0, 4), self.atom(env), self.maybe_tc())))
                out.append(Line("code", level, "%s = h_(%s)" % (fresh, self.expr(env, 1))))
            elif c < 0.88 and r.random() < 0.4:
                out += self.nested_decorated(env, level, fresh)
            elif c < 0.88:
                self.feat.add("nested_class")
                out.append(Line("code", level, "class K_:%s" % self.maybe_tc()))
                if r.random() < 0.4:
                    out.append(Line("code", level + 1, '"""class doc"""'))
                out.append(Line("code", level + 1, "z_ = %d" % r.randint(0, 5)))
                if r.random() < 0.3:
                    out.append(Line("blank", r.choice(["", "    "])))
                out.append(Line("code", level + 1, "def m(self, p):"))
                out.append(Line("code", level + 2, "return p + self.z_ + %s" % self.atom(env)))
                out.append(Line("code", level, "%s = K_().m(%s)" % (fresh, self.expr(env, 1))))
            elif c < 0.93:
                self.feat.add("try_while")
                out.append(Line("code", level, "%s = 0" % fresh))
                out.append(Line("code", level, "while %s < %d:" % (fresh, r.randint(0, 3))))
                out.append(Line("code", level + 1, "%s += 1" % fresh))
                out.append(Line("code", level, "try:"))
                out.append(Line("code", level + 1, "%s = %s // (%s - %s)" % (fresh, self.expr(env, 1), fresh, fresh)))
                out.append(Line("code", level, "except ZeroDivisionError:"))
                out.append(Line("code", level + 1, "%s = %s - 1" % (fresh, fresh)))
            elif self.allow_mlstr:
                self.feat.add("multiline_string")
                q = r.choice(['"""', "'''"])
                out.append(Line("code", level, "s_ = %sab" % q))
                out.append(Line("raw", "", r.choice(["cd", "  e f", "# not a comment", "def z():"])))
                if r.random() < 0.3:
                    out.append(Line("blank", ""))
                out.append(Line("raw", r.choice(["", "  "]), "gh%s" % q))
                out.append(Line("code", level, "%s = len(s_)" % fresh))
            else:
                out.append(Line("code", level, "%s = %s" % (fresh, self.expr(env))))
            if (fresh, "int") not in env:
                env.append((fresh, "int"))
        return out

    # ---- signature ----
    def params(self):
        r = self.r
        n = r.choice([0, 1, 1, 2, 2, 3])
        names = r.sample(["x", "y", "n", "t", "a_1", "defn"], n)
        ndef = r.randint(0, n)
        ps = []
        for i, nm in enumerate(names):
            kind = "int"
            default = None
            if i >= n - ndef:
                if r.random() < 0.3:
                    kind = "str"
                    default = r.choice(STRS)
                else:
                    default = r.choice(["0", "1", "-1", "10", "(2)", "1_0", "0x1f", "3 + 4"])
                self.feat.add("default")
            ann = None
            if r.random() < 0.3:
                ann = r.choice(["int", "'T'", "list[int]", "None", "\"x: y\"", "str"])
                self.feat.add("annotation")
            ps.append({"name": nm, "kind": kind, "default": default, "ann": ann})
        return ps

    def render_param(self, p, spaced):
        s = p["name"]
        if p["ann"] is not None:
            s += (" : " if spaced else ": ") + p["ann"]
        if p["default"] is not None:
            s += (" = " if (spaced or p["ann"] is not None) else "=") + p["default"]
        return s

    def signature(self, ps):
        """returns (text after the name on the def line, continuation Lines)"""
        r = self.r
        style = r.choice(["compact", "compact", "spaced", "multi", "multi2"]) if ps else r.choice(["compact", "spaced"])
        ret = ""
        if r.random() < 0.2:
            ret = r.choice([" -> int", "->int", " -> 'R'"])
            self.feat.add("annotation")
        pre = r.choice(["", "", "", " ", "  "])
        cont = []
        if style == "compact":
            head = pre + "(" + ", ".join(self.render_param(p, False) for p in ps) + (r.choice([",", ""]) if ps else "") + ")" + ret
        elif style == "spaced":
            head = pre + "( " + " , ".join(self.render_param(p, True) for p in ps) + " )" + ret
        else:
            self.feat.add("multiline_signature")
            ws = r.choice(["    ", "        ", "\t", " ", ""]) if style == "multi" else r.choice(["      ", "  "])
            head = pre + "(" + (self.render_param(ps[0], False) + "," if style == "multi2" else "") + self.maybe_tc(0.3)
            rest = ps[1:] if style == "multi2" else ps
            for p in rest:
                cont.append(Line("raw", ws, self.render_param(p, False) + "," + self.maybe_tc(0.3)))
                if r.random() < 0.15:
                    cont.append(Line("raw", ws, self.comment()))
                if r.random() < 0.1:
                    cont.append(Line("blank", r.choice(["", "  "])))
            cont.append(Line("raw", r.choice(["", ws]), ")" + ret + ":"))
            return head, cont, True
        return head + r.choice([":", ":", " :"]), cont, False

    # ---- docstring literal ----
    def docstring(self, level, oneline):
        """returns (list of Lines for a block body | literal text for a one-line body)"""
        r = self.r
        self.feat.add("docstring")
        # docstring statements made of several tokens (D36 doc_multi_token, repaired in /repo)
        multi = ['"one " "two"', "('in' ' parens')", '"a" \'b\' "c"']
        if oneline:
            if r.random() < 0.15:
                self.feat.add("multi_token_docstring")
                return r.choice(multi)
            return r.choice(['"doc"', "'doc'", '"""Doc."""', "'''D'''", 'r"raw\\d"', '"with # hash"'])
        c = r.random()
        if c < 0.5:
            lit = r.choice(['"""Doc text."""', "'''Doc'''", '"doc"', "'doc'", 'r"""raw \\d"""',
                            '"""with \'quotes\' and # hash"""', '""""quoted" start"""', '"""def x(): pass"""', '""""""'])
            if r.random() < 0.15:
                self.feat.add("multi_token_docstring")
                lit = r.choice(multi)
            return [Line("code", level, lit)], 1
        self.feat.add("multiline_docstring")
        q = r.choice(['"""', "'''", 'r"""'])
        lines = [Line("code", level, q + r.choice(["Summary", "", "Summary line.  "]))]
        for _ in range(r.randint(0, 3)):
            k = r.random()
            if k < 0.25:
                lines.append(Line("blank", r.choice(["", "", "    "])))
            elif k < 0.7:
                lines.append(Line("code", level, r.choice(["details", "# looks like a comment", "def g(): pass", "Args:", "'''" if q != "'''" else "x"])))
            else:
                lines.append(Line("raw", r.choice(["", "  ", "          "]), r.choice(["odd indent", "x = 1"])))
        lines.append(Line("code" if r.random() < 0.7 else "raw", level if True else None, q[-3:]))
        if lines[-1].kind == "raw":
            lines[-1].a = r.choice(["", "  ", "            "])
        return lines, len(lines)

    # ---- the whole definition ----
    def generate(self):
        r = self.r
        mode = self.mode
        t = {}
        if mode == "source":
            ind = r.choice(INDENTS)
        else:
            ind = r.choice(["", "", "    ", "  ", "\t"])
        unit = r.choice(UNITS)
        if "\t" in ind and unit[0] != "\t" and r.random() < 0.5:
            unit = "\t"
        self.allow_mlstr = True      # props/C20.py filters the D33 trigger (indented text) and counts it
        name = r.choice(NAMES)
        ps = self.params()
        env = [(p["name"], p["kind"]) for p in ps]
        defws = r.choice([" ", " ", " ", "  ", "\t", "   "])
        oneline = r.random() < 0.2
        lines_to_s = lambda ls: [self._sline(l, unit) for l in ls]
        info = {"oneline": oneline, "unit": unit}
        if oneline:
            self.feat.add("oneline_body")
            head, cont, multi = self.signature(ps) if r.random() < 0.3 else (None, None, None)
            if head is None or multi:
                head = "(" + ", ".join(self.render_param(p, False) for p in ps) + "):"
                cont = []
            stmts = []
            doc = None
            if r.random() < 0.35:
                doc = self.docstring(1, True)
                stmts.append(doc)
            if r.random() < 0.4:
                stmts.append("v_ = %s" % self.expr(env, 1))
                env.append(("v_", "int"))
            stmts.append("return %s" % self.expr(env, 2))
            gap = r.choice([" ", " ", "", "  ", "\t"])
            sep = r.choice(["; ", ";", " ; "])
            body = sep.join(stmts) + (r.choice(["", ";"]) if r.random() < 0.1 else "") + self.maybe_tc()
            sig = head + gap + body
            info["sig_head"] = head + gap
            info["doc_lit"] = doc
            info["tail_after"] = body[len(doc):] if doc else body
            rest = []
        else:
            head, cont, multi = self.signature(ps)
            sig = head if multi else head + self.maybe_tc()
            rest = list(cont)
            # comments / blank lines before the first statement
            for _ in range(r.choice([0, 0, 0, 1, 2])):
                if r.random() < 0.7:
                    rest.append(Line("code", 1, self.comment()) if r.random() < 0.7 else
                                Line("raw", r.choice(["", " ", "          "]), self.comment()))
                    self.feat.add("comment_before_body")
                else:
                    rest.append(Line("blank", r.choice(["", "  "])))
            info["k"] = len(rest)
            info["bind"] = unit
            if r.random() < 0.45:
                dl, n = self.docstring(1, False)
                if n == 1:
                    info["doc_single"] = dl[0].b
                if n == 1 and r.random() < 0.2:
                    dl[0].b += self.maybe_tc(1.0)
                info["doc_nlines"] = n
                rest += dl
                rest += self.block(env, 1, 4)
                if r.random() < 0.3:
                    rest += self.nested_decorated(env, 1, "nd_")
            else:
                info["doc_nlines"] = 0
                # a nested decorated definition before / after the random statements (the group starts
                # with a code line, never with a comment; it only reads names bound before it)
                nd = r.choice(["first", "last", "last"]) if r.random() < 0.3 else None
                blk = self.nested_decorated(env, 1, "nd_") if nd == "first" else []
                blk += self.block(env, 1, 4)
                if nd == "last":
                    blk += self.nested_decorated(env, 1, "nd_")
                # comment / blank lines at the start of the block precede the first statement
                j = 0
                while j < len(blk) and (blk[j].kind == "blank" or blk[j].b.startswith("#")):
                    j += 1
                info["k"] += j
                rest += blk
            if r.random() < 0.15:
                self.feat.add("early_return")
                rest.append(Line("code", 1, "if %s > %s: return %s" % (self.atom(env), self.atom(env), self.expr(env, 1))))
            rest.append(Line("code", 1, "return %s%s" % (self.expr(env, 2), self.maybe_tc())))
        # trailing lines (after the last statement)
        trail = []
        for _ in range(r.choice([0, 0, 0, 1, 2, 3])):
            k = r.random()
            if k < 0.5:
                trail.append(Line("code", 1, self.comment()))
                self.feat.add("last_line_comment")
            elif k < 0.65:
                trail.append(Line("code", 2, self.comment()))
                self.feat.add("last_line_comment")
            elif k < 0.8 and mode == "source":
                trail.append(Line("code", 0, self.comment()))
                self.feat.add("last_line_comment")
            elif mode == "source":
                trail.append(Line("blank", r.choice(["", "", "   ", "\t"])))
        if oneline and mode != "source":
            trail = []      # inspect.getblock stops after a one-line definition
        while mode != "source" and trail and trail[-1].kind == "blank":
            trail.pop()
        rest += trail
        eofnl = True if mode != "source" else r.random() < 0.7
        if not eofnl:
            while rest and rest[-1].kind == "blank":
                rest.pop()
        # decorators
        deco, mid, lead = [], [], []
        if mode == "deco":
            self.feat.add("defcells_decorator")
            variant = r.choice(["plain", "plain", "args_name", "args_space", "call_empty"])
            info["deco_variant"] = variant
            if variant == "plain":
                deco.append(Line("code", 0, "@mx.defcells"))
            elif variant == "call_empty":
                deco.append(Line("code", 0, "@mx.defcells()"))
            elif variant == "args_name":
                info["given_name"] = r.choice(NEWNAMES)
                deco.append(Line("code", 0, "@mx.defcells(name=%r)" % info["given_name"]))
            else:
                info["uncached"] = r.random() < 0.5
                deco.append(Line("code", 0, "@mx.defcells(space=SP, is_cached=%s)" % (not info["uncached"])))
            if r.random() < 0.3:
                deco.append(Line("code", 0, self.comment()))
            if r.random() < 0.3:
                deco.append(Line("code", 0, "@ident"))
            deco.append(Line("code", 0, "@grab" + self.maybe_tc()))
        elif r.random() < (0.45 if mode == "source" else 0.5):
            self.feat.add("decorator")
            nd = r.randint(1, 3)
            for i in range(nd):
                if mode == "source":
                    d = r.choice(["@deco", "@mx.defcells", "@a.b.c", "@deco(1, x=2)", "@ deco", "@deco  # c", "@functools.lru_cache(maxsize=None)",
                                  "@d[0]", "@(yield_ if 0 else deco)"])
                    if r.random() < 0.2:
                        deco.append(Line("code", 0, "@multi(1,"))
                        deco.append(Line("raw", r.choice(["", "   ", "\t"]), "2,  # c"))
                        d = None
                        deco.append(Line("code", 0, ")"))
                        self.feat.add("multiline_decorator")
                    elif r.random() < 0.08:
                        # "@" and the decorator expression on different lines
                        deco.append(Line("code", 0, "@\\"))
                        deco.append(Line("raw", r.choice(["   ", "", "\t"]), "deco"))
                        d = None
                        self.feat.add("multiline_decorator")
                else:
                    d = r.choice(["@ident", "@tag(1)", "@tag('a', k=2)  # c", "@grab"])
                    if r.random() < 0.2:
                        deco.append(Line("code", 0, "@tag(1,"))
                        deco.append(Line("raw", r.choice(["   ", "\t", "        "]), "k=2,"))
                        d = None
                        deco.append(Line("code", 0, ")"))
                        self.feat.add("multiline_decorator")
                if d:
                    deco.append(Line("code", 0, d))
                if i < nd - 1 and r.random() < 0.25:
                    deco.append(Line("code", 0, self.comment()) if r.random() < 0.6 else Line("blank", r.choice(["", "  "])))
                    self.feat.add("comment_between_decorators")
        if deco:
            for _ in range(r.choice([0, 0, 0, 1, 2])):
                mid.append(Line("code", 0, self.comment()) if r.random() < 0.7 else Line("blank", r.choice(["", "   "])))
                self.feat.add("comment_after_decorators")
        if mode == "source":
            for _ in range(r.choice([0, 0, 0, 1, 2])):
                lead.append(Line("code", 0, self.comment()) if r.random() < 0.6 else Line("blank", r.choice(["", "   ", "\t"])))
                self.feat.add("leading_lines")
        t = {"ind": ind, "lead": lines_to_s(lead), "deco": lines_to_s(deco), "mid": lines_to_s(mid),
             "defws": defws, "name": name, "sig": sig, "rest": lines_to_s(rest), "eofnl": eofnl}
        if ind:
            self.feat.add("indented")
        info["params"] = ps
        return t, info

    def _sline(self, l, unit):
        if l.kind == "blank":
            return [False, l.a]
        if l.kind == "code":
            return [True, unit * l.a + l.b]
        return [True, l.a + l.b]

    def sample_args(self, ps):
        r = self.r
        req = [p for p in ps if p["default"] is None]
        opt = [p for p in ps if p["default"] is not None]
        out = []
        for _ in range(3):
            k = r.randint(0, len(opt))
            a = [r.randint(-3, 9) for _ in req]
            for p in opt[:k]:
                a.append(r.randint(0, 6) if p["kind"] == "int" else r.choice(["", "ab", "hello"]))
            if a not in out:
                out.append(a)
        return out


# ---- rendering (mirrors Capture/Texts.v) ----------------------------------------
def rline(ind, l):
    return (ind + l[1]) if l[0] else l[1]


def def_line(t, name=None):
    return "def" + t["defws"] + (name if name is not None else t["name"]) + t["sig"]


def ft_lines(t):
    return t["lead"] + t["deco"] + t["mid"] + [[True, def_line(t)]] + t["rest"]


def render(t):
    return "\n".join(rline(t["ind"], l) for l in ft_lines(t)) + ("\n" if t["eofnl"] else "")


def canon(t, nm):
    b = lambda ls: [[l[0], l[1] if l[0] else ""] for l in ls]
    return {"ind": "", "lead": b(t["lead"]), "deco": [], "mid": b(t["mid"]), "defws": t["defws"],
            "name": nm if nm else t["name"], "sig": t["sig"], "rest": b(t["rest"]), "eofnl": True}


def deco_pos(t):
    return [len(t["lead"]) + 1, len(t["lead"]) + len(t["deco"])] if t["deco"] else None


def name_pos(t):
    return [len(t["lead"]) + len(t["mid"]) + 1, 3 + len(t["defws"]), 3 + len(t["defws"]) + len(t["name"])]


def plain_text(t):
    """the definition alone: no indentation, no decorators"""
    c = canon(t, None)
    c["lead"], c["mid"] = [], []
    return render(c)


class DocView:
    """mirror of Texts.v [dtext] for the stored text of [t] (canonical), kept up to date under edits"""

    def __init__(self, t, info):
        c = t
        pre = [l[1] for l in c["lead"] + c["mid"]]
        self.t = c
        self.oneline = info["oneline"]
        if self.oneline:
            self.front = pre
            self.sig_head = info["sig_head"]
            self.lit = info["doc_lit"]
            rest_text = "".join("\n" + l[1] for l in c["rest"]) + "\n"
            self.tail = info["tail_after"] + rest_text
        else:
            k = info["k"]
            self.front_pre = pre
            self.between = [l[1] for l in c["rest"][:k]]
            self.bindstr = info["bind"]
            n = info["doc_nlines"]
            body = [l[1] for l in c["rest"][k:]]
            if n:
                first = body[0][len(self.bindstr):]
                if n == 1:
                    # literal ends where the closing quote is: find by construction (literal is the generator's own text)
                    lit = info.get("doc_single")
                    self.lit = lit
                    self.tail = first[len(lit):] + "".join("\n" + l for l in body[1:]) + "\n"
                else:
                    last = body[n - 1]
                    q = last.lstrip(" \t")[:3]
                    cut = len(last) - len(last.lstrip(" \t")) + 3
                    self.lit = "\n".join([first] + body[1:n - 1] + [last[:cut]])
                    self.tail = last[cut:] + "".join("\n" + l for l in body[n:]) + "\n"
            else:
                self.lit = None
                self.tail = body[0][len(self.bindstr):] + "".join("\n" + l for l in body[1:]) + "\n"

    def front_lines(self, name):
        if self.oneline:
            return list(self.front)
        return self.front_pre + [def_line(self.t, name)] + self.between

    def bind(self, name):
        if self.oneline:
            return "def" + self.t["defws"] + name + self.sig_head
        return self.bindstr

    def source(self, name):
        return "".join(l + "\n" for l in self.front_lines(name)) + self.bind(name) + (self.lit or "") + self.tail

    def set_doc(self, d, ins=False):
        q = '"""' + d + '"""'
        if ins and not self.oneline:
            ls = q.split("\n")
            ls = [ls[0]] + [(self.bindstr + l if l.strip() else l) for l in ls[1:]]
            q = "\n".join(ls)
        if self.lit is None:
            if self.oneline:
                self.tail = "; " + self.tail
            else:
                self.tail = "\n" + self.bindstr + self.tail
        self.lit = q


# ---- lambdas -----------------------------------------------------------------
LAM_BODIES = [
    ("x", "x + g1"), ("x, y=2", "x * y - g2"), ("", "g1 + 3"), ("x", "(x)"), ("x", "(x, 1)[0]"),
    ("x", "[x, 1][0] + len('lambda: 0')"), ("x", "{'a': x}['a']"), ("x", "max(x, 2, key=lambda v_: -v_)"),
    ("x, y = 1", "x if y else g1"), ("x", "(lambda q: q + 1)(x)"), ("x", "sum(i for i in range(x % 4))"),
    ("x", "other(x) + 1"), ("n", "[i * n for i in range(3)][-1]"), ("x", 'len("a,b)") + x'),
    ("x", "x+1"), ("x,y=3", "(x,y)[1]"), ("a_1", "a_1 ** 2"), ("x", "-x"), ("x", "x[0] if isinstance(x, list) else x"),
]
LAM_EMBED = [
    ("", ""), ("foo = ", ""), ("foo = (", ")"), ("bar(", ", 3)"), ("x = [1, ", "]"), ("foo = ", "  # comment"),
    ("baz(k=", ")"), ("d = {'k': ", "}"), ("foo = ", "; z = 1"), ("foo(1, ", ", lambda z_: z_)"),
    ("y = x = ", ""), ("foo = ", " "), ("(", ")"), ("foo = ( ", " )"), ("a.b.c = ", ""), ("'lambda: 1'; foo = ", ""),
    ("foo = 'lambda q: q', ", ""), ("foo : object = ", ""), ("ret = grab(", ", 1, k=2)"),
    ("'\u00e9\u65e5'; foo = ", ""),
]


def gen_lambda(rng, mode):
    r = rng
    feat = set()
    params, body = r.choice(LAM_BODIES)
    kw = r.choice(["lambda ", "lambda ", "lambda  ", "lambda\t"]) if params else r.choice(["lambda", "lambda "])
    colon = r.choice([": ", ":", " : ", ":  "])
    lam = kw + params + colon + body
    multiline = False
    if r.random() < 0.15 and not body.startswith("("):
        # body wrapped in parentheses over several lines (raw tie only)
        multiline = True
        lam = kw + params + colon + "(" + body + r.choice(["\n", "\n    ", "\n\t", "  # c\n  "]) + ")"
        feat.add("multiline_lambda")
    pre, post = r.choice(LAM_EMBED)
    if pre or post:
        feat.add("embedded")
    if "lambda" in post or "lambda" in body:
        feat.add("several_lambdas")
    args = []
    np_req = 0 if not params else (1 if ("=" in params or "," not in params) else 2)
    for _ in range(2):
        a = [r.randint(0, 7) for _ in range(np_req)]
        if a not in args:
            args.append(a)
    return {"pre": pre, "lam": lam, "post": post, "multiline": multiline, "args": args, "feat": feat}
