"""Reference interpreter of the Exec formula language (harness-side oracle for (P);
the Coq specification is Exec/Spec.v — this mirrors it and additionally
reports direct reads and the failing chain).  Not part of the trusted base of
any theorem: it is only used to search for failing inputs."""


class Raised(Exception):
    def __init__(self, kind, chain=None):
        self.kind = kind
        self.chain = chain or []     # [(cid, key, line)] outermost first


CATCH = ("value", "key", "zero")


class Spec:
    def __init__(self, world, data=None, maxdepth=None):
        """data: {(cid, key-tuple): value} answers for cached cells (memo); None = uncached evaluation
        of everything except inputs"""
        self.w = world
        self.cells = {c["cid"]: c for c in world["cells"]}
        self.refs = {r["rid"]: r for r in world["refs"]}
        self.data = data or {}
        self.maxdepth = maxdepth

    def stmt_line(self, body, i):
        ln = 3
        for s in body[:i]:
            ln += 1 if s[0] == "assign" else 4
        return ln

    def arith(self, o, a, b):
        if a is None or b is None:
            raise Raised("type")
        if o == "add":
            return a + b
        if o == "sub":
            return a - b
        if o == "mul":
            return a * b
        if b == 0:
            raise Raised("zero")
        return a // b

    def expr(self, e, fr):
        t = e[0]
        if t == "const":
            return e[1]
        if t == "par":
            return fr["args"][e[1]]
        if t == "loc":
            return fr["locs"][e[1]]
        if t == "bin":
            a = self.expr(e[2], fr)
            b = self.expr(e[3], fr)
            return self.arith(e[1], a, b)
        if t == "ifpos":
            c = self.expr(e[1], fr)
            if c is None:
                raise Raised("type")
            return self.expr(e[2], fr) if c > 0 else self.expr(e[3], fr)
        if t == "call":
            vs = [self.expr(a, fr) for a in e[2]]
            c = self.cells[e[1]]
            nd = len(c["defaults"])
            n = len(vs)
            if not (n <= c["nparams"] and c["nparams"] - nd <= n):
                raise Raised("type")
            key = tuple(vs + c["defaults"][n - (c["nparams"] - nd):])
            return self.node(c["cid"], key, fr)
        if t == "refn":
            return self.refs[e[1]]["val"]
        if t == "refa":
            fr["attr"].append(e[1])
            return self.refs[e[1]]["val"]
        if t == "raise":
            raise Raised(e[1])
        raise ValueError(e)

    def node(self, cid, key, caller):
        """returns value; records in caller["reads"] the cached items consulted and object nodes passed"""
        c = self.cells[cid]
        if c["cached"] and (cid, key) in self.data:
            if caller is not None:
                caller["reads"].append((cid, key))
            return self.data[(cid, key)]
        depth = 0 if caller is None else caller["depth"] + 1
        if self.maxdepth is not None and depth > self.maxdepth:
            raise Raised("deep")
        fr = {"args": list(key), "locs": [], "reads": [], "attr": [], "depth": depth, "line": 0}
        body = c["body"]
        try:
            for i, s in enumerate(body):
                ln = self.stmt_line(body, i)
                if s[0] == "assign":
                    fr["line"] = ln
                    fr["locs"].append(self.expr(s[1], fr))
                elif s[0] == "fin":
                    pending = None
                    try:
                        fr["line"] = ln + 1
                        v = self.expr(s[1], fr)
                    except Raised as r:
                        pending = r
                    fr["line"] = ln + 3
                    self.expr(s[2], fr)           # a failure of the clean-up replaces the pending one
                    if pending is not None:
                        fr["line"] = ln + 1       # the frame's traceback entry stays at the protected expression
                        raise pending
                    fr["locs"].append(v)
                else:
                    try:
                        fr["line"] = ln + 1
                        v = self.expr(s[1], fr)
                    except Raised as r:
                        if r.kind not in CATCH:
                            raise
                        fr["line"] = ln + 3
                        v = self.expr(s[2], fr)
                    fr["locs"].append(v)
            v = fr["locs"][-1]
            if v is None and not c["allow_none"]:      # cached or not (fix 008a3ab)
                fr["line"] = 0
                raise Raised("none")
        except Raised as r:
            if caller is not None and not c["cached"]:
                caller["reads"] += fr["reads"]      # cached elements reached before the failure were called
            raise Raised(r.kind, [(cid, key, fr["line"])] + r.chain)
        if caller is not None:
            if c["cached"]:
                caller["reads"].append((cid, key))
                self.last = None
            else:
                caller["reads"].append((cid,))
                caller["reads"] += fr["reads"]
                caller["attr"] += fr["attr"]
        self.top_reads = fr["reads"]
        self.top_attr = fr["attr"]
        return v

    def top(self, cid, key):
        """('val', v, reads, attr) or ('err', kind, chain)"""
        self.top_reads, self.top_attr = [], []
        try:
            v = self.node(cid, tuple(key), None)
            return ("val", v, list(self.top_reads), list(self.top_attr))
        except Raised as r:
            return ("err", r.kind, r.chain)
        except RecursionError:
            return ("err", "deep", [])
