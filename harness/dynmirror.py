"""The edits of the Dyn vocabulary applied to the JSON mirror of the definitions (used by the generator to stay
valid and by drivers/dyn.py to build the FRESH model of the differential oracle).  A node holds its OWN definitions
and the paths of its bases; what a sub space derives is computed by modelx itself when the fresh model is built."""


def apply_edit(defs, op, globs=None):
    """the same edit on the mirror of the definitions (list of nodes; globs: references of the model)"""
    k = op["op"]
    if k == "setglobal":
        globs[op["x"]] = op["v"]
        return
    if k == "delglobal":
        globs.pop(op["x"], None)
        return

    def node(p):
        for nd in defs:
            if nd["path"] == p:
                return nd
        raise KeyError(p)

    if k in ("setformula", "newcells"):
        nd = node(op["p"])
        cells = [c for c in nd["cells"] if c[0] != op["c"]]
        if k == "setformula" and len(cells) == len(nd["cells"]):
            # inheritance class: the formula of a derived cells is set in the sub space; the cells becomes its own
            nd["cells"] = cells + [[op["c"], op["params"], op["body"]]]
        elif k == "setformula":
            nd["cells"] = [[op["c"], op["params"], op["body"]] if c[0] == op["c"] else c for c in nd["cells"]]
        else:
            nd["cells"] = cells + [[op["c"], op["params"], op["body"]]]
    elif k == "delcells":
        nd = node(op["p"]); nd["cells"] = [c for c in nd["cells"] if c[0] != op["c"]]
    elif k == "setref":
        nd = node(op["p"])
        if any(r[0] == op["x"] for r in nd["refs"]):
            nd["refs"] = [[op["x"], op["v"]] if r[0] == op["x"] else r for r in nd["refs"]]
        else:
            nd["refs"] = nd["refs"] + [[op["x"], op["v"]]]
    elif k == "delref":
        nd = node(op["p"]); nd["refs"] = [r for r in nd["refs"] if r[0] != op["x"]]
    elif k == "newspace":
        nd = {"path": op["q"], "params": op["params"], "cells": [], "refs": []}
        if op.get("bases"):
            nd["bases"] = [list(b) for b in op["bases"]]
        defs.append(nd)
    elif k == "delspace":
        q = op["q"]
        defs[:] = [nd for nd in defs if nd["path"][:len(q)] != q]
        for nd in defs:       # a deleted space is no base any more (inheritance class)
            if nd.get("bases"):
                nd["bases"] = [b for b in nd["bases"] if b[:len(q)] != q]
    elif k == "addbases":
        nd = node(op["p"]); nd["bases"] = (nd.get("bases") or []) + [list(b) for b in op["bases"]]
    elif k == "removebases":
        nd = node(op["p"]); nd["bases"] = [b for b in nd.get("bases") or [] if b not in op["bases"]]
    elif k == "setparams":
        nd = node(op["p"]); nd["params"] = op["params"]; nd.pop("raw_params", None)
