"""The edits of the Dyn vocabulary applied to the JSON mirror of the definitions (used by the generator to stay
valid and by drivers/dyn.py to build the FRESH model of the differential oracle)."""


def apply_edit(defs, op, globs=None):
    """the same edit on the mirror of the definitions (list of nodes; globs: references of the model)"""
    k = op["op"]
    if k == "setglobal":
        globs[op["x"]] = op["v"]
        return
    if k == "delglobal":
        globs.pop(op["x"], None)
        return

    def node(p):
        for nd in defs:
            if nd["path"] == p:
                return nd
        raise KeyError(p)

    if k in ("setformula", "newcells"):
        nd = node(op["p"])
        cells = [c for c in nd["cells"] if c[0] != op["c"]]
        if k == "setformula":
            nd["cells"] = [[op["c"], op["params"], op["body"]] if c[0] == op["c"] else c for c in nd["cells"]]
        else:
            nd["cells"] = cells + [[op["c"], op["params"], op["body"]]]
    elif k == "delcells":
        nd = node(op["p"]); nd["cells"] = [c for c in nd["cells"] if c[0] != op["c"]]
    elif k == "setref":
        nd = node(op["p"])
        if any(r[0] == op["x"] for r in nd["refs"]):
            nd["refs"] = [[op["x"], op["v"]] if r[0] == op["x"] else r for r in nd["refs"]]
        else:
            nd["refs"] = nd["refs"] + [[op["x"], op["v"]]]
    elif k == "delref":
        nd = node(op["p"]); nd["refs"] = [r for r in nd["refs"] if r[0] != op["x"]]
    elif k == "newspace":
        defs.append({"path": op["q"], "params": op["params"], "cells": [], "refs": []})
    elif k == "delspace":
        q = op["q"]
        defs[:] = [nd for nd in defs if nd["path"][:len(q)] != q]
    elif k == "setparams":
        nd = node(op["p"]); nd["params"] = op["params"]; nd.pop("raw_params", None)
