"""C04 / Serial/Codec.v tie: abstraction of the written __init__.py files into the
abstract statements of Codec.v (with Python's own `ast`), and of the harness
description into a `modelD` term.  Trusted: this file is the abstraction function of
the correspondence; it makes no decision the model makes (sections are computed the
way SourceStructure does, values are classified syntactically)."""
import ast, json
from fw import cstr, clist, ctuple, cnat, cN, cbool, copt

SECTION_DIVIDER = "# " + "-" * 75
SYMBOLS = {"# Cells": "CELLSDEFS", "# References": "REFDEFS", "": "DEFAULT"}


class Abstraction(Exception):
    pass


class Ids:
    """per-case tables: formula ids, numeric literal ids"""

    def __init__(self):
        self.formulas = {}
        self.nums = {}

    def formula(self, key):
        return cN(self.formulas.setdefault(key, len(self.formulas) + 1))

    def num(self, v):
        key = json.dumps(["lit", type(v).__name__, repr(v)])
        return cN(self.nums.setdefault(key, len(self.nums) + 1))

    def num_canon(self, canon):
        key = json.dumps(canon)
        return cN(self.nums.setdefault(key, len(self.nums) + 1))


def sections_of(src):
    """serializer_6.SourceStructure.construct / get_section, re-implemented"""
    sections = {}
    is_div = False
    for i, line in enumerate(src.split("\n")):
        if is_div:
            sections[i] = SYMBOLS.get(line.strip(), "DEFAULT")
            is_div = False
        elif line.strip() == SECTION_DIVIDER:
            is_div = True

    def get(lineno):
        secno = next((i for i in reversed(list(sections)) if lineno > i), 0)
        return sections[secno] if secno else "DEFAULT"
    return get


def const_value(node):
    """numeric literal as the reader's LiteralDecoder understands it"""
    if isinstance(node, ast.Constant) and type(node.value) in (int, float):
        return node.value
    if isinstance(node, ast.Name) and node.id in ("NaN", "Infinity"):
        return float("nan") if node.id == "NaN" else float("inf")
    if isinstance(node, ast.UnaryOp) and isinstance(node.op, ast.USub):
        return -const_value(node.operand)
    raise Abstraction("not a number: " + ast.dump(node))


def aval_of(node, ids):
    if isinstance(node, ast.Constant):
        v = node.value
        if v is None:
            return "ANone"
        if v is True or v is False:
            return "(ABool %s)" % cbool(v)
        if isinstance(v, str):
            return "(AStr %s)" % cstr(v)
        return "(ANum %s)" % ids.num(const_value(node))
    if isinstance(node, (ast.Name, ast.UnaryOp)):
        return "(ANum %s)" % ids.num(const_value(node))
    if isinstance(node, ast.List):
        if not all(isinstance(e, ast.Constant) and isinstance(e.value, str) for e in node.elts):
            raise Abstraction("list of non-strings")
        return "(AStrList %s)" % clist([cstr(e.value) for e in node.elts])
    if isinstance(node, ast.Lambda):
        return "(ALambda %s)" % ids.formula("L" + ast.dump(node))
    if isinstance(node, ast.Tuple) and node.elts and isinstance(node.elts[0], ast.Constant):
        tag = node.elts[0].value
        if tag == "Interface":
            t = node.elts[1]
            if not (isinstance(t, ast.Tuple) and all(isinstance(e, ast.Constant) and isinstance(e.value, str) for e in t.elts)):
                raise Abstraction("interface tuple with non-string parts")
            parts = [e.value for e in t.elts]
            if not parts or set(parts[0]) - {"."}:
                raise Abstraction("interface tuple without dots")
            mode = node.elts[2].value if len(node.elts) > 2 else "<none>"
            return "(AIface %s %s %s)" % (cnat(len(parts[0])), clist([cstr(x) for x in parts[1:]]), cstr(str(mode)))
        if tag == "Module":
            return "(AModule %s)" % cstr(node.elts[1].value)
        if tag == "Pickle":
            return "APickle"
    raise Abstraction("value not in the vocabulary: " + ast.dump(node)[:200])


def lines_of(src, ids):
    get = sections_of(src)
    tree = ast.parse(src)
    out = []
    for st in tree.body:
        sec = get(st.lineno)
        if isinstance(st, ast.Expr) and isinstance(st.value, ast.Constant) and isinstance(st.value.value, str):
            s = "(StExpr %s)" % cstr(st.value.value)
        elif isinstance(st, ast.ImportFrom):
            s = "StImport"
        elif isinstance(st, ast.Assign) and len(st.targets) == 1 and isinstance(st.targets[0], ast.Name):
            s = "(StAssign %s %s)" % (cstr(st.targets[0].id), aval_of(st.value, ids))
        elif isinstance(st, ast.FunctionDef):
            s = "(StDef %s %s)" % (cstr(st.name), ids.formula("D" + ast.dump(st)))
        else:
            raise Abstraction("statement not in the vocabulary: " + ast.dump(st)[:200])
        out.append("(%s, %s)" % (sec, s))
    return clist(out)


def formula_key(src):
    if src[:6] == "lambda":
        return True, "L" + ast.dump(ast.parse(src.strip(), mode="eval").body)
    return False, "D" + ast.dump(ast.parse(src).body[0])


def files_term(texts, d, ids):
    """(model lines, [FT ...]) with children in the description's space order"""
    def tree(prefix, name, sd):
        path = prefix + name + "/"
        return "(FT %s %s %s)" % (cstr(name), lines_of(texts[path + "__init__.py"], ids),
                                  clist([tree(path, n, sd["spaces"][n]) for n in sd["spaces_order"]]))
    return ctuple([lines_of(texts["__init__.py"], ids),
                   clist([tree("", n, d["spaces"][n]) for n in d["spaces_order"]])])


def refval_term(canon, mode, mname, ids):
    k = canon[0]
    if k == "lit":
        t, rp = canon[1], canon[2]
        if t == "NoneType":
            return "(VLit LNone)"
        if t == "bool":
            return "(VLit (LBool %s))" % cbool(rp == "True")
        if t == "str":
            return "(VLit (LStr %s))" % cstr(ast.literal_eval(rp))
        return "(VLit (LNum %s))" % ids.num_canon(canon)
    if k == "obj":
        tgt = [mname] + (canon[2].split(".") if canon[2] else [])
        return "(VObj %s %s)" % (clist([cstr(x) for x in tgt]), cstr(mode))
    if k == "module":
        return "(VModule %s)" % cstr(canon[1])
    return "VPickle"


def optstr(s):
    return copt(None if s is None else cstr(s))


def optbool(b):
    return copt(None if b is None else cbool(b))


def model_term(d, ids):
    mname = d["name"]

    def ref(name, rd, is_model):
        return "(mkRef %s %s)" % (cstr(name), refval_term(rd["value"], "None" if is_model else rd["refmode"], mname, ids))

    def cells(name, cd):
        lam, key = formula_key(cd["formula"])
        return "(mkCells %s %s %s %s %s %s)" % (cstr(name), cbool(lam), ids.formula(key), optbool(cd["allow_none"]),
                                                cbool(cd["is_cached"]), optstr(cd["doc"] if lam else None))

    def space(name, sd):
        if sd["formula"] is None:
            f = "None"
        else:
            lam, key = formula_key(sd["formula"])
            f = "(Some (%s, %s))" % (cbool(lam), ids.formula(key))
        bases = clist([clist([cstr(x) for x in [mname] + b.split(".")]) for b in sd["bases"]])
        cs = clist([cells(n, sd["cells"][n]) for n in sd["cells_order"] if not sd["cells"][n]["derived"]])
        rs = clist([ref(n, rd, False) for n, rd in sd["refs"].items() if not rd["derived"]])
        ch = clist([space(n, sd["spaces"][n]) for n in sd["spaces_order"]])
        return "(SpaceD %s %s %s %s %s %s %s %s)" % (cstr(name), optstr(sd["doc"]), f, bases, optbool(sd["allow_none"]), cs, rs, ch)
    return "(mkModel %s %s %s %s %s)" % (cstr(mname), optstr(d["doc"]), cbool(bool(d["allow_none"])),
                                         clist([ref(n, rd, True) for n, rd in d["refs"].items()]),
                                         clist([space(n, d["spaces"][n]) for n in d["spaces_order"]]))


def case_term(d, texts):
    ids = Ids()
    m = model_term(d, ids)          # description first: the ids are fixed by the description
    f = files_term(texts, d, ids)
    return ctuple([m, f])
